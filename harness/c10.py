"""C10 — clone groups satisfy the contract of the selected grouping mode."""
import itertools
import json
import os
from fractions import Fraction

import lib
from lib import cQ, clist

REQ = ("From Coq Require Import NArith ZArith QArith List.\nImport ListNotations.\n"
       "From PV Require Import Clone.GroupSpec Clone.GroupRun Clone.GroupNorm.\nOpen Scope N_scope.")
MODES = ["connected", "complete_linkage", "k_core", "star"]
MN = {m: i for i, m in enumerate(MODES)}
EPS = Fraction(1, 64)


# --------------------------------------------------------------------------------------
# the property's own conditions, evaluated directly on a list of groups (independent of Coq;
# the Coq checker check_contract, proved equivalent to the contract, must agree)
# --------------------------------------------------------------------------------------
def threshold_graph(pairs, t):
    adj = {}
    for i, j, s in pairs:
        if i != j and s >= t:
            adj.setdefault(i, set()).add(j)
            adj.setdefault(j, set()).add(i)
    return adj


def components(adj, verts):
    seen, comps = set(), []
    for v in verts:
        if v in seen:
            continue
        comp, stack = set(), [v]
        seen.add(v)
        while stack:
            x = stack.pop()
            comp.add(x)
            for y in adj.get(x, ()):
                if y in verts and y not in seen:
                    seen.add(y)
                    stack.append(y)
        comps.append(comp)
    return comps


def effective_k(k):
    return max(2, k)


def py_contract(mode, k, t, pairs, groups):
    """None if the contract of `mode` holds for `groups`, else a description of the clause that fails."""
    adj = threshold_graph(pairs, t)
    seen = set()
    for g in groups:
        if len(set(g)) != len(g):
            return "a fragment occurs twice in group %s" % g
        if len(g) < 2:
            return "group %s has fewer than two members" % g
        if seen & set(g):
            return "fragment(s) %s belong to two groups" % sorted(seen & set(g))
        seen |= set(g)
        if len(components(adj, set(g))) != 1:
            return "members of group %s are not linked by pairs >= threshold inside the group" % sorted(g)
    if mode == "connected":
        verts = set(adj)
        want = {frozenset(c) for c in components(adj, verts) if len(c) >= 2}
        got = {frozenset(g) for g in groups}
        if want != got:
            return "groups %s are not the connected components %s" % (sorted(map(sorted, got)), sorted(map(sorted, want)))
    elif mode == "complete_linkage":
        for g in groups:
            for a, b in itertools.combinations(g, 2):
                if b not in adj.get(a, ()):
                    return "members %d and %d of group %s are not a pair >= threshold" % (a, b, sorted(g))
    elif mode == "k_core":
        kk = effective_k(k)
        for g in groups:
            for a in g:
                if len(adj.get(a, set()) & set(g)) < kk:
                    return "member %d of group %s has fewer than %d neighbours in the group" % (a, sorted(g), kk)
    elif mode == "star":
        for g in groups:
            if not any(all(f == m or m in adj.get(f, ()) for f in g) for m in g):
                return "group %s has no medoid that is >= threshold with every other member" % sorted(g)
    return None


def py_kcore_components(k, t, pairs):
    """Components (>= 2 members) of the k-core of G_t: used only as an additional exactness check."""
    adj = {v: set(n) for v, n in threshold_graph(pairs, t).items()}
    kk = effective_k(k)
    changed = True
    while changed:
        changed = False
        for v in list(adj):
            if len(adj[v]) < kk:
                for u in adj[v]:
                    adj[u].discard(v)
                del adj[v]
                changed = True
    return {frozenset(c) for c in components(adj, set(adj)) if len(c) >= 2}


# --------------------------------------------------------------------------------------
# inputs
# --------------------------------------------------------------------------------------
def edge_slots(n):
    return [(i, j) for i in range(n) for j in range(i + 1, n)]


def lattice_pairs(base, t, eps, n, code, variant):
    """Mirror of Clone/GroupLattice.v:lattice_graph."""
    out = []
    for (i, j) in edge_slots(n):
        d = code % base
        code //= base
        if d == 0:
            continue
        w = {1: t - eps, 2: t, 3: t + eps}.get(d, Fraction(1))
        out.append((i, j, w))
    if variant:
        out = [(j, i, w) for (i, j, w) in reversed(out)]
    return out


def collect(pairs):
    seen, order = set(), []
    for i, j, _ in pairs:
        for x in (i, j):
            if x not in seen:
                seen.add(x)
                order.append(x)
    return order


def make_locs(rng, n):
    """Locations whose fragmentLess order is the numbering 0..n-1, varied in the field that decides."""
    style = rng.randint(0, 3)
    locs = []
    for i in range(n):
        if style == 0:
            locs.append(["pkg/m.py", 10 * i + 1, 10 * i + 7, 0, 4])
        elif style == 1:
            locs.append(["pkg/m%03d.py" % i, 5, 20, 0, 0])
        elif style == 2:
            locs.append(["a.py", 3, 30 + (i // 4), i // 2, 7 + i])       # same start line: column, end line, end col
        else:
            locs.append(["d%d/f.py" % (i // 7), 100 * (i % 7) + 1, 100 * (i % 7) + 50, 4, 8])
    return locs


def rand_sim(rng, t):
    r = rng.random()
    if r < 0.55:
        return rng.choice([t - EPS, t, t + EPS, Fraction(1), t, t + EPS])
    return Fraction(rng.randint(1, 64), 64)


def rand_graph(rng, n, t, density, dup=0.1):
    pairs = []
    for i in range(n):
        for j in range(i + 1, n):
            if rng.random() < density:
                s = rand_sim(rng, t)
                pairs.append((i, j, s) if rng.random() < 0.5 else (j, i, s))
                if rng.random() < dup:          # duplicate report of the same pair, other orientation/similarity
                    s2 = rand_sim(rng, t)
                    pairs.append((j, i, s2) if rng.random() < 0.5 else (i, j, s2))
    rng.shuffle(pairs)
    return pairs


def structured_graphs(rng, t):
    """Shapes aimed at the clauses: degree exactly k, similarities exactly at the threshold, bridges."""
    out = []
    at, below, above = t, t - EPS, t + EPS
    for k in (2, 3):
        # clique K_{k+1}: every vertex has degree exactly k
        n = k + 1
        out.append((n, [(i, j, at) for i in range(n) for j in range(i + 1, n)], k))
        # K_{k+1} minus one edge / with one edge just below the threshold
        pr = [(i, j, at) for i in range(n) for j in range(i + 1, n)]
        out.append((n, pr[1:], k))
        out.append((n, [(pr[0][0], pr[0][1], below)] + pr[1:], k))
        # K_{k+2} plus a pendant path hanging off it (peeled away in order)
        n2 = k + 2
        pr = [(i, j, above) for i in range(n2) for j in range(i + 1, n2)]
        pr += [(n2 - 1, n2, at), (n2, n2 + 1, at), (n2 + 1, n2 + 2, above)]
        out.append((n2 + 3, pr, k))
        # two cliques joined by a bridge at / below the threshold
        for w in (at, below):
            a = [(i, j, above) for i in range(n) for j in range(i + 1, n)]
            b = [(n + i, n + j, at) for i in range(n) for j in range(i + 1, n)]
            out.append((2 * n, a + b + [(0, n, w)], k))
        # cycle (2-regular) and cycle with chords (3-regular on even n)
        for m in (4, 5, 6, 8):
            cyc = [(i, (i + 1) % m, at) for i in range(m)]
            out.append((m, cyc, k))
            if m % 2 == 0:
                out.append((m, cyc + [(i, i + m // 2, at) for i in range(m // 2)], k))
        # vertex whose degree drops to exactly k-1 only after a neighbour is peeled
        core = [(i, j, at) for i in range(k + 1) for j in range(i + 1, k + 1)]
        v = k + 1
        extra = [(v, i, at) for i in range(k - 1)] + [(v, v + 1, at)]
        out.append((v + 2, core + extra, k))
    # star shapes: hub with leaves exactly at / just below the threshold, leaves pairwise unrelated or weakly related
    for m in (3, 4, 6):
        out.append((m + 1, [(0, i, at) for i in range(1, m + 1)], 2))
        out.append((m + 1, [(0, i, at if i % 2 else below) for i in range(1, m + 1)], 2))
        out.append((m + 1, [(0, i, above) for i in range(1, m + 1)] + [(1, 2, below), (2, 3, below)], 2))
    # chains: transitive links, ends not similar
    for m in (3, 4, 5, 7):
        out.append((m, [(i, i + 1, at) for i in range(m - 1)], 2))
        out.append((m, [(i, i + 1, at if i != 1 else below) for i in range(m - 1)], 2))
        out.append((m, [(i, i + 1, above) for i in range(m - 1)] + [(0, m - 1, below)], 2))
    # near-cliques for complete linkage: one missing / one weak edge among strong ones; merge-order traps
    for m in (3, 4, 5):
        full = [(i, j, Fraction(1)) for i in range(m) for j in range(i + 1, m)]
        out.append((m, full, 2))
        out.append((m, full[:-1], 2))
        out.append((m, full[:-1] + [(m - 2, m - 1, below)], 2))
        out.append((m, [(i, j, at if (i + j) % 2 else above) for i in range(m) for j in range(i + 1, m)], 2))
    res = []
    for n, pairs, k in out:
        pairs = [(i, j, s) if rng.random() < 0.5 else (j, i, s) for (i, j, s) in pairs]
        rng.shuffle(pairs)
        res.append((n, pairs, k))
    return res


# --------------------------------------------------------------------------------------
# Coq side
# --------------------------------------------------------------------------------------
def cgroups(gs):
    return "[" + ";".join("[" + ";".join(str(x) for x in g) + "]" for g in gs) + "]"


def cgraph(pairs):
    return "[" + ";".join("(%d,%d,%s)" % (i, j, cQ(s)) for i, j, s in pairs) + "]"


VARIANTS5 = [("connected", 2), ("complete_linkage", 2), ("k_core", 2), ("k_core", 3), ("star", 2)]


def lattice_variant(code, mode, k):
    """Mirror of GroupRun.lattice_variant."""
    return (code + MN[mode] + k) % 2 == 1


def enc_groups(n, groups):
    """Mirror of GroupRun.enc on canonical groups; None if the groups are not disjoint sets."""
    lab = [0] * n
    for g in groups:
        if not g or len(set(g)) != len(g):
            return None
        for x in g:
            if not (0 <= x < n) or lab[x]:
                return None
            lab[x] = min(g) + 1
    code = 0
    for x in reversed(range(n)):
        code = lab[x] + (n + 1) * code
    return code


def lattice_jobs(scopes, chunk=1500):
    """scopes: (base, t, eps, n, start, stride, count). One number per case, cases enumerated by Coq."""
    jobs, layout = [], []
    for si, (base, t, eps, n, start, stride, count) in enumerate(scopes):
        for off in range(0, count, chunk):
            c = min(chunk, count - off)
            body = "Eval vm_compute in lattice_results %d %s %s %d%%nat %d %d %d%%nat.\n" % (
                base, cQ(t), cQ(eps), n, start + stride * off, stride, c)
            jobs.append(("C10_lat_%d_%d" % (si, off), REQ, body))
            layout.append((si, off, c))
    return jobs, layout


def explicit_jobs(items, shard_explicit=40):
    """items: (idx, case, impl groups) evaluated one by one with GroupRun.verdict."""
    jobs = []
    cur, defs, weight = [], {}, 0

    def flush():
        nonlocal cur, defs, weight
        if cur:
            body = "".join("Definition %s : pgraph := %s.\n" % (nm, g) for g, nm in defs.items())
            body += "Eval vm_compute in concat [%s].\n" % ";\n".join(cur)
            jobs.append(("C10_expl_%d" % len(jobs), REQ, body))
        cur, defs, weight = [], {}, 0
    for idx, c, g in items:
        # float similarities (detector runs, CLI reports): verdict_norm = verdict (C10_verdict_normalised) decides t <= s once per pair
        fn = "verdict_norm" if c.get("det") or c.get("e2e") else "verdict"
        graph = cgraph(case_pairs(c))
        w = 1 + (c["n"] ** 3) // 400
        if c.get("det"):
            # the runs of one detection path and cap report the same pair list under every grouping mode: parse it once per shard
            if graph not in defs:
                defs[graph] = "g%d" % len(defs)
                w += len(case_pairs(c)) // 3
            graph = defs[graph]
        else:
            w += len(case_pairs(c)) // (3 if fn == "verdict_norm" else 10)
        cur.append("%s %d %d (%d)%%Z %s %s [%s] %s" % (fn, idx, MN[c["mode"]], c["k"], cQ(c["t"]), graph,
                                                      ";".join(str(x) for x in case_ord(c)), cgroups(g)))
        weight += w
        if weight >= shard_explicit * 4:
            flush()
    flush()
    return jobs


def case_ord(c):
    if c["kind"] == "lattice":
        o = collect(case_pairs(c))
        return list(reversed(o)) if c["variant"] else o
    return c["ord"]


def parse_verdicts(outs):
    bad = {}
    for out in outs:
        for v in lib.parse_coq_values(out):
            for row in v:
                idx, mg, ci, cm, same = row
                bad[idx] = (mg, ci, cm, same)
    return bad


def case_pairs(c):
    if c["kind"] == "lattice":
        return lattice_pairs(c["base"], c["t"], c["eps"], c["n"], c["code"], c["variant"])
    return c["pairs"]


def request_of(c, repeat):
    pairs = case_pairs(c)
    r = {"op": "group", "n": c["n"], "pairs": [[i, j, float(s)] for i, j, s in pairs], "mode": c["mode"],
         "threshold": float(c["t"]), "k": c["k"], "repeat": repeat}
    if c.get("locs"):
        r["locs"] = c["locs"]
    return r


def replay_of(c, extra=None):
    if c.get("det"):
        # one real detector call: feed "driver_request" to build/bin/pyscn-verif; pairs/groups are numbered by location order
        d = {"kind": "detector", "path": c["path"], "MaxClonePairs": c["cap"], "pairs_without_cap": c["uncapped_pairs"],
             "mode": c["mode"], "threshold": str(c["t"]), "threshold_float": float(c["t"]), "k": c["k"], "n": c["n"],
             "pairs": [[i, j, str(s)] for i, j, s in c["pairs"]], "locations": c["locations"], "driver_request": c["request"]}
        if extra:
            d.update(extra)
        return d
    d = {"kind": "group", "mode": c["mode"], "threshold": str(c["t"]), "k": c["k"], "n": c["n"],
         "pairs": [[i, j, str(s)] for i, j, s in case_pairs(c)], "driver_request": request_of(c, 1)}
    if c["kind"] == "lattice":
        d["lattice"] = {"base": c["base"], "eps": str(c["eps"]), "code": c["code"], "variant": c["variant"]}
    if extra:
        d.update(extra)
    return d


# --------------------------------------------------------------------------------------
# command line: clone.clone_groups[] of the JSON report under each grouping mode
# --------------------------------------------------------------------------------------
FAMILY = '''
def {name}(items, limit):
    total = 0
    count = 0
    for item in items:
        if item > limit:
            total += item * {c1}
            count += 1
        elif item < -limit:
            total -= item
        else:
            total += {c2}
{extra}    if count == 0:
        return None
    result = total / count
    return result + {c3}
'''
EXTRAS = ["", "    for item in items:\n        count += 1\n", "    while total > 1000:\n        total = total // 2\n        count += 1\n",
          "    try:\n        total = int(total)\n    except ValueError:\n        total = 0\n",
          "    if limit > 10:\n        total += limit\n    else:\n        total -= limit\n",
          "    values = [x * 2 for x in items if x]\n    total += len(values)\n    with open('f') as fh:\n        total += len(fh.read())\n"]
OTHER = '''
def {name}(path, mode):
    handle = open(path, mode)
    lines = []
    try:
        for line in handle:
            line = line.strip()
            if not line:
                continue
            lines.append(line.{meth}())
    finally:
        handle.close()
{extra}    return lines
'''


def write_project(d, rng, nfiles):
    k = 0
    for fi in range(nfiles):
        parts = []
        for _ in range(rng.randint(2, 4)):
            if rng.random() < 0.65:
                ex = "".join(rng.sample(EXTRAS, rng.randint(0, 3)))
                parts.append(FAMILY.format(name="fam%d" % k, c1=rng.randint(1, 9), c2=rng.randint(1, 9), c3=rng.randint(1, 9), extra=ex))
            else:
                ex = "".join(rng.sample(EXTRAS, rng.randint(0, 2)))
                parts.append(OTHER.format(name="oth%d" % k, meth=rng.choice(["lower", "upper", "title"]), extra=ex.replace("total", "mode").replace("count", "mode").replace("items", "lines").replace("limit", "mode")))
            k += 1
        with open(os.path.join(d, "mod%d.py" % fi), "w") as f:
            f.write("\n".join(parts))


def loc_key(cl):
    l = cl["location"]
    return (l["file_path"], l["start_line"], l["start_col"], l["end_line"], l["end_col"])


ALL_TYPES = 'enabled_clone_types = ["type1", "type2", "type3", "type4"]\n'
LSH_ON = 'lsh_enabled = "true"\n'
CLI_PAIR_CAP = 10000        # MaxClonePairs of the detector the service builds (service/clone_service.go)


def cli_run(ck, d, mode, thr, k, all_types, extra=""):
    """One `pyscn analyze --select clones` run; returns (order, pairs, groups, request) or None."""
    with open(os.path.join(d, ".pyscn.toml"), "w") as f:
        f.write('[clones]\ngrouping_mode = "%s"\ngrouping_threshold = %s\nk_core_k = %d\nsimilarity_threshold = 0.6\n%s%s'
                % (mode, thr, k, ALL_TYPES if all_types else "", extra))
    rc, data, err = lib.analyze_json(d, ["--select", "clones"])
    if data is None or not data.get("clone"):
        ck.broken_ties.append("e2e: pyscn analyze (mode %s) produced no clone report (rc=%s): %s" % (mode, rc, err[-300:]))
        return None
    cl = data["clone"]
    keys = set()
    for p in cl.get("clone_pairs") or []:
        keys.add(loc_key(p["clone1"]))
        keys.add(loc_key(p["clone2"]))
    for g in cl.get("clone_groups") or []:
        for c in g["clones"]:
            keys.add(loc_key(c))
    return cl, keys


def number(cl, order):
    num = {kk: i for i, kk in enumerate(order)}
    pairs = [(num[loc_key(p["clone1"])], num[loc_key(p["clone2"])], Fraction(p["similarity"])) for p in cl.get("clone_pairs") or []]
    groups = [sorted(num[loc_key(c)] for c in g["clones"]) for g in cl.get("clone_groups") or []]
    return pairs, groups


BIG = '''def handler_{i}(request, context):
    field_a = request.get("a", context)
    field_b = request.get("b", {c})
{extra}    return build(field_a, field_b)
'''


def e2e_lsh_capped(ck, rng, modes):
    """CLI with LSH on and MORE clone pairs than the detector keeps (cap 10000): clone.clone_groups[] against the
    clone.clone_pairs[] of the same report. One family of n near-identical small functions (n(n-1)/2 > cap; a few members carry
    an extra statement, their pairs are the weaker ones) and a small unrelated family whose pairs are the weakest of all.
    Decided with the Python statement of the contract only (10^4 pairs on ~150 fragments). Returns statistics."""
    st = {"runs": 0, "reported_pairs": [], "fragments": 0, "capped": 0}
    n = rng.randint(146, 150)
    d = lib.fresh_dir("c10_e2e_lsh")
    weak = set(rng.sample(range(n), rng.randint(2, 4)))
    parts = [BIG.format(i=i, c=rng.randint(1, 9), extra="    context = dict(context)\n" if i in weak else "") for i in range(n)]
    zex = rng.sample(DET_Z_EXTRA[1:], 2)
    others = [DET_Z.format(name="other%d" % i, extra=zex[i]) for i in range(2)]
    cut = rng.randint(1, n - 1)
    with open(os.path.join(d, "handlers.py"), "w") as f:
        f.write("\n\n".join(parts[:cut] + others[:1]))
    with open(os.path.join(d, "more.py"), "w") as f:
        f.write("\n\n".join(others[1:] + parts[cut:]))
    for mode in modes:
        thr = rng.choice([0.65, 0.7, 0.8])
        k = rng.choice([2, 3])
        res = cli_run(ck, d, mode, thr, k, True, LSH_ON + "min_lines = 3\nmin_nodes = 3\n" +
                      rng.choice(["", "enable_dfa = false\n"]))
        if res is None:
            continue
        cl, keys = res
        order = sorted(keys)
        pairs, groups = number(cl, order)
        st["runs"] += 1
        st["reported_pairs"].append(len(pairs))
        st["fragments"] = (cl.get("statistics") or {}).get("total_fragments")
        st["capped"] += len(pairs) >= CLI_PAIR_CAP
        why = py_contract(mode, k, Fraction(thr), pairs, groups)
        if why:
            ck.violation("pyscn analyze with lsh_enabled = \"true\" and %d reported pairs (detector cap %d), clone.clone_groups[] against "
                         "clone.clone_pairs[] of the same report, mode %s threshold %s k %d: %s" % (len(pairs), CLI_PAIR_CAP, mode, thr, k, why[:400]),
                         {"kind": "e2e-lsh-capped", "dir": d, "config": open(os.path.join(d, ".pyscn.toml")).read(), "mode": mode,
                          "threshold": thr, "k": k, "reported_pairs": len(pairs), "groups": [[order[x] for x in g][:6] + ["... %d members" % len(g)] for g in groups][:10],
                          "how": "cd <dir> && pyscn analyze --json --no-open --select clones ."})
    if st["runs"] and not st["capped"]:
        ck.broken_ties.append("e2e: the large LSH project reported fewer pairs than the detector cap (generator too weak): %s" % st)
    return st


# --------------------------------------------------------------------------------------
# command line: isolated components of verbatim copies (every pair exactly 1.0) next to mixed components,
# and the similarity range of the report (min_similarity / max_similarity) exactly at / next to observed values
# --------------------------------------------------------------------------------------
# structurally unrelated functions; the copies of one component are the same text (same names, same literals)
VERB = ['''def load_table(path, defaults):
    result = dict(defaults)
    handle = open(path)
    while True:
        line = handle.readline()
        if not line:
            break
        key, _, value = line.partition("{s1}")
        result[key.strip()] = value.strip()
    handle.close()
    result["lines"] = {c1}
    return result
''', '''class Window{c1}:
    def __init__(self, width, height):
        self.width = width
        self.height = height
        self.title = "{s1}"
        self.border = {c2}
        self.children = []

    def area(self):
        inner = self.width * self.height
        frame = {c1} * self.border
        return inner - frame

    def add(self, child):
        self.children.append(child)
        return len(self.children)
''', '''def parse_flags(argv, known):
    flags = {{}}
    rest = []
    for pos, arg in enumerate(argv):
        if arg.startswith("--") and arg[2:] in known:
            flags[arg[2:]] = pos + {c2}
        elif arg == "{s1}":
            rest.extend(argv[pos + 1:])
            break
        else:
            rest.append(arg)
    if len(rest) > {c1}:
        raise SystemExit(rest[{c1}])
    return flags, rest
''', '''def merge_maps(left, right, limit):
    merged = {{k: v for k, v in left.items() if v is not None}}
    extra = [k for k in right if k not in merged]
    merged.update((k, right[k]) for k in extra)
    assert len(merged) >= {c1}, "{s1}"
    keys = sorted(merged, key=lambda k: (len(k), k))
    first = keys[:limit]
    rest = keys[limit:]
    dropped = {{k: merged.pop(k) for k in rest}}
    sizes = (len(first), len(rest), len(dropped))
    return merged, first, sizes, {c2}
''', '''def format_row(name, width, fill):
    text = str(name)
    pad = width - len(text)
    left = pad // 2
    right = pad - left
    text = fill * left + text + fill * right
    text = text.replace("{s1}", "")
    text = text[:width + {c1}]
    edge = "|" if width > {c2} else "!"
    line = edge + text + edge
    print(line)
    return line
''', '''def walk_tree(node, visit):
    stack = [node]
    seen = set()
    while stack:
        cur = stack.pop()
        if id(cur) in seen:
            continue
        seen.add(id(cur))
        visit(cur, {c1})
        stack.extend(reversed(cur.children))
    total = len(seen)
    return total + {c2}
''']
D40 = 2.0 ** -40
VERB_CFG = "min_lines = 6\nmin_nodes = 10\n"      # the defaults (10 lines, 20 nodes) would drop most of these functions


def write_verbatim_project(d, rng):
    """Files with three isolated families of 2, 3 and 4 verbatim copies (three unrelated texts, the copies spread over the
    files) next to near copies (FAMILY, OTHER) that form mixed components. Returns the sizes asked for."""
    nfiles = rng.randint(3, 5)
    texts = [[] for _ in range(nfiles)]
    sizes = [2, 3, 4]
    rng.shuffle(sizes)
    for size, tmpl in zip(sizes, rng.sample(VERB, 3)):
        text = tmpl.format(c1=rng.randint(1, 9), c2=rng.randint(1, 9), s1=rng.choice(["=", ":", "-", "x"]))
        where = rng.sample(range(nfiles), min(size, nfiles))
        where += [rng.randrange(nfiles) for _ in range(size - len(where))]      # more copies than files: two in one file
        for f in where:
            texts[f].append(text)
    k = 0
    ex = ""
    for _ in range(rng.randint(4, 6)):
        if k != 1:          # the first two differ in their constants only: at least one mixed component at every threshold used
            ex = "".join(rng.sample(EXTRAS, rng.randint(0, 2)))
        texts[rng.randrange(nfiles)].append(FAMILY.format(name="fam%d" % k, c1=rng.randint(1, 9), c2=rng.randint(1, 9), c3=rng.randint(1, 9), extra=ex))
        k += 1
    for _ in range(rng.randint(2, 3)):
        ex = "".join(rng.sample(EXTRAS, rng.randint(0, 1)))
        texts[rng.randrange(nfiles)].append(OTHER.format(name="oth%d" % k, meth=rng.choice(["lower", "upper"]),
                                                        extra=ex.replace("total", "mode").replace("count", "mode").replace("items", "lines").replace("limit", "mode")))
        k += 1
    for fi, parts in enumerate(texts):
        rng.shuffle(parts)
        with open(os.path.join(d, "part%d.py" % fi), "w") as f:
            f.write("\n".join(parts) or "pass\n")
    return sizes


def report_elems(cl):
    """(pairs, groups) of a report keyed by location: {frozenset of 2 keys: similarity}, {frozenset of keys: similarity}."""
    pairs = {frozenset((loc_key(p["clone1"]), loc_key(p["clone2"]))): p["similarity"] for p in cl.get("clone_pairs") or []}
    groups = {frozenset(loc_key(c) for c in g["clones"]): g["similarity"] for g in cl.get("clone_groups") or []}
    return pairs, groups


def pure_components(pairs, t):
    """Components (>= 2 members) of the reported pair graph at t all of whose reported inner pairs are exactly 1.0."""
    out = []
    for comp in components(threshold_graph(pairs, t), set(x for a, b, _ in pairs for x in (a, b))):
        if len(comp) >= 2 and all(s == 1 for a, b, s in pairs if a in comp and b in comp):
            out.append(comp)
    return out


def range_lattice(values):
    """(min_similarity, max_similarity) with one bound exactly at / 2^-40 below / 2^-40 above each value, the other at its default."""
    out = []
    for v in values:
        for dv in (0.0, -D40, D40):
            b = v + dv
            if 0.0 <= b <= 1.0 and (b == v) == (dv == 0.0):
                out += [(b, 1.0), (0.0, b)]
    return [x for x in dict.fromkeys(out) if x != (0.0, 1.0)]


def in_range(s, lo, hi):
    return lo <= s <= hi


def e2e_verbatim(ck, rng, projects, modes_full):
    """Returns (cases, impl groups, statistics)."""
    from concurrent.futures import ThreadPoolExecutor
    import shutil
    cases, impls = [], []
    st = {"projects": 0, "runs": 0, "range_runs": 0, "pure_component_sizes": [], "mixed_components": 0, "bound_on_group_similarity": 0,
          "bound_on_pair_similarity": 0, "groups_dropped_by_range": 0, "pairs_dropped_by_range": 0, "contract_decided": 0,
          "known_range_filter_cases": 0, "range_filter_violations": 0}

    def one(job):
        d, mode, thr, k, extra = job
        return cli_run(ck, d, mode, thr, k, True, extra)

    for pi in range(projects):
        d0 = lib.fresh_dir("c10_e2e_verb_%d" % pi)
        write_verbatim_project(d0, rng)
        srcs = [f for f in os.listdir(d0) if f.endswith(".py")]
        thr = rng.choice([0.7, 0.75, 0.8])
        settings = [(mode, thr, rng.choice([2, 3]) if mode == "k_core" else 2) for mode in MODES]

        def clone_dir(tag):
            d = lib.fresh_dir("c10_e2e_verb_%d_%s" % (pi, tag))
            for f in srcs:
                shutil.copy(os.path.join(d0, f), d)
            return d
        # phase 1: the default range [0, 1], every grouping mode
        jobs1 = [(clone_dir("m%d" % MN[mode]), mode, t, k, VERB_CFG) for mode, t, k in settings]
        with ThreadPoolExecutor(8) as ex:
            res1 = list(ex.map(one, jobs1))
        st["projects"] += 1
        jobs2, meta2 = [], []
        base = {}
        decided = set()
        for (d, mode, t, k, _), res in zip(jobs1, res1):
            if res is None:
                continue
            cl, keys = res
            st["runs"] += 1
            req = cl.get("request") or {}
            if req.get("min_similarity") != 0.0 or req.get("max_similarity") != 1.0:
                ck.broken_ties.append("e2e: default similarity range of the clone request is not [0, 1]: %s %s" % (req.get("min_similarity"), req.get("max_similarity")))
            order = sorted(keys)
            pairs, groups = number(cl, order)
            c = {"kind": "explicit", "e2e": True, "verbatim": True, "n": len(order), "pairs": pairs, "t": Fraction(t), "mode": mode, "k": k,
                 "ord": collect(pairs), "dir": d, "locations": order, "config": open(os.path.join(d, ".pyscn.toml")).read()}
            cases.append(c)
            impls.append(groups)
            ok0 = py_contract(mode, k, Fraction(t), pairs, groups) is None
            P0, G0 = report_elems(cl)
            base[mode] = (P0, G0, ok0)
            if mode == "connected":
                pure = pure_components(pairs, Fraction(t))
                st["pure_component_sizes"] = sorted(len(x) for x in pure)
                comps = [x for x in components(threshold_graph(pairs, Fraction(t)), set(range(len(order)))) if len(x) >= 2]
                st["mixed_components"] += len(comps) - len(pure)
                if not {2, 3, 4} <= set(len(x) for x in pure) or len(comps) == len(pure):
                    ck.broken_ties.append("e2e: the verbatim project has no isolated all-1.0 component of each size 2, 3, 4 next to a mixed "
                                          "component at threshold %s (generator too weak): pure %s of %d components" % (t, st["pure_component_sizes"], len(comps)))
            # phase 2: the range of the report exactly at / next to observed group and pair similarities
            gs = sorted(set(G0.values()))
            ps = sorted(set(P0.values()) - set(G0.values()))
            # prefer the similarity of a group with three or more members (its pairs differ from its average) and a pair inside one
            lows3 = sorted(set(s for e, s in G0.items() if s < 1.0 and len(e) >= 3))
            lows = lows3 or [g for g in gs if g < 1.0]
            gvals = [g for g in gs if g == 1.0] + rng.sample(lows, min(len(lows), 1))
            ps3 = sorted(set(s for e, s in P0.items() if s in ps and any(len(g) >= 3 and e <= g for g in G0)))
            pvals = rng.sample(ps3 or ps, min(len(ps3 or ps), 1))
            if not modes_full and mode != "connected" and gvals[1:] and pvals:
                # quick tier: connected (the exact clause) gets both, the other modes 1.0 and a seeded one of the two
                if rng.random() < 0.5:
                    gvals = gvals[:1]
                else:
                    pvals = []
            if modes_full:
                more = [g for g in gs if g < 1.0 and g not in gvals]
                gvals += rng.sample(more, min(len(more), 2))
                more = [x for x in ps if x not in pvals]
                pvals += rng.sample(more, min(len(more), 2))
            st["bound_on_group_similarity"] += len(gvals)
            st["bound_on_pair_similarity"] += len(pvals)
            for (lo, hi) in range_lattice(gvals + pvals):
                dd = clone_dir("m%d_r%d" % (MN[mode], len(jobs2)))
                jobs2.append((dd, mode, t, k, VERB_CFG + "min_similarity = %r\nmax_similarity = %r\n" % (lo, hi)))
                meta2.append((lo, hi))
        with ThreadPoolExecutor(12) as ex:
            res2 = list(ex.map(one, jobs2))
        for (d, mode, t, k, _), (lo, hi), res in zip(jobs2, meta2, res2):
            if res is None:
                continue
            cl, keys = res
            st["runs"] += 1
            st["range_runs"] += 1
            cfg = open(os.path.join(d, ".pyscn.toml")).read()
            req = cl.get("request") or {}
            if req.get("min_similarity") != lo or req.get("max_similarity") != hi:
                ck.broken_ties.append("e2e: min_similarity = %r / max_similarity = %r of .pyscn.toml reached the clone request as %r / %r"
                                      % (lo, hi, req.get("min_similarity"), req.get("max_similarity")))
                continue
            P0, G0, ok0 = base[mode]
            P, G = report_elems(cl)
            order = sorted(set(x for e in list(P0) + list(G0) + list(P) + list(G) for x in e))
            num = {kk: i for i, kk in enumerate(order)}
            show = lambda e: sorted(num[x] for x in e)
            replay = {"kind": "e2e-range", "dir": d, "config": cfg, "mode": mode, "threshold": t, "k": k, "min_similarity": lo, "max_similarity": hi,
                      "locations": order, "how": "cd <dir> && pyscn analyze --json --no-open --select clones .   (compare with the same "
                      "configuration without min_similarity / max_similarity)",
                      "pairs_without_range": [show(e) + [s] for e, s in P0.items()], "groups_without_range": [[show(e), s] for e, s in G0.items()],
                      "reported_pairs": [show(e) + [s] for e, s in P.items()], "reported_groups": [[show(e), s] for e, s in G.items()]}
            # the range is inclusive on both sides for pairs and for groups alike: an element of the unfiltered report with
            # similarity s is reported iff min_similarity <= s <= max_similarity
            wantP = {e: s for e, s in P0.items() if in_range(s, lo, hi)}
            wantG = {e: s for e, s in G0.items() if in_range(s, lo, hi)}
            st["groups_dropped_by_range"] += len(G0) - len(wantG)
            st["pairs_dropped_by_range"] += len(P0) - len(wantP)
            filt_ok = True
            for what, want, got, full in (("clone pair", wantP, P, P0), ("clone group", wantG, G, G0)):
                if want != got:
                    filt_ok = False
                    st["range_filter_violations"] += 1
                    if st["range_filter_violations"] > 4:
                        continue
                    miss = [show(e) + [s] for e, s in want.items() if e not in got]
                    more = [show(e) + [s] for e, s in got.items() if e not in want]
                    on_bound = [x for x in miss if x[-1] in (lo, hi)]
                    ck.violation("pyscn analyze, mode %s threshold %s, min_similarity = %r max_similarity = %r: the reported %ss are not the %ss of the "
                                 "run without a range whose similarity s satisfies min_similarity <= s <= max_similarity%s: missing %s, unexpected %s"
                                 % (mode, t, lo, hi, what, what, " (a %s exactly on a bound is dropped; the other list keeps elements on the same bound)" % what
                                    if on_bound else "", miss[:4], more[:4]), dict(replay, missing=miss, unexpected=more), independent=True)
            # the contract of the mode on the REPORTED pairs
            pairs = [(num[ab[0]], num[ab[-1]], Fraction(s)) for ab, s in ((sorted(e), s) for e, s in P.items())]
            groups = [show(e) for e in G]
            why = py_contract(mode, k, Fraction(t), pairs, groups)
            st["contract_decided"] += 1
            if why is None:
                sig = (mode, frozenset(P.items()), frozenset(G))
                if pairs and sig not in decided:         # many ranges give the same report: the proved checker sees each once
                    decided.add(sig)
                    cases.append({"kind": "explicit", "e2e": True, "verbatim": True, "range": (lo, hi), "n": len(order), "pairs": pairs, "t": Fraction(t),
                                  "mode": mode, "k": k, "ord": collect(pairs), "dir": d, "locations": order, "config": cfg})
                    impls.append(groups)
                continue
            if not filt_ok or not ok0:
                # reported above with the precise reason, resp. the run without a range already breaks the contract (it is among the
                # returned cases and reported from there): what the range makes of such a report is not a separate failing input
                continue
            tags = {"source": "cli", "report_filter": "similarity_range", "range_is_default": (lo, hi) == (0.0, 1.0),
                    "inclusive_range_filter_of_a_report_that_meets_the_contract": bool(ok0)}
            e = ck.match_known(tags)
            if e:
                st["known_range_filter_cases"] += 1
                ck.known_finding(e)
            else:
                ck.violation("pyscn analyze, mode %s threshold %s, min_similarity = %r max_similarity = %r: %s" % (mode, t, lo, hi, why),
                             dict(replay, tags=tags), independent=True)
    return cases, impls, st


def e2e(ck, rng, runs):
    """CLI: clone.clone_groups[] against clone.clone_pairs[] of the same JSON report, per grouping mode.
    Returns explicit cases (graph = reported pairs, all clone types enabled) and the reported groups."""
    cases, impls = [], []
    for r in range(runs):
        d = lib.fresh_dir("c10_e2e_%d" % r)
        write_project(d, rng, rng.randint(3, 5))
        for mode in MODES:
            thr = rng.choice([0.7, 0.75, 0.8, 0.85, 0.9])
            k = rng.choice([2, 2, 3])
            res = cli_run(ck, d, mode, thr, k, True)
            if res is None:
                continue
            cl, keys = res
            req = (cl.get("request") or {})
            if req and (req.get("group_mode") != mode or req.get("group_threshold") != thr or (mode == "k_core" and req.get("k_core_k") != k)):
                ck.violation("pyscn analyze: [clones] grouping_mode=%s grouping_threshold=%s k_core_k=%d selected in .pyscn.toml, but the run used "
                             "mode=%s threshold=%s k=%s" % (mode, thr, k, req.get("group_mode"), req.get("group_threshold"), req.get("k_core_k")),
                             {"kind": "e2e-config", "dir": d, "config": open(os.path.join(d, ".pyscn.toml")).read(),
                              "request": {x: req.get(x) for x in ("group_mode", "group_threshold", "k_core_k")}})
                continue
            order = sorted(keys)
            pairs, groups = number(cl, order)
            cases.append({"kind": "explicit", "e2e": True, "n": len(order), "pairs": pairs, "t": Fraction(thr), "mode": mode, "k": k,
                          "ord": collect(pairs), "dir": d, "locations": order})
            impls.append(groups)
            # the same project through the LSH pipeline (DetectClonesWithLSH with UseLSH on)
            resl = cli_run(ck, d, mode, thr, k, True, LSH_ON)
            if resl is not None:
                cll, keysl = resl
                if ((cll.get("request") or {}).get("lsh_enabled")) != "true":
                    ck.broken_ties.append("e2e: lsh_enabled = \"true\" of .pyscn.toml did not reach the clone request: %s" % (cll.get("request") or {}).get("lsh_enabled"))
                orderl = sorted(keysl)
                pairsl, groupsl = number(cll, orderl)
                cases.append({"kind": "explicit", "e2e": True, "lsh": True, "n": len(orderl), "pairs": pairsl, "t": Fraction(thr), "mode": mode, "k": k,
                              "ord": collect(pairsl), "dir": d, "locations": orderl, "config": open(os.path.join(d, ".pyscn.toml")).read()})
                impls.append(groupsl)
            # the same run with the default clone-type filter of the report (type 3 pairs hidden)
            if mode in ("connected", "star") and r == 0:
                res2 = cli_run(ck, d, mode, thr, k, False)
                if res2 is None:
                    continue
                cl2, keys2 = res2
                order2 = sorted(keys | keys2)
                pairs2, groups2 = number(cl2, order2)
                pairs_full, groups_full = number(cl, order2)
                why = py_contract(mode, k, Fraction(thr), pairs2, groups2)
                if why:
                    hidden = sorted(set((min(a, b), max(a, b)) for a, b, _ in pairs_full) - set((min(a, b), max(a, b)) for a, b, _ in pairs2))
                    explained = (sorted(groups2) == sorted(groups_full) and py_contract(mode, k, Fraction(thr), pairs_full, groups_full) is None
                                 and bool(hidden))
                    tags = {"source": "cli", "report_filter": "default_clone_types", "groups_explained_by_hidden_pairs": explained}
                    e = ck.match_known(tags)
                    if e:
                        ck.known_finding(e)
                    else:
                        ck.violation("pyscn analyze (default clone types), mode %s threshold %s: %s" % (mode, thr, why),
                                     {"kind": "e2e-filter", "dir": d, "tags": tags, "reported_pairs": [[a, b, str(s)] for a, b, s in pairs2],
                                      "groups": groups2, "hidden_pairs": hidden, "locations": order2})
    return cases, impls


# --------------------------------------------------------------------------------------
# detector level: the groups a detector call returns against the pairs the SAME call reports,
# for every detection path x grouping mode x pair cap (MaxClonePairs)
# --------------------------------------------------------------------------------------
DET_A = '''def {name}(values, bound):
    acc = 0
    for v in values:
        acc += v * {c2}
{extra}    return acc + {c3}
'''
DET_A_EXTRA = ["", "", "    acc = abs(acc)\n", "    bound += 1\n", "    values = list(values)\n", "    acc -= bound\n", "    acc -= bound\n    bound = 0\n"]
DET_B = '''def {name}(request, context):
    field_a = request.get("a", context)
    field_b = request.get("b", {c2})
{extra}    return build(field_a, field_b, {c3})
'''
DET_B_EXTRA = ["", "", "    field_c = request.get(\"c\", context)\n", "    context = dict(context)\n", "    field_b = field_b or field_a\n",
               "    context = None\n", "    del context\n    field_a += 1\n"]
DET_C = '''def {name}(values, bound):
    acc = 0
    for v in values:
        if v > bound:
            acc += v * {c1}
        else:
            acc -= {c2}
{extra}    return acc + {c3}
'''
DET_C_EXTRA = ["", "", "    acc = abs(acc)\n", "    bound += 1\n", "    if acc < 0:\n        acc = 0\n", "    values = list(values)\n",
               "    acc = abs(acc)\n    bound += 1\n"]
DET_Z = '''def {name}(path, sep):
    out = []
    with open(path) as fh:
        out.append(fh.read().split(sep))
{extra}    return out
'''
DET_Z_EXTRA = ["", "    out.sort()\n", "    while out and not out[-1]:\n        out.pop()\n", "    sep = sep.strip()\n    print(sep)\n",
               "    out.reverse()\n    out.append(sep)\n"]
# template, variations, MinLines choices (the largest keeps whole functions only; DET_C with 4 adds its nested for blocks:
# overlapping fragments are never paired)
DET_TEMPLATES = [(DET_A, DET_A_EXTRA, [4]), (DET_B, DET_B_EXTRA, [3]), (DET_C, DET_C_EXTRA, [6, 4])]
DET_PATHS = {   # detection path -> (hook path, configuration that selects it)
    "standard": ("detect", {"BatchSizeThreshold": 100000}),                     # double loop unless the cap forces one whole batch
    "batched": ("detect", {"BatchSizeThreshold": 3, "BatchSizeLarge": 5}),      # batches of 5 fragments
    "lsh": ("lsh", {"LSHSimilarityThreshold": 0.3}),                            # DetectClonesWithLSH
}


def det_family(rng, n_members, n_other, big):
    """Sources with one large family of near-identical small functions (n members -> up to n(n-1)/2 mutually similar
    pairs with a handful of distinct similarity values) and a small unrelated family whose pairs are weaker."""
    tmpl, extras, min_lines = DET_TEMPLATES[2] if big else rng.choice(DET_TEMPLATES[:2])
    nfiles = rng.choice([1, 2, 3])
    names = rng.sample(["pkg/a.py", "pkg/b.py", "lib.py", "pkg/sub/c.py", "z.py"], nfiles)
    texts = {nm: [] for nm in names}
    for i in range(n_members):
        texts[rng.choice(names)].append(tmpl.format(name="fam%d" % i, c1=rng.randint(1, 3), c2=rng.randint(1, 3), c3=rng.randint(1, 2),
                                                    extra=rng.choice(extras)))
    zex = rng.sample(DET_Z_EXTRA, n_other)
    for i in range(n_other):
        texts[rng.choice(names)].append(DET_Z.format(name="other%d" % i, extra=zex[i]))
    files = []
    for nm in names:
        parts = texts[nm]
        rng.shuffle(parts)
        if parts:
            files.append({"path": nm, "text": "\n\n".join(parts)})
    rng.shuffle(files)          # the fragment list order is not the location order
    # small functions: one changed statement moves the similarity a lot, so pairs are reported from 0.45 upwards
    cfg = {"MinLines": rng.choice(min_lines), "MinNodes": 3, "Type4Threshold": 0.45, "Type3Threshold": 0.6, "SimilarityThreshold": 0.45}
    return files, cfg


def det_thresholds(rng, sims):
    """Grouping thresholds on the boundary lattice of the observed similarities: exactly an observed value
    (pairs with that value count), the next float above it (they do not), the lowest value, the default."""
    import math
    s = sorted(set(sims))
    mid = s[len(s) // 2]
    lo = s[0]
    cands = [lo, mid, math.nextafter(mid, 2.0), s[max(0, len(s) // 2 - 1)], 0.8, math.nextafter(lo, 2.0)]
    return [c for c in cands if 0.0 < c <= 1.0]


def det_number(frags):
    """fragment index of the hook -> rank in the location order (fragmentLess)."""
    order = sorted(range(len(frags)), key=lambda i: (frags[i][0], frags[i][1], frags[i][2], frags[i][3], frags[i][4]))
    num = {fi: r for r, fi in enumerate(order)}
    return num, [frags[i] for i in order]


def detector_cases(ck, rng, thorough):
    """Returns (cases, impl groups, stats). Every case is one real detector call: its reported pairs are the graph,
    its returned groups are decided against the contract on exactly those pairs."""
    cases, impls = [], []
    stats = {"families": 0, "runs": 0, "truncated_runs": 0, "truncation_sensitive": {p: 0 for p in DET_PATHS}, "by_path": {p: 0 for p in DET_PATHS},
             "fragments": [], "uncapped_pairs": []}
    sizes = [rng.randint(12, 16)]
    if thorough:
        sizes += [rng.randint(12, 40) for _ in range(5)] + [40]
    fams = []
    for fi, n_members in enumerate(sizes):
        # quick: small functions (the pair detection itself is not the subject here); thorough adds larger ones with nested fragments
        fams.append(det_family(rng, n_members, rng.choice([2, 3]), big=thorough and fi % 2 == 1 and n_members <= 24))
    # phase 1: every path without a cap, to learn how many pairs it reports and which similarities occur
    res1 = lib.driver([{"op": "clone_groups", "files": files, "cfg": cfg,
                        "runs": [{"path": DET_PATHS[p][0], "cfg": dict(DET_PATHS[p][1], MaxClonePairs=10000)} for p in DET_PATHS]}
                       for files, cfg in fams])
    reqs, meta = [], []
    for (files, cfg), r1 in zip(fams, res1):
        if "error" in r1 or r1.get("parse_errors"):
            ck.broken_ties.append("detector hook clone_groups failed: %s" % str(r1)[:400])
            continue
        stats["families"] += 1
        stats["fragments"].append(len(r1["frags"]))
        runs = []
        for p, ru in zip(DET_PATHS, r1["runs"]):
            total = len(ru["pairs"])
            stats["uncapped_pairs"].append(total)
            if total < 3:
                ck.broken_ties.append("detector family gave only %d pairs on path %s (generator too weak)" % (total, p))
                continue
            thrs = det_thresholds(rng, [x[2] for x in ru["pairs"]])
            # the boundary values of the cap: none (the CLI's 10000, or exactly the number of pairs), one less, well below, one
            caps = [rng.choice([10000, total]), total - 1, rng.randint(2, max(2, total // 3)), 1]
            if thorough:
                caps = [10000, total, total - 1, total - 2, rng.randint(2, max(2, total // 3)), rng.randint(2, max(2, total - 3)), 2, 1]
            settings = [(mode, rng.choice(thrs), rng.choice([2, 3, 2, 3, 1]) if mode == "k_core" else 2) for mode in MODES]
            for cap in caps:
                for mode, thr, k in settings:
                    runs.append((p, mode, thr, k, cap, total))
        reqs.append({"op": "clone_groups", "files": files, "cfg": cfg,
                     "runs": [{"path": DET_PATHS[p][0], "cfg": dict(DET_PATHS[p][1], MaxClonePairs=cap, GroupingMode=mode,
                                                                      GroupingThreshold=thr, KCoreK=k)} for p, mode, thr, k, cap, total in runs]})
        meta.append(runs)
    res2 = lib.driver(reqs) if reqs else []
    for req, runs, r2 in zip(reqs, meta, res2):
        if "error" in r2:
            ck.broken_ties.append("detector hook clone_groups failed: %s" % str(r2)[:400])
            continue
        num, locations = det_number(r2["frags"])
        uncapped = {}
        for run_req, (p, mode, thr, k, cap, total), ru in zip(req["runs"], runs, r2["runs"]):
            stats["runs"] += 1
            stats["by_path"][p] += 1
            one = {"op": "clone_groups", "files": req["files"], "cfg": req["cfg"], "runs": [run_req]}
            pairs = [(num.get(a, -1), num.get(b, -1), Fraction(s)) for a, b, s, _ in ru["pairs"]]
            groups = [[num.get(m, -1) for m in g["members"]] for g in ru["groups"]]
            c = {"kind": "explicit", "det": True, "n": len(locations), "pairs": pairs, "t": Fraction(thr), "mode": mode, "k": k,
                 "ord": collect(pairs), "path": p, "cap": cap, "uncapped_pairs": total, "request": one, "locations": locations}
            if any(x < 0 for g in groups for x in g) or any(a < 0 or b < 0 for a, b, _ in pairs):
                ck.violation("detector path %s, mode %s: a returned pair or group refers to a fragment that was not passed in" % (p, mode),
                             replay_of(c, {"impl": ru}))
                continue
            if any(g["size"] != len(g["members"]) for g in ru["groups"]):
                ck.violation("detector path %s, mode %s: clone group Size differs from its number of fragments" % (p, mode), replay_of(c, {"impl": ru}))
            if cap >= total:
                uncapped[(p, mode)] = groups
                if len(pairs) != total:
                    ck.broken_ties.append("detector path %s reported %d pairs with cap %d but %d without a cap" % (p, len(pairs), cap, total))
            else:
                stats["truncated_runs"] += 1
                # does the cap matter for this input: would the groups of the uncapped run break the contract on the capped pair list?
                if (p, mode) in uncapped and py_contract(mode, k, Fraction(thr), pairs, uncapped[(p, mode)]) is not None:
                    stats["truncation_sensitive"][p] += 1
            cases.append(c)
            impls.append([sorted(g) for g in groups])
    return cases, impls, stats


def near_ties(pairs):
    """Two different similarities closer than the implementation's almostEqual tolerance (the model compares exactly)."""
    s = sorted(set(float(x[2]) for x in pairs))
    return any(b - a <= 1e-9 for a, b in zip(s, s[1:]))


# --------------------------------------------------------------------------------------
def main(tier):
    ck = lib.Check("C10", tier)
    ck.prepare("C10.v")
    import time
    tp = time.time()
    lib.log("C10: prepare %.1fs" % (tp - ck.t0))
    rng = ck.rng
    thorough = tier == "thorough"
    T0 = Fraction(3, 4)

    cases = []
    # 1. exhaustive small scope: every weighted graph on the lattice, every mode, k in {2,3}
    #    scope = (base, t, eps, n, first code, stride, number of codes); the cases of a scope are
    #    enumerated in the same order by GroupRun.lattice_results
    T1 = Fraction(1, 2)
    scopes = [(5, T0, EPS, 3, 0, 1, 5 ** 3), (5, T0, EPS, 4, 0, 1, 5 ** 6)]
    if thorough:
        r5 = rng.randrange(16)
        scopes += [(4, T1, EPS, 4, 0, 1, 4 ** 6), (4, T0, EPS, 5, r5, 16, (4 ** 10 - r5 + 15) // 16)]
    else:
        st = 4
        r0 = rng.randrange(st)
        scopes += [(4, T1, EPS, 4, r0, st, (4 ** 6 - r0 + st - 1) // st)]
        st5 = 4 ** 10 // 1500
        r5 = rng.randrange(st5)
        scopes += [(4, T0, EPS, 5, r5, st5, (4 ** 10 - r5 + st5 - 1) // st5)]
    scope_base = []
    for base, t, eps, n, start, stride, count in scopes:
        scope_base.append(len(cases))
        for i in range(count):
            code = start + stride * i
            for mode, k in VARIANTS5:
                cases.append({"kind": "lattice", "base": base, "t": t, "eps": eps, "n": n, "code": code,
                              "variant": lattice_variant(code, mode, k), "mode": mode, "k": k})
    n_lattice = len(cases)
    n_lattice2 = 0

    # 2. structured shapes
    n_struct = 0
    for t in (T0, Fraction(13, 16)):
        for n, pairs, k in structured_graphs(rng, t):
            locs = make_locs(rng, n)
            for mode in MODES:
                for kk in ((k,) if mode != "k_core" else (k, 5 - k)):
                    ordv = collect(pairs)
                    rng.shuffle(ordv)
                    cases.append({"kind": "explicit", "n": n, "pairs": pairs, "t": t, "mode": mode, "k": kk, "ord": ordv, "locs": locs})
                    n_struct += 1

    # 3. random graphs up to 40 fragments
    n_rand = 0
    for _ in range(700 if thorough else 110):
        r = rng.random()
        n = rng.randint(2, 9) if r < 0.5 else rng.randint(10, 20) if r < 0.85 else rng.randint(21, 40)
        t = rng.choice([T0, Fraction(1, 2), Fraction(13, 16), Fraction(7, 8), Fraction(45, 64)])
        dens = rng.choice([0.15, 0.3, 0.5, 0.8]) if n <= 20 else rng.choice([0.08, 0.15, 0.25])
        pairs = rand_graph(rng, n, t, dens)
        if not pairs:
            continue
        locs = make_locs(rng, n)
        for mode in MODES:
            k = rng.choice([2, 3, 2, 3, 0, 1, 4]) if mode == "k_core" else 2
            ordv = collect(pairs)
            rng.shuffle(ordv)
            cases.append({"kind": "explicit", "n": n, "pairs": pairs, "t": t, "mode": mode, "k": k, "ord": ordv, "locs": locs})
            n_rand += 1

    # ---------------- implementation --------------------------------------------------
    impl_groups = [None] * len(cases)
    unstable = crashed = 0
    if ck.go_ok:
        res = []
        for off in range(0, len(cases), 50000):      # bounded memory in the thorough tier
            res += lib.driver([request_of(c, 1 if c["kind"] == "lattice" and c["n"] < 4 else 3) for c in cases[off:off + 50000]])
        for idx, (c, r) in enumerate(zip(cases, res)):
            if "error" in r:
                crashed += 1
                if crashed <= 3:
                    ck.violation("GroupClones (%s) failed: %s" % (c["mode"], r["error"]), replay_of(c, {"impl": r}))
                continue
            impl_groups[idx] = [sorted(g) for g in r["groups"]]
            if any(sz != len(g) for sz, g in zip(r["sizes"], r["groups"])):
                ck.violation("clone group Size differs from its number of fragments (%s)" % c["mode"], replay_of(c, {"impl": r}))
            if not r.get("stable", True):
                unstable += 1
                if unstable <= 3:
                    ck.broken_ties.append("partition differs between runs on the same input (map order?): mode %s pairs %s"
                                          % (c["mode"], replay_of(c)["pairs"]))

    lib.log("C10: generated + driver %.1fs" % (time.time() - tp)); tp = time.time()
    # command line
    e2e_cases, e2e_impl = ([], [])
    if ck.go_ok:
        e2e_cases, e2e_impl = e2e(ck, rng, 6 if thorough else 1)
    verb_stats = {}
    verb_time = time.time()
    if ck.go_ok:
        vcases, vimpl, verb_stats = e2e_verbatim(ck, rng, 3 if thorough else 1, thorough)
        e2e_cases += vcases
        e2e_impl += vimpl
    verb_time = time.time() - verb_time
    base_e2e = len(cases)
    cases += e2e_cases
    impl_groups += e2e_impl
    lsh_capped = {}
    if ck.go_ok:
        lsh_capped = e2e_lsh_capped(ck, rng, MODES if thorough else [rng.choice(MODES)])

    lib.log("C10: e2e %.1fs (verbatim/range stage %.1fs)" % (time.time() - tp, verb_time)); tp = time.time()
    # detector level: returned groups against the pairs reported by the same call
    det_stats = {}
    if ck.go_ok:
        det_cases, det_impl, det_stats = detector_cases(ck, rng, thorough)
        cases += det_cases
        impl_groups += det_impl
        if det_stats["truncated_runs"] and not all(det_stats["truncation_sensitive"].values()):
            ck.broken_ties.append("detector section: a detection path without any capped run in which the cap matters for the groups (generator too weak): %s" % det_stats)
    lib.log("C10: detector %.1fs" % (time.time() - tp)); tp = time.time()
    # ---------------- property conditions on the implementation's groups (Python) -------
    py_bad = {}
    nontrivial = 0
    kcore_inexact = 0
    for idx, c in enumerate(cases):
        g = impl_groups[idx]
        if g is None:
            continue
        if g:
            nontrivial += 1
        why = py_contract(c["mode"], c["k"], c["t"], case_pairs(c), g)
        if why:
            py_bad[idx] = why
        elif c.get("range"):
            pass        # a report with a similarity range: only the property's clauses are decided (the range may drop a whole k-core group)
        elif c["mode"] == "k_core" and {frozenset(x) for x in g} != py_kcore_components(c["k"], c["t"], case_pairs(c)):
            kcore_inexact += 1
            if kcore_inexact <= 3:
                # the property text only demands the minimum-degree clause; exactness is part of the tie to the model
                ck.broken_ties.append("k-core groups satisfy the minimum-degree clause but are not the components of the k-core: mode k_core t %s k %d pairs %s impl %s expected %s"
                                      % (c["t"], c["k"], replay_of(c)["pairs"], g, sorted(map(sorted, py_kcore_components(c["k"], c["t"], case_pairs(c))))))

    lib.log("C10: python contract %.1fs" % (time.time() - tp)); tp = time.time()
    # ---------------- model + proved checker (Coq) ------------------------------------
    coq_bad = None
    lattice_agree = 0
    needed = ("Gen/GroupConst", "Clone/GroupSpec.v", "Clone/GroupCommon.v", "Clone/GroupConnected.v", "Clone/GroupComplete.v",
              "Clone/GroupKCore.v", "Clone/GroupStar.v", "Clone/GroupLattice.v", "Clone/GroupRun.v", "Clone/GroupNorm.v")
    model_files_ok = not any(any(n in f for n in needed) for f in getattr(ck, "failed_files", []))
    if model_files_ok and any(g is not None for g in impl_groups):
        try:
            ljobs, layout = lattice_jobs(scopes)
            explicit = [(idx, c, impl_groups[idx]) for idx, c in enumerate(cases)
                        if c["kind"] != "lattice" and impl_groups[idx] is not None]
            outs = lib.coq_eval_many(ljobs + explicit_jobs(explicit), workers=14)
            # lattice: one number per case
            redo = []
            for (si, off, cnt), out in zip(layout, outs[:len(ljobs)]):
                vals = lib.parse_coq_values(out)[0]
                if len(vals) != cnt * len(VARIANTS5):
                    raise RuntimeError("lattice shard returned %d results for %d cases" % (len(vals), cnt * len(VARIANTS5)))
                b = scope_base[si] + off * len(VARIANTS5)
                for kk, r in enumerate(vals):
                    idx = b + kk
                    g = impl_groups[idx]
                    if g is None:
                        continue
                    e = enc_groups(cases[idx]["n"], g)
                    if r != 0 and (r >> 1) & 1 == 1 and e is not None and (r >> 2) == e and idx not in py_bad:
                        lattice_agree += 1          # impl = model (canonical form), contract true in Coq and Python
                    else:
                        redo.append((idx, cases[idx], g))
            coq_bad = parse_verdicts(outs[len(ljobs):])
            if redo:
                coq_bad.update(parse_verdicts(lib.coq_eval_many(explicit_jobs(redo[:400]), workers=14)))
                for idx, c, g in redo:
                    if idx not in coq_bad:
                        coq_bad[idx] = ("?", idx not in py_bad, True, False)
        except Exception as e:
            ck.broken_ties.append("model evaluation failed: %s" % str(e)[-1200:])
    elif not model_files_ok:
        ck.broken_ties.append("Coq model files failed to build: %s" % getattr(ck, "failed_files", []))

    lib.log("C10: coq evaluation %.1fs" % (time.time() - tp)); tp = time.time()
    # ---------------- decide per input -------------------------------------------------
    n_viol = n_tie = 0
    for idx, c in enumerate(cases):
        if impl_groups[idx] is None:
            continue
        why = py_bad.get(idx)
        cv = coq_bad.get(idx) if coq_bad is not None else None
        coq_says_bad = cv is not None and cv[1] is False
        if why or coq_says_bad:
            if coq_bad is not None and bool(why) != coq_says_bad:
                ck.broken_ties.append("contract checkers disagree (python: %s, coq check_contract: %s) on mode %s pairs %s groups %s"
                                      % (why, not coq_says_bad, c["mode"], replay_of(c)["pairs"], impl_groups[idx]))
                if not why:
                    continue
            n_viol += 1
            if n_viol <= 5:
                where = "pyscn analyze, clone.clone_groups[]" if c.get("e2e") else "GroupClones"
                if c.get("det"):
                    where = ("detector path %s with MaxClonePairs = %d (%d pairs without a cap, %d reported): returned groups against the "
                             "reported pairs," % (c["path"], c["cap"], c["uncapped_pairs"], len(c["pairs"])))
                tshow = c["t"] if c["t"].denominator <= 64 else "%r" % float(c["t"])
                ck.violation("%s mode %s (threshold %s, k %d): %s" % (where, c["mode"], tshow, c["k"], why or "check_contract = false"),
                             replay_of(c, {"impl_groups": impl_groups[idx], "model": str(cv[0]) if cv else None,
                                           "dir": c.get("dir"), "config": c.get("config"), "locations": c.get("locations")}))
            continue
        if cv is None:
            continue
        mg, ci, cm, same = cv
        n_tie += 1
        if n_tie > 5:
            continue
        if mg is None:
            ck.broken_ties.append("model ran out of fuel on mode %s pairs %s" % (c["mode"], replay_of(c)["pairs"]))
        elif not cm:
            ck.broken_ties.append("model output violates the contract (proof tie broken): mode %s pairs %s model %s"
                                  % (c["mode"], replay_of(c)["pairs"], mg))
        elif not same and c.get("det") and near_ties(c["pairs"]):
            n_tie -= 1          # similarities closer than almostEqual's tolerance: the exact model may legitimately differ
        elif not same and not c.get("e2e"):
            ck.broken_ties.append("implementation differs from the code model (contract holds for both): mode %s t %s k %d pairs %s impl %s model %s"
                                  % (c["mode"], c["t"], c["k"], replay_of(c)["pairs"], impl_groups[idx], mg))
        elif not same and c.get("e2e"):
            # the CLI's pair list order is not the order GroupClones saw; complete linkage and star may legitimately differ
            n_tie -= 1

    ck.samples = [replay_of(cases[0], {"impl_groups": impl_groups[0]}),
                  replay_of(cases[n_lattice - 7], {"impl_groups": impl_groups[n_lattice - 7]}),
                  replay_of(cases[n_lattice + 3], {"impl_groups": impl_groups[n_lattice + 3]})]
    if e2e_cases:
        ck.samples.append({"e2e": True, "mode": e2e_cases[0]["mode"], "threshold": str(e2e_cases[0]["t"]),
                           "pairs": len(e2e_cases[0]["pairs"]), "groups": e2e_impl[0]})
    by_mode = {m: sum(1 for c in cases if c["mode"] == m) for m in MODES}
    ck.cov.update({
        "evaluations": len(cases),
        "distinct_nontrivial": nontrivial,
        "rule": "exhaustive: every weighted graph on 3 and 4 fragments with weights in {absent, t-1/64, t, t+1/64, 1} (t=3/4); on 4 fragments "
                "with {absent, t-1/64, t, t+1/64} (t=1/2) and on 5 fragments with the same 4-point lattice (t=3/4): " +
                ("all resp. every 16th code" if thorough else "a seeded 1/4 resp. 1/700 arithmetic progression of the codes") +
                " x {connected, complete_linkage, k_core k=2, k_core k=3, star}; structured shapes (degree exactly k, all similarities = t, "
                "bridges, chains, hubs); random graphs on 2..40 fragments with duplicate pairs; CLI runs per grouping_mode, each also with "
                "lsh_enabled = \"true\", and " + ("one run per mode" if thorough else "one run (seeded mode)") + " of a 146..150-function project through "
                "the LSH pipeline that has more clone pairs than the detector's cap of 10000 (groups against the pairs of the same report; Python "
                "statement of the contract only). VERBATIM COPIES AND REPORT RANGE (CLI): " + ("3 projects" if thorough else "1 project") + " with three isolated families of "
                "2, 3 and 4 verbatim copies (three unrelated texts out of 6, the copies spread over 3..5 files; every pair inside such a component is "
                "exactly 1.0 and nothing else is linked to it at the threshold; the check fails if one of the sizes or a mixed component is missing) "
                "next to near copies that form mixed components, under every grouping_mode with the default range [0, 1] (full contract against the "
                "reported pairs, Python + proved checker; connected = exactly the components of the reported pair graph), then for every mode "
                "min_similarity resp. max_similarity exactly at / 2^-40 below / 2^-40 above 1.0, an observed group similarity < 1 (of a group with >= 3 "
                "members if there is one) and an observed pair similarity" + (" (up to 3 each)" if thorough else " (quick: connected mode all three values, the other modes 1.0 and a seeded one of the other two)") + ": (a) the reported pairs "
                "and the reported groups are exactly the pairs / groups of the default-range run of the same mode whose similarity s satisfies "
                "min <= s <= max (both bounds inclusive, the same for pairs and groups), (b) the contract of the mode on the REPORTED pairs; a failure "
                "of (b) where (a) holds and the default-range run meets the contract is the recorded finding C10-F29 (range filter after grouping), "
                "anything else a violation. DETECTOR LEVEL (hook op clone_groups: real fragment extraction, DetectClones / DetectClonesWithLSH, "
                "pairs and groups of the SAME call): families of 12..16 (thorough: up to 40) near-identical small functions plus 2..3 weaker "
                "unrelated ones, for each detection path {standard double loop, batches of 5, LSH} x {connected, complete_linkage, k_core, star} x "
                "MaxClonePairs in {no cap or exactly the number of pairs, pairs-1, a seeded value <= pairs/3, 1}" +
                (" (thorough: also pairs-2, 2, a second seeded value)" if thorough else "") + ", grouping threshold on the lattice of the observed "
                "similarities (an observed value, the next float above it, the lowest value, 0.8): full contract against the REPORTED pairs "
                "(Python + proved checker via verdict_norm = verdict) and groups = code model on the reported pair list, for every cap; "
                "truncation_sensitive counts the capped runs in which the groups of the uncapped run would break the contract on the capped "
                "pair list (the check fails if a path has none). "
                "distinct_nontrivial = cases where the implementation returned at least one group",
        "input_distribution": dict(lattice=n_lattice, lattice_scopes=[[b, str(t), n, start, stride, cnt] for b, t, e, n, start, stride, cnt in scopes], lattice_impl_equals_model=lattice_agree, structured=n_struct, random=n_rand,
                                   e2e_cli=len(e2e_cases), e2e_cli_lsh=sum(1 for c in e2e_cases if c.get("lsh")), e2e_cli_lsh_capped=lsh_capped, e2e_cli_verbatim_and_range=verb_stats,
                                   detector=det_stats, by_mode=by_mode),
        "contract_violations": n_viol,
        "model_mismatches": n_tie,
        "unstable_partitions": unstable,
        "disagreements_checked": n_viol + n_tie + unstable + kcore_inexact,
    })
    ck.trusted += ["Coq 8.16.1 kernel, vm_compute for model and checker evaluation",
                   "translator /verif/translator/gen_clone.go (star iteration limits, k floor; digests of the modelled functions)",
                   "similarities/thresholds are dyadic (k/64), so float64 >= and Q <= agree exactly; CLI values converted exactly (Fraction(float))",
                   "hand-written models Clone/Group{Connected,Complete,KCore,Star}.v of internal/analyzer/*_grouping.go (union-find as quick-find, "
                   "almostEqual as exact equality, one list for all map iteration orders); group ids/order/Similarity/CloneType not modelled",
                   "harness/c10.py: generators, Python re-statement of the contract (cross-checked against the proved Coq checker on every case "
                   "except the CLI runs with 10^4 reported pairs, which only the Python statement decides)",
                   "detector and CLI cases: float64 similarities converted exactly (Fraction(float)); the model's exact equality stands for almostEqual "
                   "(1e-9): implementation = model is not required when two reported similarities differ by less than that",
                   "hook cmd/pyscn-verif/op_clone_groups.go (add-only): parses the sources, ExtractFragments, one NewCloneDetector per run, returns the "
                   "pairs and groups of that call as fragment indices"]
    ck.finish(assumptions=["0 < threshold <= 1, similarities in (0,1]", "no pair joins a fragment with itself",
                           "distinct fragments have distinct locations (fragment number = rank in the location order)"])
