"""C01 — dead-code soundness: nothing that can execute is ever reported dead."""
import os

import lib
import pygen
import cfgcommon as cc

PROFILE = dict(max_depth=3, max_len=4, n_funcs=4)


def main(tier):
    ck = lib.Check("C01", tier)
    ck.prepare("C01.v")
    rng = ck.rng
    thorough = tier == "thorough"
    n_mod = 400 if thorough else 60
    n_orc = 32 if thorough else 10
    mods = cc.gen_modules(rng, n_mod, PROFILE)
    # deeper / longer programs as a second stream
    mods += cc.gen_modules(rng, n_mod // 3, dict(max_depth=4, max_len=5, n_funcs=2))
    # small-scope exhaustion: every legal body with <= 2 (thorough: 3) statement nodes, plain and wrapped in a loop with else
    small = pygen.modules_from_bodies(pygen.enum_function_bodies(3 if thorough else 2))
    mods += small
    # frame compositions: every nesting (depth <= 2; depth 3 sampled, thorough: all) of try/finally, try/except(/else/finally),
    # loops with and without a terminating else, with, if/elif/else, match around each terminator, code after every frame
    fb2, _ = pygen.enum_frame_bodies(2)
    fb3, _ = pygen.enum_frame_bodies(3, rng, None if thorough else 300)
    n_sem = len(mods) + 12        # the semantics tie (PySem vs CPython) runs on the modules generated so far and a few frame modules
    mods += pygen.modules_from_bodies(fb2 + (fb3[len(fb2):] if thorough else fb3 + pygen.routing_frame_bodies()))
    # multi-arm statements, every terminate/fall-through pattern of the arms (if with up to 4 elif, try with up to 3 handlers, match)
    mods += pygen.modules_from_bodies(pygen.arm_chain_bodies())
    d = lib.fresh_dir("c01")
    cc.write_modules(mods, d)
    oracles = cc.gen_oracles(rng, n_orc)
    stats = dict(functions=0, runs=0, executed_markers=0, dead_ranges=0, stmts=0, dead_stmts=0, constructs={})

    rc, data, err = cc.run_pyscn(d)
    if data is None:
        ck.broken_ties.append("pyscn produced no report on generated modules (rc=%s): %s" % (rc, err[-500:]))
        ck.finish()
    cc.index_report(data, mods)
    cc.cpython_traces(mods, oracles)
    model_ok = False
    try:
        model_ok = cc.coq_analyse(mods, "C01") and cc.coq_traces(mods[:n_sem], oracles, "C01") and cc.coq_build(mods, "C01")
    except Exception as e:
        ck.broken_ties.append("model evaluation failed: " + str(e)[-1500:])

    nviol = 0
    # ---- real-Python corpus: constructs outside the statement model (except*, generators, async, patterns, suppressing context
    # managers, finally overriding control flow, decorators, class bodies ...) executed under sys.settrace ----
    try:
        import json as _json, subprocess as _sp, sys as _sys, shutil as _sh
        cdir = lib.fresh_dir("c01_corpus")
        here = os.path.dirname(os.path.abspath(__file__))
        for fn in sorted(os.listdir(os.path.join(here, "corpus"))):
            if fn.startswith("c01_") and fn.endswith(".py"):
                _sh.copy(os.path.join(here, "corpus", fn), os.path.join(cdir, fn))
        crc, cdata, cerr = cc.run_pyscn(cdir, select="deadcode")
        dead_by_file = {}
        for f in ((cdata or {}).get("dead_code") or {}).get("files") or []:
            for fnrow in f.get("functions") or []:
                for x in fnrow.get("findings") or []:
                    dead_by_file.setdefault(os.path.basename(f["file_path"]), []).append(
                        (x["location"]["start_line"], x["location"]["end_line"], x["severity"], x["reason"], fnrow["name"]))
        if cdata is None:
            ck.broken_ties.append("corpus: pyscn produced no report (rc=%s): %s" % (crc, cerr[-300:]))
        stats["corpus_files"] = 0
        stats["corpus_executed_lines"] = 0
        stats["corpus_dead_ranges"] = sum(len(v) for v in dead_by_file.values())
        if cdata is not None and not stats["corpus_dead_ranges"]:
            ck.broken_ties.append("corpus: pyscn reports no dead code at all in the corpus (really_dead has two dead statements): the stage is vacuous")
        for fn in sorted(os.listdir(cdir)):
            if not fn.endswith(".py"):
                continue
            p = _sp.run([_sys.executable, os.path.join(here, "pytrace.py"), os.path.join(cdir, fn)], capture_output=True, text=True, timeout=300)
            if p.returncode != 0:
                ck.broken_ties.append("corpus: tracing %s failed: %s" % (fn, p.stderr[-400:]))
                continue
            tr = _json.loads(p.stdout)
            stats["corpus_files"] += 1
            stats["corpus_executed_lines"] += len(tr["executed"])
            for k in tr["executed"]:
                hit = [r for r in dead_by_file.get(fn, []) if r[0] <= k <= r[1]]
                if hit and nviol < 3:
                    nviol += 1
                    src = open(os.path.join(cdir, fn)).read().splitlines()
                    ck.violation("line %d of corpus/%s (%s) executes under CPython in the call %s but lies in a range pyscn reports as dead code: %s"
                                 % (k, fn, src[k - 1].strip()[:60], tr["first_call"][str(k)], hit),
                                 {"kind": "live-flagged-dead", "file": "harness/corpus/" + fn, "executed_line": k, "call": tr["first_call"][str(k)],
                                  "dead_ranges": hit, "source_excerpt": src[max(0, k - 8):k + 3], "found_by": "real-Python corpus under sys.settrace"})
    except Exception as e:
        ck.broken_ties.append("corpus stage failed: " + str(e)[-600:])
    sem_mism = tie_mism = 0
    suspects = []   # statements pyscn calls dead and the model calls live: candidates for a CPython witness
    for m in mods:
        defs = cc.def_table(m)
        for name, lst in defs.items():
            s, path = lst[0]
            body = s[3]
            k0 = s[1]
            ranges = m["impl_dead"].get(name, [])
            stats["functions"] += 1
            stats["dead_ranges"] += len(ranges)
            for c in pygen.used_constructs(body):
                stats["constructs"][c] = stats["constructs"].get(c, 0) + 1
            nomark, elif_ids = cc.unobservable_ids(body)
            runs = m["py_traces"].get(k0)
            if runs is None:
                # CPython drops statically dead code (e.g. a def after return) at compile time: nothing to execute
                stats["not_compiled_by_cpython"] = stats.get("not_compiled_by_cpython", 0) + 1
                continue
            # (1) the property itself: implementation vs CPython
            for oi, (trace, outc) in enumerate(runs):
                stats["runs"] += 1
                stats["executed_markers"] += len(trace)
                bad = [k for k in trace if cc.covered(k, ranges)]
                if bad and nviol < 3:
                    nviol += 1
                    ck.violation("statement at line %d of %s executes under CPython (oracle %s) but lies in a range pyscn reports as dead code: %s"
                                 % (bad[0], name, oracles[oi], [r for r in ranges if r[0] <= bad[0] <= r[1]]),
                                 {"kind": "live-flagged-dead", "file": m["path"], "source": m["lines"], "function": name,
                                  "oracle": oracles[oi], "executed_line": bad[0], "trace": trace, "dead_ranges": ranges})
            if not model_ok:
                continue
            # (2) semantics tie: Coq PySem vs CPython
            ct = m.get("coq_traces", {}).get(k0)
            for oi, (trace, outc) in enumerate(runs if ct is not None else []):
                oc, t = ct[oi]
                t2 = [k for k in t if k not in nomark]
                exp = "exc" if oc == 4 else "ok" if oc in (0, 1) else "other%d" % oc
                if t2 != trace or exp != outc:
                    sem_mism += 1
                    if sem_mism <= 2:
                        ck.broken_ties.append("semantics tie: Py/PySem.v and CPython disagree on %s:%s oracle %s: coq %s/%s, cpython %s/%s"
                                              % (m["path"], name, oracles[oi], t2, exp, trace, outc))
            # (3) model tie: Flow.v dead statements vs lines covered by reported ranges
            rec = [r for r in m["model"] if r["k"] == k0]
            if not rec:
                ck.broken_ties.append("model has no definition at line %d (%s)" % (k0, name))
                continue
            rec = rec[0]
            for st in pygen.own_statements(body):
                k = st[1]
                if st[0] == 'try' or k in elif_ids:
                    continue
                stats["stmts"] += 1
                md = k in rec["dead"]
                stats["dead_stmts"] += md
                idd = cc.covered(k, ranges)
                if md and not idd:
                    # pyscn reports LESS than the model: soundness is not at stake (completeness is property C02's business)
                    stats["under_reported"] = stats.get("under_reported", 0) + 1
                if idd and not md:
                    tie_mism += 1
                    if len(suspects) < 60:
                        suspects.append((m, name, k0, k, ranges))
                    if tie_mism <= 3:
                        ck.broken_ties.append("model tie: statement line %d of %s in %s: model says %s, pyscn ranges %s say %s"
                                              % (k, name, m["path"], "dead" if md else "live", ranges, "dead" if idd else "live"))
    # search for a failing input: drive CPython to the suspicious statements with many more oracles
    if suspects and nviol == 0:
        import json as _json, subprocess as _sp, sys as _sys, os as _os
        extra = cc.gen_oracles(rng, 600, length=30)
        for (m, name, k0, k, ranges) in suspects:
            p = _sp.run([_sys.executable, _os.path.join(cc.HERE, "pyrun.py")], input=_json.dumps({"files": [m["path"]], "oracles": extra}),
                        stdout=_sp.PIPE, stderr=_sp.PIPE, text=True, timeout=600)
            if p.returncode != 0:
                continue
            runs = _json.loads(p.stdout)[m["path"]].get(str(k0), [])
            hit = [(oi, tr) for oi, (tr, _o) in enumerate(runs) if k in tr]
            if hit:
                oi, tr = hit[0]
                nviol += 1
                ck.violation("statement at line %d of %s executes under CPython (oracle %s) but lies in a range pyscn reports as dead code: %s"
                             % (k, name, extra[oi], [r for r in ranges if r[0] <= k <= r[1]]),
                             {"kind": "live-flagged-dead", "file": m["path"], "source": m["lines"], "function": name,
                              "oracle": extra[oi], "executed_line": k, "trace": tr, "dead_ranges": ranges, "found_by": "targeted oracle search"})
                break
    # (4) graph-level model tie: Cfg/Builder.v finding ranges and complexity (all constructs) vs pyscn, exactly
    rng_mism = cx_mism = 0
    if model_ok:
        for m in mods:
            rows = {r["name"]: r for r in m["impl_funcs"]}
            for name, lst in cc.def_table(m).items():
                s, path = lst[0]
                b = m["builder"].get(s[1])
                if b is None:
                    continue
                ir = sorted((a, e) for (a, e, *_r) in m["impl_dead"].get(name, []))
                stats["builder_functions"] = stats.get("builder_functions", 0) + 1
                if ir != b["ranges"]:
                    # soundness only needs: every line pyscn reports lies in a range of the graph model (whose ranges the bounded
                    # theorem ties to Flow.v); fewer or narrower findings are property C02's business
                    extra_lines = [k for (a, e) in ir for k in range(a, e + 1) if not any(x <= k <= y for (x, y) in b["ranges"])]
                    if extra_lines:
                        rng_mism += 1
                        if rng_mism <= 2:
                            ck.broken_ties.append("builder tie: finding ranges of %s in %s: pyscn %s cover lines %s outside the ranges of Builder.v %s"
                                                  % (name, m["path"], ir, extra_lines[:6], b["ranges"]))
                    else:
                        stats["ranges_narrower_than_model"] = stats.get("ranges_narrower_than_model", 0) + 1
                if name in rows and rows[name]["complexity"] != b["cx"]:
                    cx_mism += 1          # complexity is property C03's business: recorded, not a broken tie of C01
        stats["complexity_differs_from_builder"] = cx_mism
        tie_mism += rng_mism
    if tie_mism or sem_mism:
        ck.notes.append("tie mismatches: model %d, semantics %d" % (tie_mism, sem_mism))
        # keep the first offending file for the replay
        ck.cov["tie_mismatches"] = {"model": tie_mism, "semantics": sem_mism}
    ck.samples = [{"file": mods[0]["path"], "source_head": mods[0]["lines"][:25], "oracle": oracles[2]}]
    ck.cov.update({
        "evaluations": stats["runs"],
        "distinct_nontrivial": stats["functions"],
        "rule": "generated functions (all constructs of the property's quantifier, nesting <= 4) x oracles; one evaluation = one CPython run "
                "of one function under one oracle, checked against pyscn's dead ranges; distinct = distinct generated functions",
        "input_distribution": stats,
        "disagreements_checked": nviol + tie_mism + sem_mism,
        "oracles": len(oracles), "modules": len(mods),
    })
    ck.trusted += ["Coq 8.16.1 kernel; vm_compute for model evaluation",
                   "hand-written models Cfg/Flow.v (of cfg_builder.go/reachability.go/dead_code.go) and Py/PySem.v (CPython control flow), tied by sampled correspondence",
                   "harness/pygen.py layout (one statement header per line), harness/pyrt/rt.py marker runtime, python3 as the CPython reference",
                   "tree-sitter parser and ast_builder.go are exercised end to end through the pyscn binary, not modelled"]
    ck.finish(assumptions=["statement ids are unique line numbers (by construction of the layout)",
                           "exceptions are raised only by marker calls; generators/async scheduling not modelled"])
