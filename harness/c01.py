"""C01 — dead-code soundness: nothing that can execute is ever reported dead."""
import os

import lib
import pygen
import cfgcommon as cc

PROFILE = dict(max_depth=3, max_len=4, n_funcs=4)


# ---------------------------------------------------------------------------------------------------------------------
# multi-file stream: projects of 2-5 modules with DISJOINT function/class names, analysed in ONE pyscn invocation.
# The report of an invocation is per file; whatever state the analysis keeps between the files of one run (parser, graph builder,
# tables keyed by function name) must not show in the report of a later file.  Decided like the single-module cases (every marker
# CPython executes in file X lies outside every range reported under X, whatever function the row names) plus the structural
# requirement that a row reported under X names a def of X and stays inside that def's lines - known from the generator.
# ---------------------------------------------------------------------------------------------------------------------
NAME_STRIDE = 1000       # file j of a project uses the def/class numbers j*NAME_STRIDE+1 ...: no qualified name occurs in two files
STEMS = ["alpha", "beta", "core", "delta", "eps", "gamma", "main", "util", "views", "zeta", "a0", "z9", "_priv", "Upper"]


def retag(b, off, live):
    """Copy of an (un)numbered block with every def/class number shifted by off; live=True: every terminator becomes a simple
    statement (same printed height: the 'live twin' has an executable marker on each line where the original may have dead code)."""
    def T(x):
        return None if x is None else retag(x, off, live)
    out = []
    for s in b:
        c = s[0]
        if c in pygen.TERMS:
            out.append(('simple', 0) if live else (c, 0))
        elif c in ('simple', 'pass'):
            out.append((c, 0))
        elif c == 'comp':
            out.append(('comp', 0, list(s[2])))
        elif c == 'if':
            out.append(('if', 0, T(s[2]), [(0, T(x)) for (_, x) in s[3]], T(s[4])))
        elif c in ('while', 'for'):
            out.append((c, 0, T(s[2]), T(s[3])))
        elif c == 'try':
            out.append(('try', 0, T(s[2]), [(0, T(x)) for (_, x) in s[3]], T(s[4]), T(s[5])))
        elif c == 'with':
            out.append(('with', 0, T(s[2])))
        elif c == 'match':
            out.append(('match', 0, [(0, T(x)) for (_, x) in s[2]]))
        elif c in ('def', 'class'):
            out.append((c, 0, s[2] + off, T(s[3])))
        else:
            raise AssertionError(c)
    return out


def has_dead_tail(b):
    """Some block has a terminator that is not its last statement (code after it is dead whatever the oracle)."""
    for i, s in enumerate(b):
        if s[0] in pygen.TERMS and i < len(b) - 1:
            return True
        if any(has_dead_tail(sb) for _, sb in pygen.sub_blocks(s)):
            return True
    return False


def gen_projects(rng, n_random, n_twin):
    """[{'kind', 'files': [{'rel', 'ast', 'lines'}]}]; the order of 'files' is the generation order (name bases), the relative paths
    are drawn independently, so every sorted position of the file with dead code relative to the others occurs."""
    def raw_module(dead_rich=False):
        for _ in range(60):
            g = pygen.Gen(rng, max_depth=3, max_len=4)
            m = g.module(rng.randint(1, 4), with_class=rng.random() < 0.6)
            if not dead_rich or has_dead_tail(m):
                return m
        return m

    def paths(k, rng_):
        stems = rng_.sample(STEMS, k)
        return [("pkg/" if rng_.random() < 0.3 else "") + st + ".py" for st in stems]

    projects = []
    for i in range(n_random):
        k = 2 + i % 4                                       # 2, 3, 4, 5 files
        raws = [retag(raw_module(dead_rich=(j == i % k)), j * NAME_STRIDE, False) for j in range(k)]
        projects.append({"kind": "random", "raw": raws, "rel": paths(k, rng)})
    for i in range(n_twin):
        a = raw_module(dead_rich=True)
        extra = [retag(raw_module(), (2 + j) * NAME_STRIDE, False) for j in range(i % 3)]           # 0, 1, 2 further files
        raws = [retag(a, 0, False), retag(a, NAME_STRIDE, True)] + extra
        rel = sorted(paths(len(raws), rng))
        # the same project with the file order of every rotation / the reverse: the dead original sorts before AND after its live twin
        for variant, order in (("fwd", rel), ("rev", rel[::-1])):
            projects.append({"kind": "twin-" + variant, "raw": raws, "rel": list(order)})
    for p in projects:
        p["files"] = []
        for raw, rel in zip(p.pop("raw"), p.pop("rel")):
            ast, lines = pygen.layout(raw)
            p["files"].append({"rel": rel, "ast": ast, "lines": lines})
    return projects


def _rows_of_report(data, cwd):
    """{relative path: [(function name, [(start, end, severity, reason)])]} of one analyze report."""
    out = {}
    for f in ((data or {}).get("dead_code") or {}).get("files") or []:
        fp = f["file_path"]
        rel = os.path.normpath(os.path.relpath(fp, cwd) if os.path.isabs(fp) else fp)
        for fn in f.get("functions") or []:
            out.setdefault(rel, []).append((fn["name"], [(x["location"]["start_line"], x["location"]["end_line"], x["severity"], x["reason"])
                                                        for x in fn.get("findings") or []]))
    return out


def run_project(p):
    """All invocations of one project (sequential: the report directory is per working directory). Returns [(argv, kind, result)]."""
    import re as _re
    cwd = p["dir"]
    rels = sorted(f["rel"] for f in p["files"])
    res = []
    for targets, label in ((["."], "dir"), (rels, "files-sorted"), (rels[::-1], "files-reversed")):
        sel = "complexity,deadcode" if label == "dir" else "deadcode"
        extra = ["--select", sel, "--min-severity", "info"]
        argv = ["analyze", "--json", "--no-open"] + extra + targets
        if label == "dir":
            rc, data, err = lib.analyze_json(cwd, extra, timeout=120)
        else:
            import shutil as _sh, json as _json
            rep = os.path.join(cwd, ".pyscn", "reports")
            _sh.rmtree(rep, ignore_errors=True)
            rc, out, err = lib.pyscn(argv, cwd, timeout=120)
            data = None
            if os.path.isdir(rep):
                fs = sorted(x for x in os.listdir(rep) if x.endswith(".json"))
                if fs:
                    try:
                        data = _json.load(open(os.path.join(rep, fs[-1])))
                    except Exception:
                        data = None
        res.append((argv, "analyze", None if data is None else _rows_of_report(data, cwd), "rc=%s %s" % (rc, err[-300:])))
    for targets, label in ((["."], "dir"), (rels[::-1], "files-reversed")):
        argv = ["check", "--select", "deadcode"] + targets
        rc, out, err = lib.pyscn(argv, cwd, timeout=120)
        rows = {}
        for ln in (out + "\n" + err).splitlines():
            mm = _re.match(r"^(.*\.py):(\d+):(\d+): (\S+) \((\w+)\)\s*$", ln)
            if mm:
                fp = mm.group(1)
                rel = os.path.normpath(os.path.relpath(fp, cwd) if os.path.isabs(fp) else fp)
                k = int(mm.group(2))
                rows.setdefault(rel, []).append((None, [(k, k, mm.group(5), mm.group(4))]))
        res.append((argv, "check", rows if rc in (0, 1) else None, "rc=%s %s" % (rc, err[-300:])))
    return res


def multi_file_stage(ck, rng, oracles, thorough, stats, nviol):
    from concurrent.futures import ThreadPoolExecutor
    import time as _time
    t0 = _time.time()
    projects = gen_projects(rng, 48 if thorough else 8, 24 if thorough else 4)
    root = lib.fresh_dir("c01_multi")
    mods = []
    for i, p in enumerate(projects):
        p["dir"] = os.path.join(root, "p%03d" % i)
        for f in p["files"]:
            f["path"] = os.path.join(p["dir"], f["rel"])
            os.makedirs(os.path.dirname(f["path"]), exist_ok=True)
            with open(f["path"], "w") as fh:
                fh.write("\n".join(f["lines"]) + "\n")
            mods.append(f)
    cc.cpython_traces(mods, oracles)
    st = dict(projects=len(projects), files=len(mods), invocations=0, rows=0, dead_ranges=0, check_lines=0, executed_lines=0,
              lines_executed_here_and_reported_dead_in_a_sibling=0, files_per_project={}, kinds={})
    stats["multi_file"] = st
    for p in projects:
        st["files_per_project"][len(p["files"])] = st["files_per_project"].get(len(p["files"]), 0) + 1
        st["kinds"][p["kind"]] = st["kinds"].get(p["kind"], 0) + 1
        for f in p["files"]:
            # generator's own knowledge of the file: qualified name -> (def line, last line); lines really executed by CPython
            f["defs"] = {}
            for name, lst in cc.def_table(f).items():
                s, path = lst[0]
                f["defs"][name] = (s[1], pygen.end_line(s), len(path) == 1)
            f["own"] = {}            # name -> {executed line: oracle index} of the standalone runs of that def
            f["exec_top"] = {}       # executed line -> (def name, oracle index): runs of module-level functions and methods only
            for name, (k0, _e, top) in f["defs"].items():
                for oi, (trace, _o) in enumerate(f["py_traces"].get(k0) or []):
                    for k in trace:
                        f["own"].setdefault(name, {}).setdefault(k, oi)
                        if top:
                            f["exec_top"].setdefault(k, (name, oi))
            st["executed_lines"] += len(f["exec_top"])
    with ThreadPoolExecutor(8) as ex:
        results = list(ex.map(run_project, projects))
    live_viol, struct_viol = [], []
    for p, res in zip(projects, results):
        byrel = {os.path.normpath(f["rel"]): f for f in p["files"]}
        src = {f["rel"]: f["lines"] for f in p["files"]}
        dead_lines = {}
        for argv, kind, rows, diag in res:
            st["invocations"] += 1
            if rows is None:
                ck.broken_ties.append("multi-file: `pyscn %s` in %s produced no report (%s)" % (" ".join(argv), p["dir"], diag))
                continue
            base = {"found_by": "multi-file stream (%s project, one invocation over %d files)" % (p["kind"], len(p["files"])),
                    "cwd": p["dir"], "argv": ["pyscn"] + argv, "files": src}
            for rel, frows in rows.items():
                f = byrel.get(rel)
                if f is None:
                    struct_viol.append(("`pyscn %s` reports dead code under %s, which is not a file of the analysed project %s"
                                        % (" ".join(argv), rel, sorted(byrel)), dict(base, kind="finding-under-unknown-file", reported_file=rel, rows=frows)))
                    continue
                for name, ranges in frows:
                    st["rows"] += 1
                    if kind == "analyze":
                        st["dead_ranges"] += len(ranges)
                        dead_lines.setdefault(rel, set()).update(k for (a, e, *_r) in ranges for k in range(a, e + 1))
                    else:
                        st["check_lines"] += len(ranges)
                    # (a) the property: a line CPython executes in THIS file is in no range reported under this file
                    for (a, e, sev, reason) in ranges:
                        hit = [(k,) + f["exec_top"][k] for k in sorted(f["exec_top"]) if a <= k <= e]
                        if name in f["own"]:         # a nested def is run standalone: its lines count against its own row only
                            hit += [(k, name, oi) for k, oi in sorted(f["own"][name].items()) if a <= k <= e]
                        if hit:
                            k, fn_, oi = hit[0]
                            live_viol.append(("line %d of %s (%s) executes under CPython (function %s, oracle %s) but `pyscn %s` reports the range %s of that "
                                              "file as dead code (%s, %s, function row %r)"
                                              % (k, rel, f["lines"][k - 1].strip()[:50], fn_, oracles[oi], " ".join(argv), (a, e), reason, sev, name),
                                              dict(base, kind="live-flagged-dead", file=rel, executed_line=k, function=fn_, oracle=oracles[oi],
                                                   dead_range=[a, e, sev, reason], reported_function=name, source=f["lines"])))
                    # (b) structure: the row names a def of this file and its ranges stay inside that def
                    if kind == "analyze":
                        d = f["defs"].get(name)
                        owners = [n for q in p["files"] if q is not f for n in q["defs"] if n == name]
                        if d is None:
                            struct_viol.append(("`pyscn %s` reports dead code under %s in a function %r that this file does not define (its defs: %s)%s; ranges %s"
                                                % (" ".join(argv), rel, name, sorted(f["defs"]),
                                                   "; another file of the same run defines it" if owners else "", ranges),
                                                dict(base, kind="finding-for-foreign-function", file=rel, reported_function=name, ranges=ranges, source=f["lines"])))
                        else:
                            # an elif test has no source span in pyscn: its finding is printed at line 0 (no line of any file; counted)
                            st["ranges_at_line_0"] = st.get("ranges_at_line_0", 0) + sum(1 for (a, e, *_r) in ranges if a == 0 and e == 0)
                            out_ = [(a, e) for (a, e, *_r) in ranges if not (d[0] < a <= e <= d[1]) and (a, e) != (0, 0)]
                            if out_:
                                struct_viol.append(("`pyscn %s` reports under %s, function %s (lines %d-%d), the dead ranges %s outside the function"
                                                    % (" ".join(argv), rel, name, d[0], d[1], out_),
                                                    dict(base, kind="finding-outside-its-function", file=rel, reported_function=name, ranges=ranges, source=f["lines"])))
                    else:
                        for (a, e, sev, reason) in ranges:
                            if not any(d[0] <= a <= d[1] for d in f["defs"].values()):
                                struct_viol.append(("`pyscn %s` prints %s:%d (%s) but no function of that file contains the line"
                                                    % (" ".join(argv), rel, a, reason), dict(base, kind="check-line-outside-functions", file=rel, line=a, source=f["lines"])))
        # how often the input class is really hit: a line executed in one file that a sibling file of the same run has inside a dead range
        for f in p["files"]:
            for q in p["files"]:
                if q is not f:
                    st["lines_executed_here_and_reported_dead_in_a_sibling"] += len(set(f["exec_top"]) & dead_lines.get(os.path.normpath(q["rel"]), set()))
    if not st["dead_ranges"] or not st["lines_executed_here_and_reported_dead_in_a_sibling"]:
        ck.broken_ties.append("multi-file stream is vacuous: %s" % st)
    for what, replay in live_viol + struct_viol:
        if nviol >= 3:
            break
        nviol += 1
        ck.violation(what, replay, independent=True)
    st["disagreements"] = len(live_viol) + len(struct_viol)
    st["seconds"] = round(_time.time() - t0, 1)
    return nviol


def all_arms_stage(ck, aa, oracles, stats, nviol):
    """'All arms terminate' compositions (aa = pygen.all_arms_bodies(...)): pyscn's dead ranges against the markers CPython executes."""
    import time as _time
    t0 = _time.time()
    core, rest, total = aa
    labelled = core + rest
    per = 40
    mods = []
    for off in range(0, len(labelled), per):
        chunk = labelled[off:off + per]
        ast, lines = pygen.layout([('def', 0, i + 1, b) for i, (_l, b) in enumerate(chunk)])
        mods.append({"ast": ast, "lines": lines, "labels": {"f%d" % (i + 1): l for i, (l, _b) in enumerate(chunk)}})
    d = lib.fresh_dir("c01_arms")
    cc.write_modules(mods, d, prefix="a")
    rc, data, err = cc.run_pyscn(d, select="deadcode")
    if data is None:
        ck.broken_ties.append("all-arms stream: pyscn produced no report (rc=%s): %s" % (rc, err[-300:]))
        return nviol
    cc.index_report(data, mods)
    cc.cpython_traces(mods, oracles)
    st = dict(functions=0, core=len(core), sampled_of_the_rest=len(rest), rest_total=total, runs=0, executed_markers=0, dead_ranges=0,
              functions_with_dead_code=0, executed_finally_markers=0, functions_whose_every_arm_jumps=0, disagreements=0, by_depth={})
    stats["all_arms"] = st
    for m in mods:
        for name, lst in cc.def_table(m).items():
            s, path = lst[0]
            lab = m["labels"].get(name, "?")
            ranges = m["impl_dead"].get(name, [])
            st["functions"] += 1
            st["dead_ranges"] += len(ranges)
            st["functions_with_dead_code"] += bool(ranges)
            dp = lab.count(">") + 2
            st["by_depth"][dp] = st["by_depth"].get(dp, 0) + 1
            pat = lab[lab.rfind("(") + 1:-1].split(",")
            st["functions_whose_every_arm_jumps"] += all(t != "none" for t in pat)
            fin = set()                   # markers inside finally clauses of this function
            for x in pygen.own_statements(s[3]):
                if x[0] == 'try' and x[5] is not None:
                    fin.update(y[1] for y in pygen.own_statements(x[5]))
            for oi, (trace, outc) in enumerate(m["py_traces"].get(s[1]) or []):
                st["runs"] += 1
                st["executed_markers"] += len(trace)
                st["executed_finally_markers"] += sum(1 for k in trace if k in fin)
                bad = [k for k in trace if cc.covered(k, ranges)]
                if bad:
                    st["disagreements"] += 1
                    if st["disagreements"] <= 2:          # reported whatever the earlier stages found: the stream speaks for itself
                        nviol += 1
                        ck.violation("statement at line %d of %s (%s) executes under CPython (oracle %s) but lies in a range pyscn reports as dead code: %s; "
                                     "composition %s" % (bad[0], name, m["lines"][bad[0] - 1].strip()[:40], oracles[oi],
                                                          [r for r in ranges if r[0] <= bad[0] <= r[1]], lab),
                                     {"kind": "live-flagged-dead", "file": m["path"], "function": name, "composition": lab,
                                      "source": m["lines"][s[1] - 1:pygen.end_line(s)], "first_line": s[1],
                                      "oracle": oracles[oi], "executed_line": bad[0], "trace": trace, "dead_ranges": ranges,
                                      "found_by": "all-arms-terminate compositions"}, independent=True)
                    break
    if not st["dead_ranges"] or not st["executed_finally_markers"] or not st["functions_whose_every_arm_jumps"]:
        ck.broken_ties.append("all-arms stream is vacuous: %s" % st)
    st["seconds"] = round(_time.time() - t0, 1)
    return nviol


def main(tier):
    ck = lib.Check("C01", tier)
    ck.prepare("C01.v")
    rng = ck.rng
    thorough = tier == "thorough"
    n_mod = 400 if thorough else 60
    n_orc = 32 if thorough else 10
    mods = cc.gen_modules(rng, n_mod, PROFILE)
    # deeper / longer programs as a second stream
    mods += cc.gen_modules(rng, n_mod // 3, dict(max_depth=4, max_len=5, n_funcs=2))
    # small-scope exhaustion: every legal body with <= 2 (thorough: 3) statement nodes, plain and wrapped in a loop with else
    small = pygen.modules_from_bodies(pygen.enum_function_bodies(3 if thorough else 2))
    mods += small
    # frame compositions: every nesting (depth <= 2; depth 3 sampled, thorough: all) of try/finally, try/except(/else/finally),
    # loops with and without a terminating else, with, if/elif/else, match around each terminator, code after every frame
    fb2, _ = pygen.enum_frame_bodies(2)
    fb3, _ = pygen.enum_frame_bodies(3, rng, None if thorough else 300)
    n_sem = len(mods) + 12        # the semantics tie (PySem vs CPython) runs on the modules generated so far and a few frame modules
    mods += pygen.modules_from_bodies(fb2 + (fb3[len(fb2):] if thorough else fb3 + pygen.routing_frame_bodies()))
    # multi-arm statements, every terminate/fall-through pattern of the arms (if with up to 4 elif, try with up to 3 handlers, match)
    mods += pygen.modules_from_bodies(pygen.arm_chain_bodies())
    # 'all arms terminate' compositions (a multi-arm statement whose arms independently return / raise / break / continue / fall
    # through, inside frames with a finally, depth 2 and 3): all of them go through the CPython-witness stage below (all_arms_stage),
    # a sample of them also through the model ties with the modules above
    aa = pygen.all_arms_bodies(rng, 20000 if thorough else 1500)
    mods += pygen.modules_from_bodies([b for _l, b in rng.sample(aa[0] + aa[1], 600 if thorough else 80)])
    d = lib.fresh_dir("c01")
    cc.write_modules(mods, d)
    oracles = cc.gen_oracles(rng, n_orc)
    stats = dict(functions=0, runs=0, executed_markers=0, dead_ranges=0, stmts=0, dead_stmts=0, constructs={})

    rc, data, err = cc.run_pyscn(d)
    if data is None:
        ck.broken_ties.append("pyscn produced no report on generated modules (rc=%s): %s" % (rc, err[-500:]))
        ck.finish()
    cc.index_report(data, mods)
    cc.cpython_traces(mods, oracles)
    model_ok = False
    try:
        model_ok = cc.coq_analyse(mods, "C01") and cc.coq_traces(mods[:n_sem], oracles, "C01") and cc.coq_build(mods, "C01")
    except Exception as e:
        ck.broken_ties.append("model evaluation failed: " + str(e)[-1500:])

    nviol = 0
    # ---- real-Python corpus: constructs outside the statement model (except*, generators, async, patterns, suppressing context
    # managers, finally overriding control flow, decorators, class bodies ...) executed under sys.settrace ----
    try:
        import json as _json, subprocess as _sp, sys as _sys, shutil as _sh
        cdir = lib.fresh_dir("c01_corpus")
        here = os.path.dirname(os.path.abspath(__file__))
        for fn in sorted(os.listdir(os.path.join(here, "corpus"))):
            if fn.startswith("c01_") and fn.endswith(".py"):
                _sh.copy(os.path.join(here, "corpus", fn), os.path.join(cdir, fn))
        crc, cdata, cerr = cc.run_pyscn(cdir, select="deadcode")
        dead_by_file = {}
        for f in ((cdata or {}).get("dead_code") or {}).get("files") or []:
            for fnrow in f.get("functions") or []:
                for x in fnrow.get("findings") or []:
                    dead_by_file.setdefault(os.path.basename(f["file_path"]), []).append(
                        (x["location"]["start_line"], x["location"]["end_line"], x["severity"], x["reason"], fnrow["name"]))
        if cdata is None:
            ck.broken_ties.append("corpus: pyscn produced no report (rc=%s): %s" % (crc, cerr[-300:]))
        stats["corpus_files"] = 0
        stats["corpus_executed_lines"] = 0
        stats["corpus_dead_ranges"] = sum(len(v) for v in dead_by_file.values())
        if cdata is not None and not stats["corpus_dead_ranges"]:
            ck.broken_ties.append("corpus: pyscn reports no dead code at all in the corpus (really_dead has two dead statements): the stage is vacuous")
        for fn in sorted(os.listdir(cdir)):
            if not fn.endswith(".py"):
                continue
            p = _sp.run([_sys.executable, os.path.join(here, "pytrace.py"), os.path.join(cdir, fn)], capture_output=True, text=True, timeout=300)
            if p.returncode != 0:
                ck.broken_ties.append("corpus: tracing %s failed: %s" % (fn, p.stderr[-400:]))
                continue
            tr = _json.loads(p.stdout)
            stats["corpus_files"] += 1
            stats["corpus_executed_lines"] += len(tr["executed"])
            for k in tr["executed"]:
                hit = [r for r in dead_by_file.get(fn, []) if r[0] <= k <= r[1]]
                if hit and nviol < 3:
                    nviol += 1
                    src = open(os.path.join(cdir, fn)).read().splitlines()
                    ck.violation("line %d of corpus/%s (%s) executes under CPython in the call %s but lies in a range pyscn reports as dead code: %s"
                                 % (k, fn, src[k - 1].strip()[:60], tr["first_call"][str(k)], hit),
                                 {"kind": "live-flagged-dead", "file": "harness/corpus/" + fn, "executed_line": k, "call": tr["first_call"][str(k)],
                                  "dead_ranges": hit, "source_excerpt": src[max(0, k - 8):k + 3], "found_by": "real-Python corpus under sys.settrace"})
    except Exception as e:
        ck.broken_ties.append("corpus stage failed: " + str(e)[-600:])
    # ---- multi-file stream: one invocation over 2-5 modules with disjoint names (directory target, explicit file lists in both
    # orders, `pyscn check`): nothing of one file shows in the report of another ----
    try:
        nviol = multi_file_stage(ck, rng, oracles, thorough, stats, nviol)
    except Exception as e:
        ck.broken_ties.append("multi-file stage failed: " + str(e)[-600:])
    # ---- 'all arms terminate' compositions: the cleanup clauses of the outer frames are reachable only through the jumps ----
    try:
        nviol = all_arms_stage(ck, aa, oracles, stats, nviol)
    except Exception as e:
        ck.broken_ties.append("all-arms stage failed: " + str(e)[-600:])
    sem_mism = tie_mism = 0
    suspects = []   # statements pyscn calls dead and the model calls live: candidates for a CPython witness
    for m in mods:
        defs = cc.def_table(m)
        for name, lst in defs.items():
            s, path = lst[0]
            body = s[3]
            k0 = s[1]
            ranges = m["impl_dead"].get(name, [])
            stats["functions"] += 1
            stats["dead_ranges"] += len(ranges)
            for c in pygen.used_constructs(body):
                stats["constructs"][c] = stats["constructs"].get(c, 0) + 1
            nomark, elif_ids = cc.unobservable_ids(body)
            runs = m["py_traces"].get(k0)
            if runs is None:
                # CPython drops statically dead code (e.g. a def after return) at compile time: nothing to execute
                stats["not_compiled_by_cpython"] = stats.get("not_compiled_by_cpython", 0) + 1
                continue
            # (1) the property itself: implementation vs CPython
            for oi, (trace, outc) in enumerate(runs):
                stats["runs"] += 1
                stats["executed_markers"] += len(trace)
                bad = [k for k in trace if cc.covered(k, ranges)]
                if bad and nviol < 3:
                    nviol += 1
                    ck.violation("statement at line %d of %s executes under CPython (oracle %s) but lies in a range pyscn reports as dead code: %s"
                                 % (bad[0], name, oracles[oi], [r for r in ranges if r[0] <= bad[0] <= r[1]]),
                                 {"kind": "live-flagged-dead", "file": m["path"], "source": m["lines"], "function": name,
                                  "oracle": oracles[oi], "executed_line": bad[0], "trace": trace, "dead_ranges": ranges})
            if not model_ok:
                continue
            # (2) semantics tie: Coq PySem vs CPython
            ct = m.get("coq_traces", {}).get(k0)
            for oi, (trace, outc) in enumerate(runs if ct is not None else []):
                oc, t = ct[oi]
                t2 = [k for k in t if k not in nomark]
                exp = "exc" if oc == 4 else "ok" if oc in (0, 1) else "other%d" % oc
                if t2 != trace or exp != outc:
                    sem_mism += 1
                    if sem_mism <= 2:
                        ck.broken_ties.append("semantics tie: Py/PySem.v and CPython disagree on %s:%s oracle %s: coq %s/%s, cpython %s/%s"
                                              % (m["path"], name, oracles[oi], t2, exp, trace, outc))
            # (3) model tie: Flow.v dead statements vs lines covered by reported ranges
            rec = [r for r in m["model"] if r["k"] == k0]
            if not rec:
                ck.broken_ties.append("model has no definition at line %d (%s)" % (k0, name))
                continue
            rec = rec[0]
            for st in pygen.own_statements(body):
                k = st[1]
                if st[0] == 'try' or k in elif_ids:
                    continue
                stats["stmts"] += 1
                md = k in rec["dead"]
                stats["dead_stmts"] += md
                idd = cc.covered(k, ranges)
                if md and not idd:
                    # pyscn reports LESS than the model: soundness is not at stake (completeness is property C02's business)
                    stats["under_reported"] = stats.get("under_reported", 0) + 1
                if idd and not md:
                    tie_mism += 1
                    if len(suspects) < 60:
                        suspects.append((m, name, k0, k, ranges))
                    if tie_mism <= 3:
                        ck.broken_ties.append("model tie: statement line %d of %s in %s: model says %s, pyscn ranges %s say %s"
                                              % (k, name, m["path"], "dead" if md else "live", ranges, "dead" if idd else "live"))
    # search for a failing input: drive CPython to the suspicious statements with many more oracles
    if suspects and nviol == 0:
        import json as _json, subprocess as _sp, sys as _sys, os as _os
        extra = cc.gen_oracles(rng, 600, length=30)
        for (m, name, k0, k, ranges) in suspects:
            p = _sp.run([_sys.executable, _os.path.join(cc.HERE, "pyrun.py")], input=_json.dumps({"files": [m["path"]], "oracles": extra}),
                        stdout=_sp.PIPE, stderr=_sp.PIPE, text=True, timeout=600)
            if p.returncode != 0:
                continue
            runs = _json.loads(p.stdout)[m["path"]].get(str(k0), [])
            hit = [(oi, tr) for oi, (tr, _o) in enumerate(runs) if k in tr]
            if hit:
                oi, tr = hit[0]
                nviol += 1
                ck.violation("statement at line %d of %s executes under CPython (oracle %s) but lies in a range pyscn reports as dead code: %s"
                             % (k, name, extra[oi], [r for r in ranges if r[0] <= k <= r[1]]),
                             {"kind": "live-flagged-dead", "file": m["path"], "source": m["lines"], "function": name,
                              "oracle": extra[oi], "executed_line": k, "trace": tr, "dead_ranges": ranges, "found_by": "targeted oracle search"})
                break
    # (4) graph-level model tie: Cfg/Builder.v finding ranges and complexity (all constructs) vs pyscn, exactly
    rng_mism = cx_mism = 0
    if model_ok:
        for m in mods:
            rows = {r["name"]: r for r in m["impl_funcs"]}
            for name, lst in cc.def_table(m).items():
                s, path = lst[0]
                b = m["builder"].get(s[1])
                if b is None:
                    continue
                ir = sorted((a, e) for (a, e, *_r) in m["impl_dead"].get(name, []))
                stats["builder_functions"] = stats.get("builder_functions", 0) + 1
                if ir != b["ranges"]:
                    # soundness only needs: every line pyscn reports lies in a range of the graph model (whose ranges the bounded
                    # theorem ties to Flow.v); fewer or narrower findings are property C02's business
                    extra_lines = [k for (a, e) in ir for k in range(a, e + 1) if not any(x <= k <= y for (x, y) in b["ranges"])]
                    if extra_lines:
                        rng_mism += 1
                        if rng_mism <= 2:
                            ck.broken_ties.append("builder tie: finding ranges of %s in %s: pyscn %s cover lines %s outside the ranges of Builder.v %s"
                                                  % (name, m["path"], ir, extra_lines[:6], b["ranges"]))
                    else:
                        stats["ranges_narrower_than_model"] = stats.get("ranges_narrower_than_model", 0) + 1
                if name in rows and rows[name]["complexity"] != b["cx"]:
                    cx_mism += 1          # complexity is property C03's business: recorded, not a broken tie of C01
        stats["complexity_differs_from_builder"] = cx_mism
        tie_mism += rng_mism
    if tie_mism or sem_mism:
        ck.notes.append("tie mismatches: model %d, semantics %d" % (tie_mism, sem_mism))
        # keep the first offending file for the replay
        ck.cov["tie_mismatches"] = {"model": tie_mism, "semantics": sem_mism}
    ck.samples = [{"file": mods[0]["path"], "source_head": mods[0]["lines"][:25], "oracle": oracles[2]}]
    ck.cov.update({
        "evaluations": stats["runs"],
        "distinct_nontrivial": stats["functions"],
        "rule": "generated functions (all constructs of the property's quantifier, nesting <= 4) x oracles; one evaluation = one CPython run "
                "of one function under one oracle, checked against pyscn's dead ranges; distinct = distinct generated functions; "
                "plus the multi-file stream (input_distribution.multi_file): projects of 2-5 modules with pairwise disjoint def/class names "
                "(random modules and dead-original/live-twin pairs with identical line layout, the original sorted before and after its twin, "
                "files in the root and in a sub-package) analysed in ONE invocation each of `analyze --select complexity,deadcode .`, "
                "`analyze --select deadcode <files sorted>`, `<files reversed>`, `check --select deadcode .` and `check <files reversed>`; per "
                "reported file X: no line CPython executes in X lies in any range reported under X (whatever function the row names), every row "
                "names a def of X and stays inside its lines, no row is reported under a path outside the project; "
                "plus the all-arms-terminate stream (input_distribution.all_arms): an inner multi-arm statement (if/else, if/elif/else, try with 1-2 "
                "handlers and with else, match, with) whose arms independently end in return/raise/break/continue/fall-through, directly or through "
                "if/if-else/with/while/for-else inside the body/handler/else/finally of an outer try..finally (or a with) whose other arms fall through "
                "or terminate, depth 2 and depth 3 (try..finally around try/except or try/finally around the inner statement), plain and inside a loop; "
                "'core' (no loop, depth 2: every arm assignment over return/raise/fall-through x every outer frame; depth 3: uniform arms x every frame "
                "pair) is enumerated completely, 'sampled_of_the_rest' of 'rest_total' are drawn; every function runs under every oracle and no executed "
                "marker (those in the finally clauses are counted) may lie in a reported range; a sample of these bodies is also in the model-tied modules",
        "input_distribution": stats,
        "disagreements_checked": nviol + tie_mism + sem_mism + stats.get("multi_file", {}).get("disagreements", 0),
        "oracles": len(oracles), "modules": len(mods),
    })
    ck.trusted += ["Coq 8.16.1 kernel; vm_compute for model evaluation",
                   "hand-written models Cfg/Flow.v (of cfg_builder.go/reachability.go/dead_code.go) and Py/PySem.v (CPython control flow), tied by sampled correspondence",
                   "harness/pygen.py layout (one statement header per line), harness/pyrt/rt.py marker runtime, python3 as the CPython reference",
                   "tree-sitter parser and ast_builder.go are exercised end to end through the pyscn binary, not modelled"]
    ck.finish(assumptions=["statement ids are unique line numbers (by construction of the layout)",
                           "exceptions are raised only by marker calls; generators/async scheduling not modelled"])
