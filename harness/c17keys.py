"""C17, part D — the keys of .pyscn.toml / [tool.pyscn] that have no flag of `pyscn analyze`.

 (D1) per key: the real binary is run with the key present (non-default values, `false`/0 where that is a value, one
      value outside the documented domain) in a .pyscn.toml or a pyproject.toml; the value in force is read from the
      request/config echo of the JSON report section (for the [system_analysis] switches: from which parts of the
      system section exist) and judged by spec_ok (Cli/ConfigKeys.v, evaluated in Coq) -> VIOLATION / recorded known
      finding; compared with key_model -> broken tie.  The absent-key cell of every key comes from one run without
      any configuration file.  Where cheap, the behaviour is checked too (sort order, filters, detection switches,
      output directory): the echoed value is the one the analysis used.
 (D1x) the same keys under an EXPLICIT `--config` file (Cli/Discovery.v: --config is the file in force, model and spec, evaluated in
      Coq for the three layouts used): per key one observable non-default value (thorough: every one) in a --config file next to the
      project, (alone) with no discoverable file, (against) with a discoverable .pyscn.toml / pyproject.toml in the project that
      gives the key a DIFFERENT valid value, (lacks) the --config file does not mention the key and the discoverable file sets it:
      the explicit file's value — or the default when it lacks the key — must be in force, read from the same observables (echo,
      refusal, report format / location); judged by spec_ok on the explicit file's cell, compared with key_model.
 (D2) a file that spells out every key of every section with its documented default must give the same results as
      no file at all, in both file styles; on a project with a .pyi stub also an empty file and a one-key file.
 (D4) keys whose wiring the translator reads off the code (Cli/ConfigKeysWiring.v: [clones] skip_docstrings and
      max_edit_distance, [output] format, [dead_code] enabled): model and judgement are evaluated on the Coq instance;
      [dead_code] detect_*: the kinds of findings reported against reported / switch_of; [dead_code] enabled against
      --select / --skip-deadcode (dead_code_runs / dead_code_runs_spec).
"""
import json
import os
import shutil
from concurrent.futures import ThreadPoolExecutor

import lib
from lib import cZ, clist

REQ = ("From Coq Require Import ZArith List Bool.\nImport ListNotations.\n"
       "From PV Require Import Cli.ConfigKeys Cli.ConfigKeysWiring Props.C17Keys.\nOpen Scope Z_scope.")

BIG = 10 ** 9
NOVAL = (1, 0)      # lo > hi: not validated


# ----------------------------------------------------------------------------------------------
# extra sample files (the option matrix keeps its own, smaller, files)
# ----------------------------------------------------------------------------------------------
DEADKINDS = '''def after_break(xs):
    for x in xs:
        break
        print("dead", x)
    return xs


def after_continue(xs):
    for x in xs:
        continue
        print("dead", x)
    return xs


def after_raise(x):
    raise ValueError(x)
    print("dead")


def after_return(x):
    return x
    print("dead")
'''

CYCLE_A = "import cycb\n\n\ndef ga():\n    return cycb\n"
CYCLE_B = "import cyca\n\n\ndef gb():\n    return cyca\n"

STUB = "def stub_fn(x):\n    if x:\n        return 1\n    if x is None:\n        return 3\n    return 2\n"
EXTRA_FILES = {"deadkinds.py": DEADKINDS, "cyca.py": CYCLE_A, "cycb.py": CYCLE_B, "stubs.pyi": STUB}
SELECT_FILES = {"complexity": ["cxmod.py"], "deadcode": ["deadmod.py", "deadkinds.py"], "clones": ["clone_a.py", "clone_b.py", "clone_c.py"],
                "cbo": ["cbomod.py"], "lcom": ["lcmod.py"], "deps": ["cyca.py", "cycb.py", "cxmod.py"]}


# ----------------------------------------------------------------------------------------------
# the key table
# ----------------------------------------------------------------------------------------------
class Key:
    """kind: bool | int | frac (1/10000) | enum (index into `domain`, 0 = "", len+1 = anything else) | list (index into `lists`)."""

    def __init__(self, section, key, kind, default, presence, select, echo, values, plumbing=("UsesFile",), rng=NOVAL, domain=None,
                 lists=None, behave=None, empty_is_default=False, family=None, argv=None, on_result=False, coq_key=None, explicit_source="explicit"):
        self.section, self.key, self.kind, self.default, self.presence = section, key, kind, default, presence
        self.select, self.echo, self.values, self.plumbing, self.rng = select, echo, values, plumbing, rng
        self.domain, self.lists, self.behave, self.empty_is_default = domain, lists, behave, empty_is_default
        self.name = "%s.%s" % (section, key)
        self.family = family or self.name     # keys that share one cause (for the known-findings register)
        self.argv = argv                      # None: analyze --json --select <select>
        self.on_result = on_result            # echo reads the run (exit status, report files), not the JSON report
        # the key as an instance of Cli/ConfigKeysWiring.v (built from what the translator reads off the code): the model and the
        # judgement are evaluated on that instance; presence / default / range of this table must agree with it (checked)
        self.coq_key = coq_key
        # which file the CODE reads this key from when --config is given: "explicit" (the resolved configuration, every use case and
        # generateOutput) or "discovered" (a loader that is not handed the --config path); the PROPERTY always says: the explicit file
        self.explicit_source = explicit_source

    def valid(self, v):
        """inside the validated range of the key (a file with this value loads)."""
        if self.rng == NOVAL:
            return True
        lo, hi = self.rng
        if self.kind == "frac":
            lo, hi = int(round(lo * 10000)), int(round(hi * 10000))
        return lo <= self.enc(v) <= hi

    # python value -> Z
    def enc(self, v):
        if self.kind == "bool":
            return 1 if v else 0
        if self.kind == "int":
            return int(v)
        if self.kind == "frac":
            return int(round(float(v) * 10000))
        if self.kind == "enum":
            if v == "":
                return self.enc(self.default) if self.empty_is_default else 0
            return self.domain.index(v) + 1 if v in self.domain else len(self.domain) + 1
        if self.kind == "list":
            v = list(v or [])
            if not v:
                return 0
            return self.lists.index(v) + 1 if v in self.lists else len(self.lists) + 1
        raise KeyError(self.kind)

    def toml(self, v):
        if self.kind == "bool":
            return "true" if v else "false"
        if self.kind == "int":
            return str(v)
        if self.kind == "frac":
            return "%.4f" % v
        return json.dumps(v)

    def coq_plumbing(self):
        if self.coq_key:
            return "(k_plumbing %s)" % self.coq_key
        if self.plumbing[0] == "UsesFile":
            return "UsesFile"
        return "(%s %s)" % (self.plumbing[0], cZ(self.enc(self.plumbing[1])))

    def coq_run(self, file_arg):
        if self.coq_key:
            return "run_keyspec %s %s" % (self.coq_key, file_arg)
        return "run_key %s %s" % (self.coq_args(), file_arg)

    def coq_judge(self, file_arg, o):
        if self.coq_key:
            return "judge_keyspec %s %s %s" % (self.coq_key, file_arg, o)
        return "judge_key %s %s %s" % (self.coq_args(), file_arg, o)

    def coq_args(self):
        lo, hi = self.rng
        if self.kind == "frac" and self.rng != NOVAL:
            lo, hi = int(round(lo * 10000)), int(round(hi * 10000))
        return "%s %s %s %s %s" % (self.presence, self.coq_plumbing(), cZ(self.enc(self.default)), cZ(lo), cZ(hi))


def path(*ks):
    def get(data):
        cur = data
        for k in ks:
            if cur is None:
                return None
            cur = cur.get(k)
        return cur
    return get


def clone_types_echo(data):
    v = path("clone", "request", "clone_types")(data)
    return None if v is None else ["type%d" % t for t in v]


def sys_part(name):
    def get(data):
        s = data.get("system")
        if s is None:
            return None
        return s.get(name) is not None
    return get


# ---- behaviour checks: (report, value in force) -> problem or None --------------------------------------------
def cx_functions(data):
    return [f for f in ((data.get("complexity") or {}).get("Functions") or [])]


def b_cx_sorted(data, v):
    fs = cx_functions(data)
    rank = {"high": 0, "medium": 1, "low": 2}
    if v == "name":
        keys = [f["Name"] for f in fs]
    elif v == "risk":
        keys = [rank.get(f["RiskLevel"], 3) for f in fs]
    else:
        keys = [-f["Metrics"]["Complexity"] for f in fs]
    if keys != sorted(keys):
        return "functions are not ordered by %s: %s" % (v, [(f["Name"], f["Metrics"]["Complexity"], f["RiskLevel"]) for f in fs][:12])
    return None


def dead_findings(data):
    return [x for fl in ((data.get("dead_code") or {}).get("files") or []) for fn in (fl.get("functions") or []) for x in (fn.get("findings") or [])]


def b_detect(reason):
    def chk(data, v):
        n = sum(1 for x in dead_findings(data) if x["reason"] == reason)
        if v and n == 0:
            return "no %s finding although the detection is on" % reason
        if not v and n:
            return "%d %s finding(s) although the detection is switched off" % (n, reason)
        return None
    return chk


def b_dead_sorted(data, v):
    files = (data.get("dead_code") or {}).get("files") or []
    if v == "file":
        ks = [f["file_path"] for f in files]
        if ks != sorted(ks):
            return "dead-code files are not ordered by file: %s" % ks
    return None


def cbo_values(data):
    return sorted(k["Metrics"]["CouplingCount"] for k in ((data.get("cbo") or {}).get("Classes") or []))


def b_max_cbo(data, v):
    vals = cbo_values(data)
    want = [x for x in (2, 4, 6) if not v or x <= v]
    return None if vals == want else "classes with CBO %s reported, max_cbo %s selects %s" % (vals, v, want)


def b_show_zeros(data, v):
    vals = cbo_values(data)
    want = ([0] * 6 if v else []) + [2, 4, 6]
    return None if vals == want else "classes with CBO %s reported, show_zeros %s selects %s" % (vals, v, want)


def clone_pairs(data):
    return (data.get("clone") or {}).get("clone_pairs") or []


def b_min_sim(data, v):
    bad = [p["similarity"] for p in clone_pairs(data) if p["similarity"] < v - 1e-9]
    return ("pairs with similarity %s reported below min_similarity %s" % (bad, v)) if bad else None


def b_max_sim(data, v):
    bad = [p["similarity"] for p in clone_pairs(data) if p["similarity"] > v + 1e-9]
    return ("pairs with similarity %s reported above max_similarity %s" % (bad, v)) if bad else None


def b_max_dist(data, v):
    bad = [p["distance"] for p in clone_pairs(data) if v > 0 and p["distance"] > v + 1e-9]
    return ("pairs with edit distance %s reported above max_edit_distance %s" % (bad, v)) if bad else None


def b_clone_types(data, v):
    ok = {int(t[4:]) for t in v if t[:4] == "type" and t[4:].isdigit()}
    bad = sorted({p["type"] for p in clone_pairs(data)} - ok)
    return ("pairs of type %s reported, enabled types %s" % (bad, v)) if bad else None


def b_group_clones(data, v):
    n = len((data.get("clone") or {}).get("clone_groups") or [])
    if not v and n:
        return "%d clone groups reported although grouping is off" % n
    return None


OUTDIRS = ["outdir", "out2"]


def report_directory(r):
    """where the report went: "" = .pyscn/reports under the working directory, else the configured directory; None: nowhere / two places."""
    places = [n for n in ["reports"] + OUTDIRS if r.get(n)]
    if len(places) != 1:
        return None
    return "" if places[0] == "reports" else places[0]


def report_format(r):
    exts = sorted({n.rsplit(".", 1)[-1] for d in ["reports"] + OUTDIRS for n in (r.get(d) or [])})
    return exts[0] if len(exts) == 1 else None


def dead_code_ran(r):
    d = r["data"]
    return None if d is None else d.get("dead_code") is not None


ONLY_DEAD = ["--json", "--skip-complexity", "--skip-clones", "--skip-cbo", "--skip-lcom", "--skip-deps"]
SEVS = ["critical", "warning", "info"]
B, I, F_, E, L = "bool", "int", "frac", "enum", "list"
PP, PPOS, PNN, PNE = "PPointer", "PPositive", "PNonNegative", "PNonEmpty"

KEYS = [
    # ---- [complexity] / [output] -------------------------------------------------------------------------------
    Key("complexity", "max_complexity", I, 0, PP, "complexity", path("complexity", "Config", "max_complexity"), [25, 20, 12], rng=(20, BIG)),
    Key("output", "show_details", B, False, PP, "complexity", path("complexity", "Config", "show_details"), [True]),
    Key("output", "sort_by", E, "complexity", PNE, "complexity", path("complexity", "Config", "sort_by"), ["name", "risk", "bogus"],
        rng=(1, 3), domain=["name", "complexity", "risk"], behave=b_cx_sorted),
    # no format flag at all: analyze's own default is HTML; the file's [output] format should replace it
    # ("text", what DefaultPyscnConfig and `pyscn init` carry, is no format of analyze: HTML is kept; part C covers the init file)
    Key("output", "format", E, "html", PNE, "complexity", report_format, ["json", "yaml", "csv", "html", "bogus"], rng=(1, 5),
        domain=["text", "json", "yaml", "csv", "html"], argv=["--select", "complexity,deadcode"], on_result=True, coq_key="key_output_format"),
    # where the report goes
    # (finding C17-G8, repaired: resolveOutputDirectory used to read this key from the file discovered from the target even under --config)
    Key("output", "directory", E, "", PNE, "complexity", report_directory, ["outdir", "out2"], domain=OUTDIRS, argv=["--json", "--select", "complexity"],
        on_result=True),
    # the risk thresholds (their values in force are the business of the option matrix): what the validation refuses
    # (`low_threshold < 1` is tested on a copy that only takes values > 0, config.go:299: 0 and negative values are never refused)
    Key("complexity", "low_threshold", I, 9, PP, "complexity", path("complexity", "Config", "low_threshold"), [0, 19, 25], rng=(-BIG, 18)),
    Key("complexity", "medium_threshold", I, 19, PP, "complexity", path("complexity", "Config", "medium_threshold"), [5, 9], rng=(10, BIG)),
    # ---- [dead_code] -----------------------------------------------------------------------------------------------
    Key("dead_code", "min_severity", E, "warning", PNE, "deadcode", None, ["bogus"], rng=(1, 3), domain=SEVS),
    # the file-side counterpart of --skip-deadcode / --select
    Key("dead_code", "enabled", B, True, PP, "deadcode", dead_code_ran, [False, True], argv=ONLY_DEAD, on_result=True, coq_key="key_dead_code_enabled"),
    Key("dead_code", "show_context", B, False, PP, "deadcode", path("dead_code", "config", "show_context"), [True]),
    Key("dead_code", "context_lines", I, 3, PP, "deadcode", path("dead_code", "config", "context_lines"), [5, 0, 20, 21, -1], rng=(-BIG, 20)),      # `< 0` is tested on a copy that only takes values > 0 (config.go:330): never refused
    Key("dead_code", "sort_by", E, "severity", PNE, "deadcode", path("dead_code", "config", "sort_by"), ["line", "file", "function", "bogus"],
        rng=(1, 4), domain=["severity", "line", "file", "function"], behave=b_dead_sorted),
    Key("dead_code", "detect_after_return", B, True, PP, "deadcode", path("dead_code", "config", "detect_after_return"), [False],
        behave=b_detect("unreachable_after_return"), family="dead_code.detect_switches"),
    Key("dead_code", "detect_after_break", B, True, PP, "deadcode", path("dead_code", "config", "detect_after_break"), [False],
        behave=b_detect("unreachable_after_break"), family="dead_code.detect_switches"),
    Key("dead_code", "detect_after_continue", B, True, PP, "deadcode", path("dead_code", "config", "detect_after_continue"), [False],
        behave=b_detect("unreachable_after_continue"), family="dead_code.detect_switches"),
    Key("dead_code", "detect_after_raise", B, True, PP, "deadcode", path("dead_code", "config", "detect_after_raise"), [False],
        behave=b_detect("unreachable_after_raise"), family="dead_code.detect_switches"),
    Key("dead_code", "detect_unreachable_branches", B, True, PP, "deadcode", path("dead_code", "config", "detect_unreachable_branches"), [False]),
    Key("dead_code", "ignore_patterns", L, [], PNE, "deadcode", path("dead_code", "config", "ignore_patterns"), [["print"], ["^x$", "y"]],
        lists=[["print"], ["^x$", "y"]]),
    # ---- [cbo] -----------------------------------------------------------------------------------------------------
    Key("cbo", "max_cbo", I, 0, PP, "cbo", path("cbo", "Config", "maxCBO"), [4, 2], behave=b_max_cbo),
    Key("cbo", "show_zeros", B, False, PP, "cbo", path("cbo", "Config", "showZeros"), [True], behave=b_show_zeros),
    Key("cbo", "include_builtins", B, False, PP, "cbo", path("cbo", "Config", "includeBuiltins"), [True]),
    Key("cbo", "include_imports", B, True, PP, "cbo", path("cbo", "Config", "includeImports"), [False]),
    # ---- [clones] --------------------------------------------------------------------------------------------------
    Key("clones", "min_lines", I, 10, PPOS, "clones", path("clone", "request", "min_lines"), [3, 40], rng=(1, BIG)),
    Key("clones", "min_nodes", I, 20, PPOS, "clones", path("clone", "request", "min_nodes"), [5], rng=(1, BIG)),
    # 3.0: below the distance of the sample's near-copies, so the limit in force changes what is reported
    Key("clones", "max_edit_distance", F_, 50.0, PPOS, "clones", path("clone", "request", "max_edit_distance"), [30.0, 3.0, 50.0],
        behave=b_max_dist, coq_key="key_clones_max_edit_distance"),
    Key("clones", "cost_model_type", E, "python", PNE, "clones", None, ["bogus"], rng=(1, 3), domain=["default", "python", "weighted"]),
    Key("clones", "ignore_literals", B, False, PP, "clones", path("clone", "request", "ignore_literals"), [True]),
    Key("clones", "ignore_identifiers", B, False, PP, "clones", path("clone", "request", "ignore_identifiers"), [True]),
    Key("clones", "skip_docstrings", B, True, PP, "clones", path("clone", "request", "skip_docstrings"), [True, False],
        coq_key="key_clones_skip_docstrings"),
    Key("clones", "enable_dfa", B, True, PP, "clones", path("clone", "request", "enable_dfa"), [False]),
    Key("clones", "type1_threshold", F_, 0.85, PPOS, "clones", path("clone", "request", "type1_threshold"), [0.95, 0.7, 1.5], rng=(0.7501, 1.0)),
    Key("clones", "type2_threshold", F_, 0.75, PPOS, "clones", path("clone", "request", "type2_threshold"), [0.8, 0.7], rng=(0.7001, 0.8499)),
    Key("clones", "type3_threshold", F_, 0.70, PPOS, "clones", path("clone", "request", "type3_threshold"), [0.72], rng=(0.6501, 0.7499)),
    Key("clones", "type4_threshold", F_, 0.65, PPOS, "clones", path("clone", "request", "type4_threshold"), [0.6, 0.9], rng=(0.0, 0.6999)),
    Key("clones", "similarity_threshold", F_, 0.65, PPOS, "clones", None, [1.5], rng=(0.0, 1.0)),
    Key("clones", "min_similarity", F_, 0.0, PNN, "clones", path("clone", "request", "min_similarity"), [0.8, 1.5], rng=(0.0, 1.0), behave=b_min_sim),
    Key("clones", "max_similarity", F_, 1.0, PPOS, "clones", path("clone", "request", "max_similarity"), [0.8, 1.5], rng=(0.0, 1.0), behave=b_max_sim),
    Key("clones", "enabled_clone_types", L, ["type1", "type2", "type4"], PNE, "clones", clone_types_echo,
        [["type1", "type3"], ["type4"], ["type9"]], rng=(1, 3), lists=[["type1", "type2", "type4"], ["type1", "type3"], ["type4"], ["type9"]],
        behave=b_clone_types),
    Key("clones", "max_results", I, 10000, PPOS, "clones", None, [-1], rng=(0, BIG)),
    Key("clones", "grouping_mode", E, "connected", PNE, "clones", path("clone", "request", "group_mode"), ["star", "k_core", "complete_linkage"],
        domain=["connected", "star", "complete_linkage", "k_core"]),
    Key("clones", "grouping_threshold", F_, 0.65, PPOS, "clones", path("clone", "request", "group_threshold"), [0.9]),
    Key("clones", "k_core_k", I, 2, PPOS, "clones", path("clone", "request", "k_core_k"), [3]),
    Key("clones", "lsh_enabled", E, "auto", PNE, "clones", path("clone", "request", "lsh_enabled"), ["true", "false"], domain=["auto", "true", "false"]),
    Key("clones", "lsh_auto_threshold", I, 500, PPOS, "clones", path("clone", "request", "lsh_auto_threshold"), [2]),
    Key("clones", "lsh_similarity_threshold", F_, 0.5, PPOS, "clones", path("clone", "request", "lsh_similarity_threshold"), [0.7]),
    Key("clones", "lsh_bands", I, 32, PPOS, "clones", path("clone", "request", "lsh_bands"), [16]),
    Key("clones", "lsh_rows", I, 4, PPOS, "clones", path("clone", "request", "lsh_rows"), [8]),
    Key("clones", "lsh_hashes", I, 128, PPOS, "clones", path("clone", "request", "lsh_hashes"), [64]),
    Key("clones", "show_details", B, False, PP, "clones", path("clone", "request", "show_details"), [True], plumbing=("RequestWins", False),
        family="clones.request_wins"),
    Key("clones", "show_content", B, False, PP, "clones", path("clone", "request", "show_content"), [True], plumbing=("RequestWins", False),
        family="clones.request_wins"),
    Key("clones", "sort_by", E, "similarity", PNE, "clones", path("clone", "request", "sort_by"), ["size", "location", "type", "bogus"], rng=(1, 4),
        domain=["similarity", "size", "location", "type"], plumbing=("RequestWins", "similarity"), empty_is_default=True,
        family="clones.request_wins"),
    Key("clones", "group_clones", B, True, PP, "clones", path("clone", "request", "group_clones"), [False], plumbing=("RequestWins", True),
        behave=b_group_clones, family="clones.request_wins"),
    Key("clones", "format", E, "text", PNE, "clones", None, ["bogus"], rng=(1, 4), domain=["text", "json", "yaml", "csv"]),
    Key("clones", "max_memory_mb", I, 100, PPOS, "clones", None, [-5], rng=(1, BIG)),
    # ---- [system_analysis] -------------------------------------------------------------------------------------------
    Key("system_analysis", "enable_dependencies", B, True, PP, "deps", sys_part("DependencyAnalysis"), [False]),
    Key("system_analysis", "enable_architecture", B, True, PP, "deps", sys_part("ArchitectureAnalysis"), [False]),
]

# every other key of every section, with its documented default (DefaultPyscnConfig): only part D2 sets them
OTHER_DEFAULTS = {
    "output": [("min_complexity", "1"), ("directory", '""')],
    "complexity": [("low_threshold", "9"), ("medium_threshold", "19"), ("min_complexity", "1")],
    "dead_code": [("enabled", "true"), ("min_severity", '"warning"')],
    "analysis": [("include_patterns", '["**/*.py"]'), ("exclude_patterns", '["test_*.py", "*_test.py"]'), ("recursive", "true"),
                 ("follow_symlinks", "false")],
    "cbo": [("low_threshold", "3"), ("medium_threshold", "7"), ("min_cbo", "0")],
    "lcom": [("low_threshold", "2"), ("medium_threshold", "5")],
    "clones": [("similarity_threshold", "0.65"), ("batch_size", "100"), ("enable_batching", "true"), ("max_goroutines", "4"),
               ("timeout_seconds", "300"), ("paths", '["."]'), ("recursive", "true"), ("include_patterns", '["**/*.py"]'),
               ("exclude_patterns", '["test_*.py", "*_test.py"]')],
    "architecture": [("enabled", "false"), ("validate_layers", "true"), ("validate_cohesion", "true"), ("validate_responsibility", "true"),
                     ("min_cohesion", "0.5"), ("max_coupling", "10"), ("max_responsibilities", "3"), ("layer_violation_severity", '"error"'),
                     ("cohesion_violation_severity", '"warning"'), ("responsibility_violation_severity", '"warning"'),
                     ("show_all_violations", "false"), ("group_by_type", "true"), ("include_suggestions", "true"),
                     ("max_violations_to_show", "20"), ("custom_patterns", "[]"), ("allowed_patterns", "[]"), ("forbidden_patterns", "[]"),
                     ("strict_mode", "true"), ("fail_on_violations", "false")],
    "system_analysis": [("enabled", "false"), ("use_complexity_data", "true"), ("use_clones_data", "true"), ("use_dead_code_data", "true"),
                        ("generate_unified_report", "true")],
    "dependencies": [("enabled", "false"), ("include_stdlib", "false"), ("include_third_party", "true"), ("follow_relative", "true"),
                     ("detect_cycles", "true"), ("calculate_metrics", "true"), ("find_long_chains", "true"), ("min_coupling", "0"),
                     ("max_coupling", "0"), ("min_instability", "0.0"), ("max_distance", "1.0"), ("sort_by", '"name"'), ("show_matrix", "false"),
                     ("show_metrics", "false"), ("show_chains", "false"), ("generate_dot_graph", "false"), ("cycle_reporting", '"summary"'),
                     ("max_cycles_to_show", "10"), ("show_cycle_paths", "false")],
    "mock_data": [("enabled", "false"), ("min_severity", '"warning"'), ("sort_by", '"severity"'), ("ignore_tests", "true")],
}


def explicit_defaults_toml(prefix=""):
    secs = {}
    for k in KEYS:
        secs.setdefault(k.section, []).append((k.key, k.toml(k.default)))
    for s, kvs in OTHER_DEFAULTS.items():
        secs.setdefault(s, [])
        secs[s] += [kv for kv in kvs if kv[0] not in {x[0] for x in secs[s]}]
    out = ""
    for s in sorted(secs):
        out += "[%s%s]\n" % (prefix, s) + "".join("%s = %s\n" % kv for kv in secs[s]) + "\n"
    return out


# ----------------------------------------------------------------------------------------------
# running
# ----------------------------------------------------------------------------------------------
def write_files(c17, d, names):
    os.makedirs(d, exist_ok=True)
    for n in names:
        with open(os.path.join(d, n), "w") as f:
            f.write(EXTRA_FILES[n] if n in EXTRA_FILES else c17.FILES[n])


def config_text(section, kvs, style):
    body = "".join("%s = %s\n" % kv for kv in kvs)
    if style == "pyproject":
        return "[project]\nname = \"sample\"\n\n[tool.pyscn.%s]\n%s" % (section, body)
    return "[%s]\n%s" % (section, body)


XNAMES = ["custom.toml", "settings.toml", "ci.cfg", "pyscn.conf"]      # the explicit file is named by the user
UNRELATED = "[lcom]\nlow_threshold = 2\n"                                 # a --config file that does not mention the key under test


def run_key_case(args):
    """x = None: the key in a discoverable file of the project (value NOFILE: no file).  x = (mode, dv): `value` is what the --config
    file says (NOFILE: it does not mention the key), dv what a discoverable file of the given style says (NOFILE: there is none)."""
    c17, idx, key, value, style, root = args[:6]
    x = args[6] if len(args) > 6 else None
    top = os.path.join(root, "%skey%04d" % ("x" if x else "", idx))
    d = os.path.join(top, "proj") if x else top
    shutil.rmtree(top, ignore_errors=True)
    write_files(c17, d, SELECT_FILES[key.select] if key is not None else sorted(set(c17.FILES) | set(EXTRA_FILES)))
    disc_value = x[1] if x else value
    files = {}
    if disc_value is not NOFILE:
        name = ".pyscn.toml" if style == "pyscn" else "pyproject.toml"
        files[name] = config_text(key.section, [(key.key, key.toml(disc_value))], style)
        with open(os.path.join(d, name), "w") as f:
            f.write(files[name])
    if key.argv is None:
        argv = ["--json", "--select", key.select]
    else:
        argv = list(key.argv)
    if x:
        cp = os.path.join(top, "cfg", XNAMES[idx % len(XNAMES)])
        os.makedirs(os.path.dirname(cp))
        files["--config"] = UNRELATED if value is NOFILE else config_text(key.section, [(key.key, key.toml(value))], "pyscn")
        with open(cp, "w") as f:
            f.write(files["--config"])
        argv += ["--config", cp]
    rc, out, err = lib.pyscn(["analyze", "--no-open"] + argv + ["."], d, timeout=180)
    data = c17.read_report(d)
    rep = os.path.join(d, ".pyscn", "reports")
    res = dict(reports=sorted(os.listdir(rep)) if os.path.isdir(rep) else [])
    for n in OUTDIRS:
        od = os.path.join(d, n)
        res[n] = sorted(os.listdir(od)) if os.path.isdir(od) else []
        if data is None and res[n] and res[n][-1].endswith(".json"):
            try:
                data = json.load(open(os.path.join(od, res[n][-1])))
            except Exception:
                data = None
    shutil.rmtree(top, ignore_errors=True)
    res.update(rc=rc, data=data, stderr=err[-500:], argv=["analyze", "--no-open"] + argv + ["."], config_files=files)
    return res


BAD_CONFIGS = [("syntax", "[complexity\nmax_complexity = 30\n"), ("type", "[complexity]\nmax_complexity = \"thirty\"\n"),
               ("type-bool", "[dead_code]\ndetect_after_return = 3\n")]


def run_bad_config(args):
    """A configuration file in force that cannot be loaded: the run must be refused, not continued with defaults."""
    c17, idx, cmd, how, kind, text, root = args
    d = os.path.join(root, "badcfg%02d" % idx, "proj")
    shutil.rmtree(os.path.dirname(d), ignore_errors=True)
    write_files(c17, d, ["cxmod.py"])
    argv = ["--select", "complexity" if cmd == "analyze" else "complexity,deadcode,clones"]
    if how == "explicit":
        cp = os.path.join(os.path.dirname(d), "my.toml")
        argv += ["--config", cp]
    else:
        cp = os.path.join(d, how)
    if how == "pyproject.toml":
        text = "[project]\nname = \"x\"\n\n" + text.replace("[", "[tool.pyscn.", 1)
    with open(cp, "w") as f:
        f.write(text)
    if cmd == "analyze":
        rc, data, err = c17.run_analyze(d, argv)
        ran = data is not None
    else:
        rc, lines, err = c17.run_check(d, argv)
        ran = "Code quality check passed" in err or bool(lines)
    shutil.rmtree(os.path.dirname(d), ignore_errors=True)
    return dict(cmd=cmd, how=how, kind=kind, rc=rc, ran=ran, stderr=err[-400:], argv=[cmd] + argv + ["."], config=text)


def run_selection_case(args):
    """does dead code detection run: --select / --skip-deadcode / [dead_code] enabled."""
    c17, idx, select, skip, filev, root = args
    d = os.path.join(root, "deadsel%02d" % idx)
    shutil.rmtree(d, ignore_errors=True)
    write_files(c17, d, ["deadmod.py", "cxmod.py"])
    if filev is not None:
        style = "pyscn" if idx % 2 == 0 else "pyproject"
        with open(os.path.join(d, ".pyscn.toml" if style == "pyscn" else "pyproject.toml"), "w") as f:
            f.write(config_text("dead_code", [("enabled", "true" if filev else "false")], style))
    if select is None:
        argv = ["--json", "--skip-clones", "--skip-cbo", "--skip-lcom", "--skip-deps"] + (["--skip-deadcode"] if skip else [])
    else:
        argv = ["--json", "--select", "complexity,deadcode" if select else "complexity"]
    rc, out, err = lib.pyscn(["analyze", "--no-open"] + argv + ["."], d, timeout=180)
    data = c17.read_report(d)
    shutil.rmtree(d, ignore_errors=True)
    return dict(rc=rc, ran=None if data is None else data.get("dead_code") is not None, stderr=err[-300:], argv=["analyze", "--no-open"] + argv + ["."],
                select=select, skip=skip, file=filev)


class _NoFile:
    def __repr__(self):
        return "<key absent>"


NOFILE = _NoFile()


def canon_full(c17, data):
    """Everything of a report that a configuration could change (no timestamps, durations)."""
    o = c17.canon_report(data)
    for sec, k in (("complexity", "Config"), ("dead_code", "config"), ("clone", "request"), ("cbo", "Config"), ("lcom", "Config")):
        e = dict((data.get(sec) or {}).get(k) or {})
        for vol in ("config_path", "ConfigPath", "output_path", "paths"):
            e.pop(vol, None)
        o["echo_" + sec] = e
    s = data.get("system") or {}
    da = s.get("DependencyAnalysis") or {}
    o["files"] = sorted({os.path.basename(f["FilePath"]) for f in ((data.get("complexity") or {}).get("Functions") or [])})
    o["system"] = {"deps": s.get("DependencyAnalysis") is not None, "arch": s.get("ArchitectureAnalysis") is not None,
                   "modules": sorted(m.split(".")[-1] for m in (da.get("ModuleMetrics") or {})),
                   "cycles": ((da.get("CircularDependencies") or {}).get("TotalCycles"))}
    return o


def run_defaults_case(args):
    c17, name, toml, root = args
    d = os.path.join(root, "defaults_" + name.replace("+", "_"), "proj")
    shutil.rmtree(os.path.dirname(d), ignore_errors=True)
    stub = name.endswith("+pyi")
    write_files(c17, d, sorted((set(c17.FILES) | set(EXTRA_FILES)) - (set() if stub else {"stubs.pyi"})))
    if toml is not None:
        with open(os.path.join(d, "pyproject.toml" if name == "pyproject" else ".pyscn.toml"), "w") as f:
            f.write(toml)
    rc, data, err = c17.run_analyze(d, ["--min-complexity", "1"] + (["--select", "complexity"] if stub else []))
    shutil.rmtree(os.path.dirname(d), ignore_errors=True)
    return dict(name=name, rc=rc, data=data, stderr=err[-500:])


class KeySweep:
    """start() launches the runs on a thread pool of its own (they overlap the other parts of C17); coq_job() gives the Coq
    evaluation to be batched with the others; decide(output) reports."""

    def __init__(self, ck, c17, root, thorough):
        self.ck, self.c17, self.root, self.thorough = ck, c17, root, thorough
        rng = ck.rng
        self.cases = []          # (key, value)
        for k in KEYS:
            self.cases.append((k, NOFILE))
            for v in k.values:
                self.cases.append((k, v))
        self.absent_runs, self.jobs, self.where = {}, [], []
        for (k, v) in self.cases:
            if v is NOFILE:
                ak = (k.select, tuple(k.argv or ()))
                self.where.append(("absent", ak))
                if ak in self.absent_runs:
                    continue
                self.absent_runs[ak] = len(self.jobs)
            else:
                self.where.append(("job", len(self.jobs)))
            style = "pyscn" if (v is NOFILE or thorough) else rng.choice(["pyscn", "pyproject"])
            self.jobs.append((c17, len(self.jobs), k, v, style, root))
        if thorough:        # both styles for every value
            for (k, v) in list(self.cases):
                if v is not NOFILE:
                    self.cases.append((k, v))
                    self.where.append(("job", len(self.jobs)))
                    self.jobs.append((c17, len(self.jobs), k, v, "pyproject", root))
        # ---- (D1x) the keys under an explicit --config file: (key, mode, value in the --config file, value in the discoverable file) ----
        self.xcases, self.xjobs = [], []
        for k in KEYS:
            # a value that can be observed: one that loads when the key has an echo, else one whose refusal shows
            cand = [x for x in k.values if x != k.default and (k.valid(x) if k.echo is not None else not k.valid(x))]
            if not cand:
                continue
            for ev in (cand if thorough else [rng.choice(cand)]):
                others = []
                for x in list(k.values) + [k.default]:
                    if x != ev and k.valid(x) and x not in others:
                        others.append(x)
                self.xcases.append((k, "alone", ev, NOFILE))
                if others:
                    self.xcases.append((k, "against", ev, rng.choice(others)))
            loads = [x for x in cand if k.valid(x)]
            if loads:
                self.xcases.append((k, "lacks", NOFILE, rng.choice(loads)))
        for (k, mode, ev, dv) in self.xcases:
            self.xjobs.append((c17, len(self.xjobs), k, ev, rng.choice(["pyscn", "pyproject"]), root, (mode, dv)))
        # (name, file text); "...+pyi": a project with a stub file, a configuration file that only sets an unrelated key to its default
        self.djobs = [(c17, "nofile", None, root), (c17, "pyscn", explicit_defaults_toml(""), root),
                      (c17, "pyproject", "[project]\nname = \"sample\"\n\n" + explicit_defaults_toml("tool.pyscn."), root),
                      (c17, "nofile+pyi", None, root), (c17, "minimal+pyi", "[lcom]\nlow_threshold = 2\n", root),
                      # the stub project again: an empty configuration file, and one that spells out every default
                      (c17, "empty+pyi", "# no keys\n", root), (c17, "pyscn+pyi", explicit_defaults_toml(""), root)]
        self.bjobs = []
        for cmd in ("analyze", "check"):
            for how in (".pyscn.toml", "pyproject.toml", "explicit"):
                kind, text = rng.choice(BAD_CONFIGS) if not thorough else BAD_CONFIGS[len(self.bjobs) % len(BAD_CONFIGS)]
                if how == "pyproject.toml" and kind == "syntax":
                    kind, text = BAD_CONFIGS[1]      # an unparsable pyproject.toml is not recognisably pyscn's: skipped like any other
                self.bjobs.append((c17, len(self.bjobs), cmd, how, kind, text, root))
        # (--select: None / names deadcode / does not, --skip-deadcode, [dead_code] enabled: absent / true / false)
        self.sjobs = [(c17, i, sel, skip, fv, root) for i, (sel, skip, fv) in enumerate(
            [(None, False, None), (None, False, False), (None, False, True), (None, True, None), (None, True, True), (None, True, False),
             (True, False, False), (True, False, None), (True, False, True), (False, False, True), (False, False, False), (False, False, None)])]
        self.ex = self.fut = self.fut_d = self.fut_b = self.fut_s = None

    def start(self, workers=8):
        self.ex = ThreadPoolExecutor(max_workers=workers)
        self.fut_d = [self.ex.submit(run_defaults_case, j) for j in self.djobs]
        self.fut = [self.ex.submit(run_key_case, j) for j in self.jobs]
        self.fut_x = [self.ex.submit(run_key_case, j) for j in self.xjobs]
        self.fut_b = [self.ex.submit(run_bad_config, j) for j in self.bjobs]
        self.fut_s = [self.ex.submit(run_selection_case, j) for j in self.sjobs]

    def wait(self):
        impl = [f.result() for f in self.fut]
        self.dres = [f.result() for f in self.fut_d]
        self.bres = [f.result() for f in self.fut_b]
        self.sres = [f.result() for f in self.fut_s]
        self.xres = [f.result() for f in self.fut_x]
        self.ex.shutdown()
        self.res = [impl[self.absent_runs[w[1]]] if w[0] == "absent" else impl[w[1]] for w in self.where]

    @staticmethod
    def file_arg(k, v):
        return "None" if v is NOFILE else "(Some %s)" % cZ(k.enc(v))

    @staticmethod
    def observed(k, r):
        """the outcome as a Coq term, or None when it cannot be read."""
        if k.on_result:
            if r["rc"] != 0 and not r["reports"] and not any(r[n] for n in OUTDIRS):
                return "Rejected"
            e = k.echo(r)
            return None if e is None else "(InForce %s)" % cZ(k.enc(e))
        sec = {"complexity": "complexity", "deadcode": "dead_code", "clones": "clone", "cbo": "cbo", "deps": "system"}[k.select]
        if r["data"] is None or r["data"].get(sec) is None:
            return "Rejected" if r["rc"] != 0 else None
        if k.echo is None:
            return None
        e = k.echo(r["data"])
        if e is None:
            return None
        return "(InForce %s)" % cZ(k.enc(e))

    def coq_job(self):
        terms = []
        for (k, v), r in zip(self.cases, self.res):
            o = self.observed(k, r)
            terms.append("(%s, %s)" % (k.coq_run(self.file_arg(k, v)),
                                       "Some (%s)" % k.coq_judge(self.file_arg(k, v), o) if o else "@None bool"))
        # under --config: the property judges the explicit file's cell; the code model reads the file the code reads the key from
        xterms = []
        for (k, mode, ev, dv), r in zip(self.xcases, self.xres):
            o = self.observed(k, r)
            rule_arg = self.file_arg(k, ev)
            code_arg = rule_arg if k.explicit_source == "explicit" else self.file_arg(k, dv)
            xterms.append("(%s, %s)" % (k.coq_run(code_arg), "Some (%s)" % k.coq_judge(rule_arg, o) if o else "@None bool"))
        # the instances of Cli/ConfigKeysWiring.v against this table: (presence, default, lo, hi) must be the same
        inst = ["(match k_presence %s with %s => true | _ => false end && (k_default %s =? %s) && (k_lo %s =? %s) && (k_hi %s =? %s))"
                % (k.coq_key, k.presence, k.coq_key, cZ(k.enc(k.default)), k.coq_key, cZ(self.coq_range(k)[0]), k.coq_key, cZ(self.coq_range(k)[1]))
                for k in KEYS if k.coq_key]
        body = "Eval vm_compute in %s.\n" % clist(terms)
        body += "Eval vm_compute in (%s : list bool).\n" % clist(inst)
        body += "Eval vm_compute in (%s : list (list dead_reason * list dead_reason)).\n" % clist(self.detect_terms())
        cb = lambda b: "None" if b is None else ("(Some true)" if b else "(Some false)")
        body += "Eval vm_compute in (%s : list (bool * bool)).\n" % clist(
            ["run_dead_code_runs %s %s %s" % (cb(r["select"]), "true" if r["skip"] else "false", cb(r["file"])) for r in self.sres])
        body += "Eval vm_compute in %s.\n" % clist(xterms)
        return ("C17_keys", REQ, body)

    # which file is in force in the layouts of (D1x): Cli/Discovery.v resolve / spec_resolve (evaluated with c17.REQ)
    XLAYOUTS = [("none",), ("pyscn",), ("tool",)]

    def discovery_job(self):
        c17 = self.c17
        cases = [dict(cmd="analyze", target=list(t), cwd=None, explicit="file", target_file=False) for t in self.XLAYOUTS]
        return ("C17_keys_explicit_layouts", c17.REQ, "Eval vm_compute in %s.\n" % clist([c17.coq_discovery(c) for c in cases]))

    @staticmethod
    def coq_range(k):
        lo, hi = k.rng
        if k.kind == "frac" and k.rng != NOVAL:
            lo, hi = int(round(lo * 10000)), int(round(hi * 10000))
        return lo, hi

    # ---- [dead_code] detect_*: which kinds of findings are reported, against reported / switch_of of Cli/ConfigKeysWiring.v ----
    DETECT = ["detect_after_return", "detect_after_break", "detect_after_continue", "detect_after_raise", "detect_unreachable_branches"]
    REASON = {"unreachable_after_return": "RAfterReturn", "unreachable_after_break": "RAfterBreak", "unreachable_after_continue": "RAfterContinue",
              "unreachable_after_raise": "RAfterRaise", "unreachable_branch": "RBranch"}

    def detect_cases(self):
        """(key, value, reasons reported without a configuration file, reasons reported with the key set)"""
        res = []
        for (k, v), r in zip(self.cases, self.res):
            if k.section == "dead_code" and k.key in self.DETECT and v is not NOFILE and r["data"] is not None and r["data"].get("dead_code"):
                base = self.res[[i for i, (k2, v2) in enumerate(self.cases) if k2 is k and v2 is NOFILE][0]]
                if base["data"] is None or not base["data"].get("dead_code"):
                    continue
                res.append((k, v, sorted(x["reason"] for x in dead_findings(base["data"])), sorted(x["reason"] for x in dead_findings(r["data"]))))
        return res

    def detect_terms(self):
        terms = []
        for k, v, base, got in self.detect_cases():
            sw = " ".join(("true" if not (name == k.key and not v) else "false") for name in self.DETECT)
            terms.append("run_detect %s %s" % (sw, clist([self.REASON.get(x, "ROtherReason") for x in base])))
        return terms

    def decide(self, out, out_layouts=None):
        ck, c17, cases, res, dres, djobs = self.ck, self.c17, self.cases, self.res, self.dres, self.djobs
        model = inst = detect = selm = xmodel = None
        try:
            vals = lib.parse_coq_values(out)
            model, inst, detect, selm, xmodel = vals[0], vals[1], vals[2], vals[3], vals[4]
            if len(model) != len(cases) or len(xmodel) != len(self.xcases):
                raise RuntimeError("%d + %d values for %d + %d cases" % (len(model), len(xmodel), len(cases), len(self.xcases)))
        except Exception as e:
            ck.broken_ties.append("key sweep: model evaluation failed: %s" % str(e)[-800:])
            model = inst = detect = selm = xmodel = None
        # (D1x) rests on: with --config <file> that file is in force whatever the project holds (Cli/Discovery.v, code model and rule)
        layouts_ok = False
        try:
            lay = lib.parse_coq_values(out_layouts)[0]
            layouts_ok = len(lay) == len(self.XLAYOUTS)
            for t, (msrc, ssrc, f24) in zip(self.XLAYOUTS, lay):
                if tuple(ssrc) != ("SExplicit", 0) or tuple(msrc) != ("SExplicit", 0):
                    layouts_ok = False
                    ck.broken_ties.append("key sweep: --config with a project holding %s: Cli/Discovery.v says the file in force is %s (rule) / %s (code model), "
                                          "the explicit-file cases assume the explicit file" % (t, ssrc, msrc))
        except Exception as e:
            ck.broken_ties.append("key sweep: evaluation of the --config layouts (Cli/Discovery.v) failed: %s" % str(e)[-400:])
        if inst is not None:
            for k, same in zip([k for k in KEYS if k.coq_key], inst):
                if same is not True:
                    ck.broken_ties.append("key sweep: presence / default / range of [%s] %s in harness/c17keys.py differ from %s (Cli/ConfigKeysWiring.v)"
                                          % (k.section, k.key, k.coq_key))
        st = dict(key_cases=len(cases), keys=len(KEYS), spec_bad=0, tie_bad=0, known=0, behaviour_checked=0, rejected=0, unreadable=0,
                  by_plumbing={}, both_styles=self.thorough)
        nshown = 0
        st["explicit_config_cases"] = len(self.xcases) if layouts_ok else 0
        st["explicit_config_by_mode"] = {}
        # (key, the value the rule takes from the file in force, run, model entry, None | (mode, --config value, discoverable value))
        entries = [(k, v, r, None if model is None else model[i], None) for i, ((k, v), r) in enumerate(zip(cases, res))]
        if layouts_ok:
            entries += [(k, ev, r, None if xmodel is None else xmodel[i], (mode, ev, dv)) for i, ((k, mode, ev, dv), r) in enumerate(zip(self.xcases, self.xres))]
        for (k, v, r, mentry, how) in entries:
            o = self.observed(k, r)
            tags = {"part": "key", "key": k.name, "family": k.family, "config": "explicit" if how else "discovered",
                    "cell": "absent" if v is NOFILE else ("default" if v == k.default else "nondefault")}
            replay = {"key": "[%s] %s" % (k.section, k.key), "file_value": None if v is NOFILE else k.toml(v), "argv": r["argv"], "exit": r["rc"],
                      "observed": o, "stderr": r["stderr"], "files": SELECT_FILES[k.select], "config_files": r.get("config_files")}
            desc = "absent" if v is NOFILE else "= " + k.toml(v)
            if how:
                mode, ev, dv = how
                tags["explicit_mode"] = mode
                st["explicit_config_by_mode"][mode] = st["explicit_config_by_mode"].get(mode, 0) + 1
                replay["explicit_mode"] = mode
                tv, tdv = ("" if v is NOFILE else k.toml(v)), ("" if dv is NOFILE else k.toml(dv))
                desc = {"alone": "= %s in the --config file, no other configuration file" % tv,
                        "against": "= %s in the --config file, = %s in the project's own file" % (tv, tdv),
                        "lacks": "not mentioned in the --config file, = %s in the project's own file" % tdv}[mode]
            st["by_plumbing"][k.plumbing[0]] = st["by_plumbing"].get(k.plumbing[0], 0) + 1
            if o == "Rejected":
                st["rejected"] += 1
            if o is None:
                st["unreadable"] += 1
                if k.echo is not None:
                    ck.broken_ties.append("key sweep: the value in force cannot be read from the report for %s %s" % (k.name, desc))
            if mentry is None:
                continue
            m_out, m_ok, judged = mentry
            m_txt = "Rejected" if m_out == "Rejected" else "(InForce %s)" % cZ(m_out[1])
            replay["model"] = m_txt
            if o is None:
                # no echo for this key: only a refusal is observable
                if m_out == "Rejected" and r["rc"] == 0:
                    ck.broken_ties.append("key sweep: %s %s is accepted, the model says the run is refused" % (k.name, desc))
                continue
            ok = judged[1] if isinstance(judged, tuple) else None
            if ok is not True:
                e = ck.match_known(tags)
                if e and o == m_txt:
                    st["known"] += 1
                    ck.known_finding(e)
                else:
                    st["spec_bad"] += 1
                    nshown += 1
                    if nshown <= 8:
                        ck.violation("analyze: [%s] %s %s: the run has %s, the rule (%sfile value when the key is present, else the default %s) says otherwise"
                                     % (k.section, k.key, desc, "been refused" if o == "Rejected" else "the value %s in force" % describe(k, r),
                                        "an explicit --config is the file in force; " if how else "", k.toml(k.default)), replay)
            if o != m_txt:
                st["tie_bad"] += 1
                if ok is True and st["tie_bad"] <= 4:
                    ck.broken_ties.append("key sweep: [%s] %s %s: pyscn %s, model Cli/ConfigKeys.v %s" % (k.section, k.key, desc, o, m_txt))
                continue
            # behaviour: the echoed value is the one the analysis used
            if k.behave is not None and o != "Rejected" and r["data"] is not None:
                st["behaviour_checked"] += 1
                inforce = k.echo(r["data"])
                bad = k.behave(r["data"], inforce)
                if bad:
                    e = ck.match_known({"part": "key-behaviour", "key": k.name, "family": k.family})
                    if e:
                        st["known"] += 1
                        ck.known_finding(e)
                    else:
                        st["spec_bad"] += 1
                        ck.violation("analyze: [%s] %s: the report echoes the value %s but %s" % (k.section, k.key, json.dumps(inforce), bad), replay)

        # ---- [dead_code] detect_*: the kinds of findings reported, against the model and the property ------------------------
        st["detect_cases"] = 0
        if detect is not None:
            dcases = self.detect_cases()
            if len(detect) != len(dcases):
                ck.broken_ties.append("key sweep: %d detect_* evaluations for %d cases" % (len(detect), len(dcases)))
            else:
                coq_of = lambda rs: sorted(self.REASON.get(x, "ROtherReason") for x in rs)
                for (k, v, base, got), (m_rep, s_rep) in zip(dcases, detect):
                    st["detect_cases"] += 1
                    replay = {"key": "[dead_code] %s" % k.key, "file_value": k.toml(v), "files": SELECT_FILES[k.select],
                              "reported_without_file": base, "reported": got, "model": m_rep, "spec": s_rep}
                    if coq_of(got) != sorted(s_rep):
                        e = ck.match_known({"part": "key-behaviour", "key": k.name, "family": k.family})
                        if e and coq_of(got) == sorted(m_rep):
                            st["known"] += 1
                            ck.known_finding(e)
                        else:
                            st["spec_bad"] += 1
                            ck.violation("analyze: [dead_code] %s = %s: findings of the kinds %s are reported, the switches select %s"
                                         % (k.key, k.toml(v), got, sorted(s_rep)), replay)
                    elif coq_of(got) != sorted(m_rep):
                        st["tie_bad"] += 1
                        ck.broken_ties.append("key sweep: [dead_code] %s = %s: pyscn reports %s, model Cli/ConfigKeysWiring.v %s" % (k.key, k.toml(v), got, m_rep))

        # ---- does dead code detection run: --select / --skip-deadcode over [dead_code] enabled over the default -------------
        st["dead_code_selection_cases"] = len(self.sres)
        if selm is not None and len(selm) == len(self.sres):
            for r, (m_runs, s_runs) in zip(self.sres, selm):
                replay = dict(r, files=["deadmod.py", "cxmod.py"], model=m_runs, spec=s_runs,
                              config=None if r["file"] is None else "[dead_code] enabled = %s" % ("true" if r["file"] else "false"))
                if r["ran"] is None:
                    ck.broken_ties.append("key sweep: no report for %s" % " ".join(r["argv"]))
                elif r["ran"] != s_runs:
                    e = ck.match_known({"part": "key", "key": "dead_code.enabled", "family": "dead_code.enabled",
                                        "cell": "absent" if r["file"] is None else ("default" if r["file"] else "nondefault")})
                    if e and r["ran"] == m_runs:
                        st["known"] += 1
                        ck.known_finding(e)
                    else:
                        st["spec_bad"] += 1
                        ck.violation("analyze %s with %s: dead code detection %s, precedence (--select / --skip-deadcode, else the file, else on) says it %s"
                                     % (" ".join(r["argv"][2:-1]), replay["config"] or "no configuration file", "runs" if r["ran"] else "does not run",
                                        "runs" if s_runs else "does not run"), replay)
                elif r["ran"] != m_runs:
                    st["tie_bad"] += 1
                    ck.broken_ties.append("key sweep: %s, %s: dead code detection %s, model Cli/ConfigKeysWiring.v says %s"
                                          % (" ".join(r["argv"]), replay["config"], r["ran"], m_runs))
        elif selm is not None:
            ck.broken_ties.append("key sweep: %d dead_code_runs evaluations for %d runs" % (len(selm), len(self.sres)))

        # ---- (D3) a configuration file that cannot be loaded ------------------------------------------------------------
        st["unloadable_config_runs"] = len(self.bres)
        for r in self.bres:
            if r["rc"] == 0 or r["ran"]:
                st["spec_bad"] += 1
                ck.violation("pyscn %s goes on although its configuration file (%s, %s error) cannot be loaded: exit %s"
                             % (r["cmd"], r["how"], r["kind"], r["rc"]), r)

        # ---- (D2) explicit defaults ------------------------------------------------------------------------------------
        st["explicit_defaults"] = []
        for j, r in enumerate(dres):
            if r["name"].startswith("nofile"):
                continue
            base = dres[3] if r["name"].endswith("+pyi") else dres[0]
            if base["data"] is None:
                ck.broken_ties.append("key sweep: analyze without configuration wrote no report: %s" % base["stderr"][-300:])
                continue
            cb = canon_full(c17, base["data"])
            what = {"minimal+pyi": "a configuration file that only sets [lcom] low_threshold to its default", "empty+pyi": "an empty configuration file",
                    "pyscn+pyi": "a .pyscn.toml that spells out every key with its documented default (project with a .pyi stub)"}.get(
                        r["name"], "a %s file that spells out every key with its documented default" % r["name"])
            if r["data"] is None:
                st["spec_bad"] += 1
                ck.violation("analyze refuses %s (exit %s): %s" % (what, r["rc"], r["stderr"][-300:]), {"style": r["name"], "config": djobs[j][2]})
                continue
            cr = canon_full(c17, r["data"])
            diffs = ["%s: %s vs %s" % (kk, json.dumps(cb.get(kk), default=str)[:160], json.dumps(cr.get(kk), default=str)[:160])
                     for kk in sorted(set(cb) | set(cr)) if cb.get(kk) != cr.get(kk)]
            st["explicit_defaults"].append({"style": r["name"], "same": not diffs})
            if diffs or r["rc"] != base["rc"]:
                only_pyi = set(cb.get("files") or []) - set(cr.get("files") or []) == {"stubs.pyi"} and set(cr.get("files") or []) <= set(cb.get("files") or [])
                e = ck.match_known({"part": "explicit-defaults", "style": r["name"], "only_the_pyi_file_dropped": only_pyi})
                if e:
                    st["known"] += 1
                    ck.known_finding(e)
                else:
                    st["spec_bad"] += 1
                    ck.violation("%s changes the results: %s" % (what, "; ".join(diffs)[:900]), {"style": r["name"], "config": djobs[j][2], "diffs": diffs})
        return st


def describe(k, r):
    try:
        return json.dumps(k.echo(r if k.on_result else r["data"]))
    except Exception:
        return "?"
