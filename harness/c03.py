"""C03 — cyclomatic complexity equals the McCabe decision count; risk level by thresholds."""
import os

import lib
import pygen
import cfgcommon as cc

C03_CONSTRUCTS = ['simple', 'pass', 'return', 'break', 'continue', 'if', 'while', 'for', 'try', 'comp', 'def', 'class']
THRESHOLDS = [(9, 19), (1, 2), (2, 4), (3, 5), (5, 6), (4, 12)]


def no_finally(mod_ast):
    """Drop finally clauses (the property's construct list has except handlers only)."""
    def blk(b):
        return [st(s) for s in b]

    def st(s):
        c = s[0]
        if c == 'if':
            return ('if', s[1], blk(s[2]), [(k, blk(b)) for k, b in s[3]], None if s[4] is None else blk(s[4]))
        if c in ('while', 'for'):
            return (c, s[1], blk(s[2]), None if s[3] is None else blk(s[3]))
        if c == 'try':
            hs = [(k, blk(b)) for k, b in s[3]] or [(0, [('simple', 0)])]
            return ('try', s[1], blk(s[2]), hs, None if s[4] is None else blk(s[4]), None)
        if c in ('def', 'class'):
            return (c, s[1], s[2], blk(s[3]))
        return s
    return blk(mod_ast)


F8_TAGS = {"class": "comprehension-extra-if-clauses"}


def surplus_ifs(body, dead):
    """Finding F8: the `if` clauses after the first one of every `for` clause of the statement-level comprehensions of one
    function (nested defs are functions of their own) that are not in the code pyscn itself reports dead.
    Same quantity as Cfg/FlowMcCabe.v surplus_ifs (theorem C03_mccabe_up_to_extra_ifs: model + surplus = spec)."""
    return sum(max(0, n - 1) for st in pygen.own_statements(body) if st[0] == 'comp' and st[1] not in dead for n in st[2])


def risk_of(c, lo, med):
    return "low" if c <= lo else "medium" if c <= med else "high"


def main(tier):
    ck = lib.Check("C03", tier)
    ck.prepare("C03.v")
    rng = ck.rng
    thorough = tier == "thorough"
    n_mod = 400 if thorough else 60
    raw = cc.gen_modules(rng, n_mod, dict(max_depth=4, max_len=4, n_funcs=4, constructs=C03_CONSTRUCTS))
    raw += cc.gen_modules(rng, n_mod // 2, dict(max_depth=5, max_len=3, n_funcs=2, constructs=['simple', 'if', 'while', 'for', 'try', 'comp', 'return', 'break']))
    mods = []
    for m in raw:
        # regenerate layout after removing finally clauses
        ast0 = no_finally(m["ast"])
        ast, lines = pygen.layout(ast0)
        mods.append({"ast": ast, "lines": lines})
    # the remaining constructs (outside the property's list) are kept as a tie-only stream
    extra = cc.gen_modules(rng, n_mod // 3, dict(max_depth=3, max_len=4, n_funcs=3))
    for m in extra:
        m["extra"] = True
    mods += extra
    # small-scope exhaustion: every legal body with <= 2 (thorough: 3) statement nodes, plain and wrapped in a loop with else
    small = pygen.modules_from_bodies(pygen.enum_function_bodies(3 if thorough else 2))
    mods += small
    # frame compositions: every nesting (depth <= 2; depth 3 sampled, thorough: all) of try/finally, try/except(/else/finally),
    # loops with and without a terminating else, with, if/elif/else, match around each terminator, code after every frame
    fb2, _ = pygen.enum_frame_bodies(2)
    fb3, _ = pygen.enum_frame_bodies(3, rng, None if thorough else 700)
    mods += pygen.modules_from_bodies(fb2 + fb3[len(fb2) if thorough else 0:])
    mods += pygen.modules_from_bodies(pygen.arm_chain_bodies())
    # comprehension clauses: every combination of 0..3 if clauses on one and two for clauses, live, nested and dead
    mods += pygen.modules_from_bodies(pygen.comp_clause_bodies())
    # async defs, methods and decorated definitions (the files of this check are not executed): every third module
    for m in mods[::3]:
        if not m.get("dup"):
            m["ast"], m["lines"] = pygen.layout(m["ast"], deco_rng=rng)
    d = lib.fresh_dir("c03")
    cc.write_modules(mods, d)
    stats = dict(functions=0, c03_functions=0, complexity_hist={}, risk_checks=0, dead_decisions=0, extra_functions=0,
                 extra_complexity_differs=0, decided_equal_to_spec=0, comp_clauses_by_ifs={}, functions_with_live_multi_if_clause=0,
                 f8_functions=0, f8_surplus_hist={})
    nviol = tie = 0
    try:
        model_ok = cc.coq_analyse(mods, "C03") and cc.coq_build(mods, "C03")
    except Exception as e:
        model_ok = False
        ck.broken_ties.append("model evaluation failed: " + str(e)[-1500:])
    first = True
    recheck = []
    for (lo, med) in (THRESHOLDS if thorough else THRESHOLDS[:4]):
        cfg = os.path.join(d, ".pyscn.toml")
        if (lo, med) == (9, 19):
            if os.path.exists(cfg):
                os.remove(cfg)
        else:
            with open(cfg, "w") as f:
                f.write("[complexity]\nlow_threshold = %d\nmedium_threshold = %d\n" % (lo, med))
        rc, data, err = cc.run_pyscn(d)
        if data is None:
            ck.broken_ties.append("pyscn produced no report with thresholds %s (rc=%s): %s" % ((lo, med), rc, err[-400:]))
            continue
        cc.index_report(data, mods)
        for m in mods:
            defs = cc.def_table(m)
            rows = {}
            for r in m["impl_funcs"]:
                rows.setdefault(r["name"], []).append(r)
            for name, lst in defs.items():
                s, path = lst[0]
                k0 = s[1]
                row = rows.get(name)
                if not row:
                    # whether every definition is reported is property C04; C03 speaks about the values that are reported
                    stats["functions_without_row"] = stats.get("functions_without_row", 0) + 1
                    continue
                row = row[0]
                c = row["complexity"]
                # risk level follows the thresholds, for every function
                stats["risk_checks"] += 1
                if row["risk"] != risk_of(c, lo, med) and nviol < 3:
                    nviol += 1
                    ck.violation("risk level %s of %s does not follow complexity %d with thresholds low<=%d medium<=%d"
                                 % (row["risk"], name, c, lo, med),
                                 {"kind": "risk", "file": m["path"], "function": name, "complexity": c, "thresholds": [lo, med], "impl": row})
                if not first or not model_ok:
                    continue
                rec = [r for r in m["model"] if r["k"] == k0][0]
                stats["functions"] += 1
                bcx = m["builder"].get(k0, {}).get("cx")
                if bcx is not None and c != bcx:
                    same_dead = sorted((a, e) for (a, e, *_r) in m["impl_dead"].get(name, [])) == m["builder"][k0].get("ranges")
                    if same_dead or m.get("extra") or not rec["c03"]:
                        # same dead code but another count, or a function outside the construct list that only the graph model can decide
                        tie += 1
                        if tie <= 3:
                            ck.broken_ties.append("builder tie: complexity of %s in %s: pyscn %d, Builder.v %d%s"
                                                  % (name, m["path"], c, bcx, "" if same_dead else " (the dead ranges differ as well)"))
                    else:
                        stats["complexity_differs_with_dead_set"] = stats.get("complexity_differs_with_dead_set", 0) + 1
                if m.get("extra") or not rec["c03"]:
                    stats["extra_functions"] += 1
                    if c != rec["cx"]:
                        stats["extra_complexity_differs"] += 1
                    continue
                stats["c03_functions"] += 1
                stats["complexity_hist"][str(c)] = stats["complexity_hist"].get(str(c), 0) + 1
                # dead set seen by pyscn must be the model's (so that "not counted when dead" refers to pyscn's own findings)
                ranges = m["impl_dead"].get(name, [])
                nomark, elif_ids = cc.unobservable_ids(s[3])
                own = {st[1] for st in pygen.own_statements(s[3]) if st[0] != 'try'}
                impl_dead = {k for k in own if cc.covered(k, ranges)}
                model_dead = {k for k in rec["dead"] if k in own}
                if impl_dead != model_dead:
                    # the property is relative to the code pyscn itself reports dead: decided below against pyscn's own dead set
                    # (which statements are dead is the business of C01/C02, not a broken tie of C03)
                    stats["dead_set_differs_from_model"] = stats.get("dead_set_differs_from_model", 0) + 1
                    recheck.append((m, name, k0, sorted(impl_dead), c, surplus_ifs(s[3], impl_dead)))
                    continue
                sur = surplus_ifs(s[3], impl_dead)
                stats["dead_decisions"] += rec["cx"] + sur != rec["mccabe"] or 0
                stats["functions_with_live_multi_if_clause"] += sur > 0
                for st_ in pygen.own_statements(s[3]):
                    if st_[0] == 'comp':
                        for n_ in st_[2]:
                            stats["comp_clauses_by_ifs"][str(n_)] = stats["comp_clauses_by_ifs"].get(str(n_), 0) + 1
                if c == rec["mccabe"]:
                    stats["decided_equal_to_spec"] += 1
                kf = ck.match_known(F8_TAGS) if (c != rec["mccabe"] and sur > 0 and c + sur == rec["mccabe"]) else None
                if kf is not None:
                    # finding F8: the function has a live comprehension whose for clause carries two or more ifs and pyscn's value
                    # is short of the property's by exactly those extra if clauses (nothing else is excused)
                    ck.known_finding(kf)
                    stats["f8_functions"] += 1
                    stats["f8_surplus_hist"][str(sur)] = stats["f8_surplus_hist"].get(str(sur), 0) + 1
                    if c != rec["cx"]:
                        tie += 1
                        ck.broken_ties.append("model tie: complexity of %s: pyscn %d, Flow.v %d" % (name, c, rec["cx"]))
                elif c != rec["mccabe"]:
                    if nviol < 3:
                        nviol += 1
                        ck.violation("complexity of %s is %d but one plus its live decision points (if/elif tests, loops, except handlers, "
                                     "comprehension clauses) is %d%s" % (name, c, rec["mccabe"], "" if not sur else
                                     " (%d of the difference are the if clauses of known finding F8, the rest is not)" % sur),
                                     {"kind": "mccabe", "file": m["path"], "source": m["lines"], "function": name, "impl": c,
                                      "spec_mccabe": rec["mccabe"], "model": rec["cx"], "dead_statements": sorted(model_dead),
                                      "surplus_if_clauses_of_live_comprehensions(F8)": sur})
                elif c != rec["cx"]:
                    tie += 1
                    ck.broken_ties.append("model tie: complexity of %s: pyscn %d, Flow.v %d" % (name, c, rec["cx"]))
        first = False
    # search for a failing input when the tie is broken: McCabe number w.r.t. pyscn's own dead set
    if recheck:
        try:
            items = ["(mccabe_at %s %d %s)" % (pygen.coq_block(m["ast"]), k0, lib.clist(["%d" % k for k in dead]))
                     for (m, name, k0, dead, c, sur) in recheck[:40]]
            out = lib.coq_eval("C03_recheck", cc.REQ, "Eval vm_compute in %s.\n" % lib.clist(items))
            vals = lib.parse_coq_values(out)[0]
            if len(recheck) > 40:
                ck.broken_ties.append("model tie: dead statements differ from Flow.v in %d functions; only the first 40 were re-decided against pyscn's own dead set" % len(recheck))
            for (m, name, k0, dead, c, sur), v in zip(recheck, vals):
                kf = ck.match_known(F8_TAGS) if (v != c and sur > 0 and c + sur == v) else None
                if kf is not None:
                    ck.known_finding(kf)
                    stats["f8_functions"] += 1
                    stats["f8_surplus_hist"][str(sur)] = stats["f8_surplus_hist"].get(str(sur), 0) + 1
                elif v != c and nviol < 3:
                    nviol += 1
                    ck.violation("complexity of %s is %d but one plus the decision points outside the code pyscn itself reports dead is %d"
                                 % (name, c, v), {"kind": "mccabe", "file": m["path"], "source": m["lines"], "function": name,
                                                  "impl": c, "spec_mccabe_with_impl_dead_set": v, "impl_dead_statements": dead,
                                                  "surplus_if_clauses_of_live_comprehensions(F8)": sur})
        except Exception as e:
            ck.broken_ties.append("recheck evaluation failed: " + str(e)[-500:])
    if stats.get("functions_without_row", 0) > max(3, stats["functions"] // 2):
        ck.broken_ties.append("%d generated functions have no complexity row: the complexity of most functions cannot be checked" % stats["functions_without_row"])
    ck.samples = [{"file": mods[0]["path"], "source_head": mods[0]["lines"][:30]}]
    ck.cov.update({
        "evaluations": stats["c03_functions"] + stats["risk_checks"],
        "distinct_nontrivial": stats["c03_functions"],
        "rule": "functions generated from the property's construct list (if/elif/else, for/while with else, break/continue/return, "
                "try/except/else, statement-level comprehensions with 0..3 if clauses per for clause, nested defs/classes) at nesting <= 5; "
                "complexity compared with the Coq spec mccabe (every for and every if clause of a comprehension counts one); a function whose "
                "value is short by exactly the second and further if clauses of its live comprehensions is finding F8 (f8_functions), any "
                "other difference is a violation; risk level compared for every function under each threshold pair; "
                "functions using with/match/raise/finally are compared with the model only and counted in extra_*",
        "input_distribution": stats, "thresholds": THRESHOLDS if thorough else THRESHOLDS[:4],
        "disagreements_checked": nviol + tie,
    })
    ck.trusted += ["Coq 8.16.1 kernel; vm_compute for spec/model evaluation",
                   "hand-written model Cfg/Flow.v and spec Cfg/FlowSpec.v; harness/pygen.py layout"]
    ck.finish(assumptions=["statement ids unique (layout)", "construct list of the property: no with/match/raise/finally"])
