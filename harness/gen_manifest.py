#!/usr/bin/env python3
"""Writes /verif/MANIFEST.json and MANIFEST.hooks from the table below."""
import json
import os
import subprocess

VERIF = os.path.dirname(os.path.dirname(os.path.abspath(__file__)))

CHECKS = {
    "C01": dict(
        technique="Coq proof: abstract-interpretation soundness of the CFG reachability abstraction (Cfg/Flow.v) w.r.t. an oracle-driven CPython control-flow semantics (Py/PySem.v), all constructs, unbounded; ties: pyscn dead ranges vs model per statement, PySem vs python3 traces, pyscn vs python3 directly",
        text="Theorem C01_sound (no axioms): for every function body, oracle (condition values, raising calls, handler matches, swallowing context managers, iterator lengths) and fuel, a statement whose marker executes is never among the statements the model reports dead. Every run: generated modules using every construct of the quantifier are analysed by pyscn and executed by CPython under the same oracles; (1) no executed marker lies in a reported dead range (the property itself), (2) Flow.v's dead statements = lines covered by pyscn's ranges, (3) PySem.v traces = CPython traces.",
        note="Flow.v is a hand-written abstraction of cfg_builder.go+reachability.go+dead_code.go (statement level: finding ranges are compared per statement line, block boundaries are not modelled); generators/async scheduling/exceptions raised by non-marker code are outside the semantics; tree-sitter and ast_builder.go are exercised end-to-end, not modelled.",
        design="5 C01, 4.2, 4.5"),
    "C16": dict(
        technique="Coq proofs that the models of the section summaries, filters, risk levels and the unified summary projection (service/*_service.go, calculateSummary) equal their recomputation-from-items specs; bucket boundaries/operators regenerated from the Go AST; ties: real generateSummary/filter functions on synthetic item lists, every number of real JSON reports recomputed from the items; formats compared in-process and via the CLI (differential test)",
        text="Props/C16.v (19 theorems, no axioms): complexity/CBO/LCOM/dead-code/clone summaries exact, extrema meaning, top-N lists, distribution partitions the items, bucket labels, risk counts sum and match thresholds, filters sound and complete (output = filter of the echoed predicate), unified summary is a projection. Each run: ~1000 synthetic item lists through the real summary/filter code vs model vs spec; 31 JSON reports of generated projects with ~4300 numbers recomputed from their own items; ~850 in-process renders (JSON = YAML as data, CSV/text/HTML headline numbers = JSON, all formats written incl. nil sections); ~70 CLI runs.",
        note="partial: encoding/json, yaml.v3, encoding/csv, html/template are not modelled - the format clauses are a differential test, not a proof. C16-F1 (severity counts before the filter) repaired; C16-F2 (system.Summary never populated) open. CLI cross-run comparison is skipped when two runs of the analysis differ.",
        design="5 C16"),
    "C17": dict(
        technique="Coq proof per option that the modelled merge chain (flag defaults, Flags().Changed wrappers, hard-wired request values, sentinel merges, pointer/>0 key tests) equals flag-else-file-else-default, or a refutation with the failing cell plus a partial theorem; config discovery model vs nearest-file spec; constants regenerated from the Go AST; 8-cell CLI matrix per option, discovery layouts, pyscn-init differential",
        text="Props/C17.v (29 theorems, no axioms): full for min_severity, min_cbo, complexity/lcom thresholds, check --max-complexity, explicit --config, .pyscn.toml over pyproject.toml in one directory, nearest file for single-kind chains; refuted + partial for analyze min_complexity and [cbo] thresholds (F6), clone threshold 0 in file (F27). Every run: ~240 CLI runs (option matrix, 87 discovery layouts, pyscn init differential) decided against the spec eff/spec_resolve and tied to the model.",
        note="open known findings: F6 (analyze ignores file min_complexity and [cbo] thresholds), C17-F27 (similarity_threshold = 0 reads as absent), C17-F28 (exclude_patterns written by pyscn init differ from built-in defaults); F26 fixed; F24 layout (far .pyscn.toml vs near pyproject.toml: property clauses conflict) is not judged; TOML/flag parsing layers are not modelled.",
        design="5 C17"),
    "C18": dict(
        technique="Coq proof over a model of service/file_reader.go (walk, pattern matching, dedupe) and of the doublestar subset; skip list/extensions/default patterns regenerated from Go source; differential correspondence (vm_compute) against the real FileReader on real directory trees, doublestar itself, and the pyscn CLI",
        text="Theorems (Props/C18.v, no axioms): files analysed = exactly the Python files under the targets matching an include and no exclude pattern (path inside the target; slash-less pattern by name at any depth), run fails iff a target is missing, each file once for any target list, same files for any spelling/cwd of the same places, default excludes apply at any depth; pinned-tree behaviour refuted (F7, F7b, F18, all repaired by fix: commits).",
        note="Hand-written model; doublestar modelled on the pat_ok subset (no classes/alternatives/escapes), filepath.Rel/Walk order assumed, Clean/Join/Abs modelled; no symlinks, ASCII names; correspondence sampled (exhaustive small-scope for glob).",
        design="5 C18"),
    "C19": dict(
        technique="Coq proof of gate_exact (exit = 0 <-> gate_spec) over a model of cmd/pyscn/check.go:runCheck; constants and comparison operators regenerated from the Go AST; CLI correspondence on boundary projects x flag/config/cwd combinations",
        text="Coq model of runCheck (selection, flag-else-config-else-10 threshold, severity gate, cycle limit, issueCount arithmetic, exit code) with gate_exact : exit = 0 <-> gate_spec proved for all inputs; clones_never_fail; printed lines = violations; monotonicity. Correspondence: generated boundary projects x flag/config/cwd combinations on the real `pyscn check`, against the spec, against `pyscn analyze --json`, and against the model; target lists: every list of 1-2 targets over {directories, nested directory, plain files, file inside a directory}, every directory/file pattern of 3 targets, repeated / nested / missing targets, relative and absolute spellings, with the violating code in each file of the tree in turn, judged on the union of the selected files and against `pyscn analyze` on the same targets.",
        note="assumes complexities >= 1 and --max-cycles >= 0; the literal 'any analysis could not run' clause is refuted for the informational clone analysis (F27, open known finding); open known findings C19-G1 (--select deps looks below the first target only) and C19-G2 (a plain-file target named twice is analysed and counted twice when all targets are files; verdict unaffected); F16 and F28 repaired by fix: commits; mock-data findings and clone pairs are read from check's own output.",
        design="5 C19"),
    "C02": dict(
        technique="Coq proof: every structurally unreachable statement (spec must_dead_block) is marked dead by the reachability abstraction Cfg/Flow.v, for every def at any depth; tie: pyscn findings at default severity must cover every must-be-dead statement under the def's qualified name",
        text="Theorem C02_complete (no axioms): forall body k, In k (must_dead_block body) -> In k (dead_ids body), unbounded in nesting and size. Each run evaluates the spec in Coq on generated modules (terminators at every position of every construct, nested defs, methods, loop else, multi-elif) and requires a pyscn finding (critical or warning, default filter) of the right function covering each such statement.",
        note="Hand-written model tied by sampled correspondence. Known finding F3 (two definitions with one qualified name overwrite each other) is matched only for modules that contain duplicate qualified names.",
        design="5 C02"),
    "C03": dict(
        technique="Coq proof: complexity of the model = 1 + weights of the decision points not in dead code (spec mccabe) for the property's construct list; relabelling invariance; risk table; tie: pyscn complexity and risk level vs the Coq spec on generated functions x threshold pairs",
        text="Theorems C03_mccabe, C03_invariant (any relabelling of lines and names), C03_risk (no axioms). Each run: functions built from if/elif/else, for/while(+else), break/continue/return, try/except/else, comprehensions, nested defs/classes (nesting <= 5): pyscn's complexity must equal mccabe evaluated in Coq with pyscn's own dead set; RiskLevel must equal the threshold table for 4-6 configured threshold pairs.",
        note="with/match/raise/finally are outside the property's construct list: functions using them are compared with the model only (reported as extra_* in the evidence).",
        design="5 C03"),
    "C04": dict(
        technique="Coq model of the BuildAll registry and lcom.collectClasses with theorems registry = all_defs under unique qualified names, class lines always right; refuted witnesses for same-name overwrite (F3) and nested class names (F20); tie: complexity.Functions / lcom.Classes rows vs layout, layout vs python3 ast.walk",
        text="C04_functions_partial (NoDup names -> registry = every def exactly once with dotted name and line), C04_classes_lines, C04_classes_names_partial; C04_functions_refuted_same_name and C04_classes_names_refuted_nested are the two recorded findings. Each run compares every generated def/class (any nesting) with pyscn's rows: name, StartLine, EndLine, exactly once; one __main__ row.",
        note="The full statement is false on the current tree for two input classes (known findings F3b, F20), each matched narrowly. End lines and decorators are checked by the harness (python3 ast as independent reference), not modelled.",
        design="5 C04"),
    "C05": dict(
        technique="Coq proof per emission site that the emitted list/value is invariant under every permutation of the Go map's iteration order (total-order sort on unique keys, argmin choice, ids after sort, sums over sorted keys, budgeted DFS over sorted graph), comparison keys and sort-before-range patterns regenerated from the Go AST; interleaving independence of the task pool; ties: N repeated CLI runs under GOMAXPROCS 1/2/16 diffed, production sort/tie-break code vs the models on injected and repeated orders",
        text="Props/C05.v: 30 site_det theorems (Permutation l l' -> NoDup keys -> emit l = emit l'), sort_by_det / any_sort_by (any correct sort gives the model's result), C05_pipeline (any interleaving of slot-disjoint tasks gives the same response), 10 C05_orig_*_refuted witnesses for the original code. Every run: 6 (thorough 30) runs of pyscn analyze --json / check per option set on testdata and generated tie-rich projects must give identical reports apart from timestamps/durations/version; 8 driver ops run each site in several arrival orders and are compared with the Coq models.",
        note="partial: all order/value nondeterminism found (F4, F11 plus LSH pair order) repaired by 8 fix: commits. Pipeline theorem assumes no shared mutable state between analyses (tested by GOMAXPROCS runs and a -race build in the thorough tier, not proved; Go scheduler and memory model not modelled). C05_orig_float_sum_refuted uses Coq's kernel primitive floats. A dropped tie-breaker whose input is already ordered upstream is reported as broken proof (no-failing-input-found).",
        design="5 C05"),
    "C06": dict(
        technique="Coq proofs: isolation of a failing file in the per-file service loops (any analyse function, list and position), exit status in {0,1}, exponential lower bound for calculateMaxDepth (refutes the time clause: finding F21); malformed-input stream through the real binary for the un-modelled part",
        text="Theorems C06_isolation, C06_results_are_per_file, C06_exit_status, C06_depth_exponential_refuted (no axioms). Each run: ~35-40 malformed contents (syntax errors, truncations, bit flips, binary, encodings, CR/CRLF, long lines, deep parentheses) analysed alone and mixed into a project of good files: exit status in {0,1}, no panic/goroutine trace, time bound, report sections of the good files identical to the baseline; 4 formats written; nesting depth up to 160/320; calculateMaxDepth vs its Coq model on random graphs.",
        note="partial: tree-sitter, Go runtime (stack, memory), wall clock and OS are not modelled; the malformed stream is a test, not a proof. F29 (panic on elif without body) repaired; F21 (exponential longest-chain search) recorded as open known finding.",
        design="5 C06"),
    "C07": dict(
        technique="Coq proof about the textbook forest-recurrence spec (delta) and a literal Gallina model of apted.go/apted_tree.go (Zhang-Shasha) and of the three cost models; constants regenerated from Go source; unbounded proofs that the Zhang-Shasha model equals the spec (post-order numbering, key roots, forest-table invariant) and that the spec equals the minimum over all Tai edit mappings; a memoised evaluator proved equal to the spec; differential correspondence (vm_compute) against the tagged Go driver on real TreeNode values",
        text="Theorems (Props/C07.v, no axioms): for the spec, distance non-negative, 0 to itself, symmetric for symmetric costs, never more than delete-all plus insert-all, similarity in [0,1] and 1 for identical trees (any size); the three shipped cost models satisfy the hypotheses for every label; the model's similarity is in [0,1]; UNBOUNDED: C07_zs_exact (forall cost model and trees, zs = ted), C07_ComputeDistance_exact (every pair of trees with <= 500 nodes: ComputeDistance = Some (ted)), C07_nil_cases, C07_delta_is_min / C07_zs_is_min (the distance is the minimum cost over all Tai mappings, every cost model), with C07_prepare_nodes_postorder, C07_keyroots_spec, C07_forest_table_invariant; the bounded vm_compute theorems (<=4 nodes) are kept as regression instances. Every run: exhaustive small pairs and random/mutated trees up to 40 (120 thorough) nodes, cost tables, self-zero/symmetry/upper-bound/similarity clauses on the implementation, cases at 499/500 nodes and above.",
        note="Costs are exact integers (units of 2^-120): default model compared exactly, python/weighted within 1e-9. Minimum edit cost = minimum over edit mappings (python/weighted costs are not a metric). Trees > 500 nodes (computeDistanceOptimized) are not modelled; only similarity range/identity are checked there. Observation recorded in DESIGN: above 500 nodes the distance is usually 0.",
        design="5 C07"),
    "C08": dict(
        technique="Coq proof over a literal model of the clone pair pipeline around an abstract similarity function (Clone/Pairs.v: extraction filters, overlap, shouldCompare + Jaccard pre-filters, classifier gate, bands, significance, exhaustive/batched/LSH paths, sort+limit, service filter, Validate); operators/literals regenerated from the Go AST; CLI correspondence on generated projects x configurations x file orders with the model instantiated by the observed similarity table",
        text="Theorems (Props/C08.v, closed): C08_justified for every detection path incl. truncation (sim >= reporting threshold and Type4, inside [min,max], type = unique band and enabled, both fragments >= min nodes/lines, no shared line in one file); C08_verbatim_partial (verbatim copy reported as (1,0,Type1) on every path under the explicit line-count hypothesis) with C08_verbatim_refuted (F19 witness); C08_order (report invariant under Permutation of fragments and pair orientation, no truncation). Each run: pyscn analyze --json on generated projects (verbatim+noise/renamed/edited x same file/other file/other dir) x Validate-accepted configs with thresholds on observed similarities +-2^-40 and min sizes at fragment sizes +-1 x file orders; decided by the property's own conditions; model = ExtractFragments / exhaustive loop / CLI pair set.",
        note="Similarity (APTED, C07) is a Section variable: symmetry, equal trees => (1,0,gate) and [0,1] range are hypotheses tested on every fragment pair of every run. Verbatim/order clauses are stated without truncation by MaxClonePairs (unstable sort). Full verbatim statement is false on the current tree: F19 (line-count pre-filter), open known finding matched only when that pre-filter fires.",
        design="5 C08"),
    "C09": dict(
        technique="Coq proof on the shared pipeline model (Clone/Pairs.v): LSH candidates as band-sharing index pairs with abstract MinHash/FNV, batch loop as pure index combinatorics, addPairWithLimit fold; in-package driver correspondence (DetectClonesWithLSH / batching / exhaustive on the same fragments) over an LSH x batch-size grid, plus CLI lsh_enabled true/false",
        text="Theorems (Props/C09.v, closed): lsh_subset / lsh_detect_subset (every LSH pair is the same record as an exhaustive pair), lsh_at_least_one_band, lsh_keeps_identical / lsh_detect_keeps_identical (equal feature sets => reported, any bands/rows/hashes/threshold), batch_covers + batch_covers_once (every i<j visited exactly once, any batch size > 0), batch_count_eq, batch_eq_unbatched and detect_eq_exhaustive (same unordered pair set and count without truncation). Each run: fragment sets of 6-60 fragments x LSH grid (incl. rows > hashes, non-positive defaults, thresholds outside [0,1]) x batch sizes {1,2,3,7,50,100} x pair limits: LSH subset of exhaustive with equal similarity/type, identical pairs kept, batched = unbatched; model = implementation for detect/batched/LSH and FNV band keys.",
        note="F23 (rows > hashes gave zero bands) repaired by a fix: commit (clamp of the band width in computeBandKeys); the translator reads the clamp from the source, so reverting it breaks lsh_at_least_one_band and the check finds the lost identical pair. MinHash hash functions are abstract (signatures taken from the implementation); map iteration order is modelled as a set; under truncation only 'never invents' and 'keeps the most similar' are checked.",
        design="5 C09"),
    "C10": dict(
        technique="Coq proofs over executable models of the four grouping strategies (internal/analyzer/*_grouping.go) plus a computable contract checker proved equivalent to the contract and run on the implementation's output; constants regenerated from Go source; differential correspondence (vm_compute) against the tagged Go driver (op group) and the CLI JSON report",
        text="Theorems (Props/C10.v, no axioms): for every pair list, threshold > 0, k and map order the model's groups satisfy the selected mode's contract (>= 2 members, disjoint, connected inside the group through pairs >= t; connected = exactly the components of G_t with >= 2 members; complete = cliques; k-core = >= k neighbours inside the group; star = a medoid >= t with every other member); check_contract <-> contract; UNBOUNDED exactness: C10_kcore_exact (every pair list without self pairs, threshold, k and map order: no fuel exhaustion and the groups are exactly the components with >= 2 members of the unique maximal k-core, C10_kcore_spec_sound), C10_connected_spec (connected model = component function on every input); the self-pair hypothesis cannot be dropped (C10_kcore_selfpair_refuted); the two 4-fragment vm_compute theorems are kept as regression instances. Every run: real GroupClones on all weighted graphs on <= 4 fragments (5-point threshold lattice), sampled 5-fragment graphs, structured and random graphs to 40 fragments, decided by the proved checker, implementation compared with the model as sets of sets; clone.clone_groups[] of the CLI report checked per grouping_mode.",
        note="Hand-written models (union-find as quick-find, almostEqual as exact equality on dyadic similarities, one list for all map iteration orders); group ids/order/Similarity/CloneType not modelled. Assumes t > 0 and no self pairs (the detector only compares fragment i with j > i). C10-F27 fixed (config grouping settings were ignored), C10-F28 open (report filters pairs after grouping).",
        design="5 C10"),
    "C11": dict(
        technique="Coq proof: reachability-closure specification of non-trivial SCCs with proved characterisation; literal Gallina model of circular_detector.go (Tarjan) and AddModule/AddDependency; unbounded proof that the Tarjan model equals the specification for every well-formed graph and every iteration order (invariant proof, fuel sufficiency included); proved certificate checker (sound and complete) run on the implementation's outputs; constants/decision expressions regenerated from Go source; differential correspondence against the tagged driver and the CLI",
        text="Theorems (Props/C11.v, no axioms): closure decides reachability; scc_spec = maximal mutually-reachable sets with >=2 members, pairwise disjoint, each once; same-cycle <=> mutual reachability; check_sccs accepts only the spec (all graphs, all outputs); C11_tarjan_exact: for EVERY graph and every iteration order of nodes and dependencies (wf g mg, decidable, satisfied by build_graph: C11_build_graph_wf) the Tarjan model never runs out of its |modules|+1 fuel and its components are, up to order, exactly scc_spec (C11_tarjan_terminates, _components_strongly_connected, _complete, _checked, C11_detect_exact for counts/sizes/has-cycles); severity = documented table; the <=4-module vm_compute theorem is kept as a regression instance. Every run: all digraphs <=4 modules, sampled (thorough: all 2^20) 5-module digraphs, random graphs to 60 modules and generated Python projects are run through the real detector/CLI and compared with the spec, the proved checker and the model.",
        note="Severity spec includes the documented fan-in>10 => critical rule. Order of the cycle list is not compared. Hand-written model; correspondence is sampled beyond 5 modules.",
        design="5 C11"),
    "C12": dict(
        technique="Coq model of ModuleAnalyzer / ReExportResolver / AddDependency / coupling metrics / calculateMaxDepth against a CPython import-resolution spec (Deps/PyImport.v); metric theorems for all inputs; import-graph agreement refuted by 4 witnesses (recorded deviations) and PROVED for every project outside them (C12_edges_wf: forall pr, wf_project pr = true -> model edges = CPython-spec edges; decidable wf predicates), bounded domain of 19 068 projects kept as regression; spec tied to python3 by executing every generated statement; implementation tied by hook and CLI JSON",
        text="Props/C12.v (no axioms): fan_in = in_degree, fan_out = out_degree, instability = Ce/(Ca+Ce), distance = |A+I-1| in [0,1], max depth = longest chain on acyclic graphs, resolution of a file independent of other files; C12_edges_wf and C12_edges_wf_own (unbounded, all projects satisfying wf_project / wf_mod_own_strong), per-form lemmas C12_relative_import_agrees (no hypothesis), C12_absolute_import_agrees, C12_reexport_agrees, C12_statement_agrees; C12_edges_bounded; C12_edges_refuted_* (F31-F34); C12_wf_mod_own_insufficient. Each run: ~330 generated projects (positions x guards, import-form catalogue x importer on same-named modules, random layouts, chains/cycles): pyscn DependencyMatrix/ModuleMetrics/MaxDepth vs edges_py and vs the model, two file orders, metrics on the implementation's own graph, ~5 000 statements cross-checked against python3, 9 CLI JSON reports.",
        note="Full edge equality is false on the tree (open C12-F31..F34, matched only when impl = model); F5, F17, F29, F30 repaired by fix: commits; assumes a root marker file, __init__.py in every package, imported names exist, no wildcard imports; floats compared exactly (instability) or within 1e-12 (distance).",
        design="5 C12"),
    "C13": dict(
        technique="Coq proof over a class-level syntax (84 positions) that the CBO model (walk over the parser.Node fields regenerated from cbo.go) equals the spec set on all positions, set-semantics laws (idempotence, permutation, additivity), risk table; refutations for the two open input classes; position x import-form matrix and metamorphic runs against the tagged driver and the CLI",
        text="Props/C13.v (no axioms): C13_positions_all_visited, C13_exact_partial (all positions and import forms except module-qualified references and a generic as union operand, both refuted with witnesses), C13_count_distinct_not_self, C13_perm_invariant, C13_idempotent, C13_add_unrelated, C13_additive, C13_risk_table. Every run: 78 positions x 10 import forms, annotation shapes, multiplicities, threshold pairs, built-in table vs Python's own builtins, metamorphic variants, find-path probes tying the position table to ast_builder.go, CLI with show_zeros.",
        note="open known findings: F29 (pkg.Class references never counted), F31 (generic as operand of |), F6 ([cbo] thresholds in analyze); F10, F13, F14, F15 repaired by fix: commits. rename-self proved only without self-mention (tested metamorphically on the implementation).",
        design="5 C13"),
    "C14": dict(
        technique="Coq proof: union-find (as a labelling) partitions exactly by connectivity, the model's groups = connected components of its own method graph, per-method access collection exact for all 80 body positions; refutation for mixed instance/static duplicates; position x access-pattern matrix and random method graphs against the tagged driver and the CLI",
        text="Props/C14.v (no axioms): C14_union_find (unbounded), C14_components, C14_spec_decides_connectivity, C14_positions_all_reached, C14_access_collection_exact_partial, C14_single_method, C14_risk_table; C14_mixed_duplicate_refuted (F30). Every run: 80 positions x 7 access patterns, 1..8 components x threshold pairs, 420 random classes (0-12 methods, static/class methods, duplicate names), CLI with default and custom thresholds.",
        note="rank/path compression not modelled (only the partition is observable); class-level exactness of collectMethods vs effective instance methods is covered by correspondence, not proved; F30 open (name defined both as instance and static method stays a vertex); F13, F13b repaired.",
        design="5 C14"),
    "C15": dict(
        technique="Coq proof over an exact-rational model of domain/analyze.go + calculateSummary; constants regenerated from Go source; differential correspondence (vm_compute) against the tagged Go driver",
        text="Theorems (Props/C15.v, no axioms): score and category ranges, score = max 0 (100 - sum of penalties) with caps 20/20/20/20/20/16/12, grade table, monotonicity in every measured quantity (simultaneously), skipping analyses never lowers the score. The model is tied to the code by regenerated constants and by running CalculateHealthScore / calculateSummary and the model on boundary-lattice and random summaries every run.",
        note="Model is over Q, code over float64: results equal except within 2^-36 of a rounding boundary. math.Log10 is a section variable (non-negative on [1,oo)). Hand-written model; correspondence is sampled.",
        design="5 C15"),
}

CHECKS["C20"] = dict(
    technique="Coq proofs about a pipeline model (slots written by independent tasks: any interleaving gives the same response; a combined section = the separate section), per-file service loops (rows of a file independent of the other files and their order) and the two front ends (MCP and CLI build the same use-case configuration; names/defaults regenerated from the Go AST); differential runs of the real CLI, the real MCP server binary (cmd/pyscn-mcp over stdio JSON-RPC, all seven tools), the in-process MCP handler hook and a -race build",
    text="Theorems C20_interleaving, C20_combined_eq_separate, C20_unselected_empty, C20_per_file_independent, C20_order_only_permutes, C20_mcp_eq_cli (no axioms). Each run on generated projects: every section of the combined report vs the --select run; per-file complexity/dead-code/CBO/LCOM rows for every file alone, reversed order and random subsets vs the whole project (also evaluated through the Coq model Isolation.run); all seven MCP tools (analyze_code, check_complexity, detect_clones, check_coupling, find_dead_code, check_cohesion, get_health_score) called on the real pyscn-mcp server vs `pyscn analyze --json` / `pyscn check` with the same path and options (harness/c20mcp.py): projected findings (function rows with complexity and risk, dead-code findings with lines, severity and reason, CBO/LCOM4 per class with risk, clone pairs as location pairs with similarity and type, health score, grade and category scores) in the full, summary and detailed output modes; option lattice at and next to values present in the project (min/max complexity, severity, similarity threshold, min_lines, min_cbo, max_results); directory, sub-directory, single-file and relative paths; six configuration layouts (default; .pyscn.toml found from the server's directory; only from the path; PYSCN_CONFIG / --config; a file that also sets the quick-filter keys; a small min_lines/min_nodes project); per tool a missing path, a directory without Python files, a non-Python file, a non-string / absent path and invalid option values (both front ends reject, or both accept with equal findings; a crash of the server is a violation); MCP analyze_code through the in-process hook; -race build of the CLI under several GOMAXPROCS.",
    note="partial: data-race freedom is tested (Go race detector), not proved; the MCP side is the real server driven over stdio (initialize + tools/call), equality is decided on projected findings, not on presentation. Open findings (printed as KNOWN-FINDING, each matched only when the tool's answer equals the command line run with the options the defect makes it use): F36 check_coupling ignores the [cbo] config section; F37 the single-analysis tools discover the config from the server's directory, not from the path; F38 an argument equal to the built-in default loses against the config file; F39 four tools analyse an explicitly given non-.py file that `analyze` rejects; F40 check_complexity rejects min_complexity above the file's max_complexity. While the report is not yet deterministic (property C05) list order and the fields listed in UNSTABLE_KEYS are not compared. F30 (MCP ignored the [cbo] config section) repaired by a fix: commit.",
    design="5 C20")

NOT_YET = {}

ALL = ["C%02d" % i for i in range(1, 21)]


def main():
    hooks_commits = subprocess.run(["git", "-C", "/repo", "log", "--format=%h %s", "--grep=^verif:"], stdout=subprocess.PIPE, text=True).stdout.strip().splitlines()
    checks = []
    for pid in ALL:
        if pid not in CHECKS:
            continue
        c = CHECKS[pid]
        checks.append({
            "property_id": pid,
            "quick_cmd": "python3 harness/run_check.py %s quick" % pid,
            "thorough_cmd": "python3 harness/run_check.py %s thorough" % pid,
            "evidence_file": "/verif/evidence/%s.json" % pid,
            "replay_cmd_template": "python3 harness/replay.py {path}",
            "engine": "coq-models",
            "level_claimed": {"category": "proof", "text": c["text"], "design_ref": "DESIGN.md section " + c["design"]},
            "level_note": c["note"],
            "technique": c["technique"],
        })
    na = [{"property_id": p, "reason": NOT_YET.get(p, "check not built yet in this round; planned (see DESIGN.md section 11)")}
          for p in ALL if p not in CHECKS]
    m = {
        "version": 1,
        "setup_cmd": "python3 harness/setup.py",
        "hooks": {
            "guard": "verif",
            "enable": "go build -tags verif ./cmd/pyscn-verif (GOFLAGS=-mod=mod GOPROXY=off); files carrying //go:build verif only",
            "baseline_off_cmd": "cd /repo && GOFLAGS=-mod=mod GOPROXY=off go build ./... && GOFLAGS=-mod=mod GOPROXY=off go test -vet=off -count=1 -timeout 25m ./...",
            "source_commits": [l.split()[0] for l in hooks_commits],
            "add_only": True,
        },
        "engines": [{"name": "coq-models", "path": "/verif/coq", "serves_properties": sorted(CHECKS),
                     "kind_free_text": "Coq 8.16.1 models + theorems, translator-regenerated Gen/*.v, vm_compute correspondence against pyscn-verif/pyscn built from /repo"}],
        "checks": checks,
        "notes": "Every check: regenerate coq/Gen from /repo, make (full .vo), recompile Props/Cxx.v with Print Assumptions, rebuild Go binaries with -tags verif, run correspondence, decide, write evidence. known_findings.json lists genuine defects.",
        "not_applicable": na,
    }
    with open(os.path.join(VERIF, "MANIFEST.json"), "w") as f:
        json.dump(m, f, indent=1)
    files = subprocess.run("git -C /repo grep -l '^//go:build verif' -- '*.go'", shell=True, stdout=subprocess.PIPE, text=True).stdout.split()
    with open(os.path.join(VERIF, "MANIFEST.hooks"), "w") as f:
        f.write("# guard: Go build tag 'verif' (add-only files, each starts with //go:build verif)\n")
        f.write("# commits in /repo:\n")
        for l in hooks_commits:
            f.write("commit %s\n" % l)
        f.write("# files:\n")
        for x in files:
            f.write("file %s\n" % x)


if __name__ == "__main__":
    main()
