"""C20 — analyses are independent: together or apart, any file subset/order, no data race, MCP = CLI."""
import json
import os
import shutil
import subprocess
import time

import lib
import pygen
import cfgcommon as cc
from c06 import CLASS_FILE, run_cli, latest_json
import c20mcp
import c20fail
import c20lists
import c20twins

# set to True once the report is deterministic (C05 repairs): then sections are compared exactly, order included
STRICT_ORDER = True
DROP_KEYS = {"generated_at", "duration_ms", "GeneratedAt", "Duration", "analysis_time", "AnalysisTime", "version", "Version",
             "OutputWriter", "OutputPath", "ConfigPath", "config_path"}
# value-level fields that the recorded reproducibility findings (F4/F11, property C05) make differ between two runs of
# the SAME command; they are masked only while STRICT_ORDER is False
UNSTABLE_KEYS = {"id", "reason", "description", "LongestChains", "MainSequenceDeviation", "AverageInstability",
                 "deps_main_sequence_deviation", "block_id", "Description", "CycleBreakingSuggestions", "findings_by_reason",
                 "ZoneOfPain", "ZoneOfUselessness", "HighlyCoupledModules", "MostCoupledClasses", "RefactoringPriority",
                 "MostDependedUponClasses", "LeastCohesiveClasses"}

REQ = ("From Coq Require Import List Arith.\nImport ListNotations.\nFrom PV Require Import Service.Isolation Service.Pipeline.")


def canon(x, strict):
    if isinstance(x, dict):
        return {k: canon(v, strict) for k, v in sorted(x.items()) if k not in DROP_KEYS and (strict or k not in UNSTABLE_KEYS)}
    if isinstance(x, list):
        items = [canon(v, strict) for v in x]
        if not strict:
            items = sorted(items, key=lambda v: json.dumps(v, sort_keys=True))
        return items
    if isinstance(x, float):
        return round(x, 9)
    return x


# Names imported in one file and used WITHOUT an import in other files (defined locally there): per-file state of an analyser
# (import tables, class registries, function tables keyed by name) must not survive from one file to the next. The sharing files
# sort before and after the users so that either analysis order exposes a leak.
SHARED = {
    "a_client.py": "from netlib import connect, Pool\nimport helperlib as hl\nfrom typing import Optional\n\n\nclass Client:\n    def __init__(self):\n"
                   "        self.conn = connect()\n        self.pool = Pool()\n\n    def go(self, n: Optional[int]):\n        return hl.run(self.conn, n)\n",
    "b_worker.py": "def connect():\n    return 1\n\n\nclass Pool:\n    pass\n\n\nclass Job:\n    pass\n\n\nclass Worker:\n    def __init__(self):\n"
                   "        self.conn = connect()\n        self.pool = Pool()\n        self.job = Job()\n\n    def go(self, n):\n        self.x = Optional\n        return hl.run(self.conn, n)\n\n\n"
                   "class Client:\n    def __init__(self):\n        self.a = 0\n        self.b = 0\n\n    def one(self):\n        return self.a\n\n    def two(self):\n        return self.b\n",
    "z_client.py": "from netlib import Job\nimport otherlib as hl\n\n\nclass Late:\n    def __init__(self):\n        self.job = Job()\n        self.h = hl.make()\n",
}

IMPORTS = {"alpha.py": "import beta\nimport gamma\n", "beta.py": "import gamma\n", "gamma.py": "import alpha\n", "delta.py": "import os\n"}


def make_project(root, name, rng, n_mods=3):
    d = os.path.join(root, name)
    os.makedirs(d)
    files = {}
    mods = cc.gen_modules(rng, n_mods, dict(max_depth=3, max_len=4, n_funcs=3))
    for i, m in enumerate(mods):
        files["gen%d.py" % i] = "\n".join(m["lines"]).replace("from rt import *", "import os") + "\n"
    files["classes.py"] = CLASS_FILE
    files["ledger.py"] = CLASS_FILE.replace("Account", "Ledger")
    files.update(SHARED)
    for fn, head in IMPORTS.items():
        files[fn] = head + "\n\ndef use_%s(x):\n    if x:\n        return 1\n    return 0\n" % fn[:-3]
    for fn, src in files.items():
        with open(os.path.join(d, fn), "w") as f:
            f.write(src)
    with open(os.path.join(d, ".pyscn.toml"), "w") as f:
        f.write("[cbo]\nshow_zeros = true\n")
    return d, sorted(files)


def analyze(d, extra, targets=None, env=None):
    shutil.rmtree(os.path.join(d, ".pyscn"), ignore_errors=True)
    e = dict(os.environ)
    if env:
        e.update(env)
    p = subprocess.run([os.path.join(lib.BIN, "pyscn"), "analyze", "--json", "--no-open", "--min-complexity", "1", "--min-severity", "info"]
                       + extra + (targets or ["."]), cwd=d, stdout=subprocess.PIPE, stderr=subprocess.PIPE, text=True, timeout=300, env=e)
    return p.returncode, latest_json(d), p.stderr


def per_file_rows(data):
    """file -> section -> sorted rows, for the per-file analyses."""
    out = {}

    def add(fp, sec, row):
        out.setdefault(os.path.basename(fp), {}).setdefault(sec, []).append(row)
    if not data:
        return out
    for f in (data.get("complexity") or {}).get("Functions") or []:
        add(f["FilePath"], "complexity", (f["Name"], f["StartLine"], f["EndLine"], f["Metrics"]["Complexity"], f["RiskLevel"]))
    for f in (data.get("dead_code") or {}).get("files") or []:
        for fn in f.get("functions") or []:
            for x in fn.get("findings") or []:
                add(f["file_path"], "dead_code", (fn["name"], x["location"]["start_line"], x["location"]["end_line"], x["severity"]))
    for sec, key in (("cbo", "CouplingCount"), ("lcom", "LCOM4")):
        for c in (data.get(sec) or {}).get("Classes") or []:
            add(c["FilePath"], sec, (c["Name"], c["StartLine"], c["EndLine"], c["Metrics"].get(key)))
    for f in out.values():
        for sec in f:
            f[sec] = sorted(f[sec])
    return out


def main(tier):
    ck = lib.Check("C20", tier)
    # every decision of this check compares two runs of the implementation (combined vs alone, MCP vs CLI, fresh process vs history, repetitions) or reads the race detector: none uses the regenerated model, so a translator
    # problem does not demote them to unconfirmed disagreements (lib.Check.violation, independent=True)
    _violation = ck.violation
    ck.violation = lambda what, replay, no_input=False, independent=True: _violation(what, replay, no_input=no_input, independent=independent)
    ck.prepare("C20.v")
    rng = ck.rng
    thorough = tier == "thorough"
    root = lib.fresh_dir("c20")
    stats = dict(section_comparisons=0, per_file_comparisons=0, subsets=0, race_runs=0, mcp_hook_comparisons=0, projects=0)
    only = os.environ.get("VERIF_C20_ONLY", "")      # development aid: "mcp" runs only the MCP section, "race" only the -race section
    nproj = 3 if thorough else 1
    for pi in range(0 if only else nproj):
        d, files = make_project(root, "p%d" % pi, rng, n_mods=4 if thorough else 3)
        stats["projects"] += 1
        # ---------- (a) combined vs separate ----------
        rc, full, err = analyze(d, [])
        if full is None:
            ck.broken_ties.append("combined run produced no report (rc=%s): %s" % (rc, err[-300:]))
            continue
        for sel, sec in (("complexity", "complexity"), ("deadcode", "dead_code"), ("clones", "clone"), ("cbo", "cbo"), ("lcom", "lcom"), ("deps", "system")):
            rc, part, err = analyze(d, ["--select", sel])
            stats["section_comparisons"] += 1
            if part is None:
                # e.g. "no functions found" makes a lone analysis fail; not an independence question
                ck.notes.append("--select %s produced no report (rc=%s)" % (sel, rc))
                continue
            a, b = canon(full.get(sec), STRICT_ORDER), canon(part.get(sec), STRICT_ORDER)
            if a != b:
                diff = first_diff(a, b, sec)
                ck.violation("section %s of the combined report differs from the section produced by --select %s alone: %s" % (sec, sel, diff),
                             {"kind": "combined-vs-separate", "project": d, "section": sec, "difference": diff})
            other = [k for k in ("complexity", "dead_code", "clone", "cbo", "lcom", "system") if k != sec and part.get(k)]
            if other:
                ck.violation("--select %s also produced sections %s" % (sel, other), {"kind": "unselected-section", "select": sel, "sections": other})
        # ---------- (b) per-file independence ----------
        base = per_file_rows(full)
        subsets = [[f] for f in files] + [list(reversed(files))]
        for _ in range(6 if thorough else 3):
            k = rng.randint(2, len(files) - 1)
            subsets.append(rng.sample(files, k))
        single = {}

        def run_subset(item):
            i, sub = item
            dd = os.path.join(root, "p%d_sub%02d" % (pi, i))     # own copy: analyze() rewrites .pyscn/ in its directory
            shutil.copytree(d, dd, ignore=shutil.ignore_patterns(".pyscn"))
            r = analyze(dd, ["--select", "complexity,deadcode,cbo,lcom"], targets=sub)
            shutil.rmtree(dd, ignore_errors=True)
            return r
        from concurrent.futures import ThreadPoolExecutor
        with ThreadPoolExecutor(max_workers=6) as ex:
            sub_results = list(ex.map(run_subset, enumerate(subsets)))
        for sub, (rc, data, err) in zip(subsets, sub_results):
            stats["subsets"] += 1
            rows = per_file_rows(data)
            if len(sub) == 1:
                single[sub[0]] = rows.get(sub[0], {})
            for f in sub:
                for sec in ("complexity", "dead_code", "cbo", "lcom"):
                    stats["per_file_comparisons"] += 1
                    exp = base.get(f, {}).get(sec, [])
                    got = rows.get(f, {}).get(sec, [])
                    if exp != got:
                        ck.violation("%s results of %s differ when analysed with files %s instead of the whole project: %s vs %s"
                                     % (sec, f, sub, got[:3], exp[:3]),
                                     {"kind": "per-file", "project": d, "file": f, "section": sec, "files": sub, "with_project": exp, "with_subset": got})
        # tie to the model: items (run analyze fs) = concatenation of the single-file results (Isolation.run evaluated in Coq)
        try:
            table, ids = [], {}
            for f in files:
                r = []
                for row in single.get(f, {}).get("complexity", []):
                    ids.setdefault((f, row), len(ids))
                    r.append(ids[(f, row)])
                table.append(r)
            ana = "(fun i => inl (nth i %s []) : list nat + unit)" % lib.clist([lib.clist(["%d" % x for x in r]) for r in table])
            orders = [list(range(len(files))), list(reversed(range(len(files))))] + [sorted(rng.sample(range(len(files)), 3)) for _ in range(3)]
            out = lib.coq_eval("C20_items_%d" % pi, REQ, "Eval vm_compute in %s.\n" % lib.clist(
                ["items _ _ (run _ _ _ %s %s)" % (ana, lib.clist(["%d" % i for i in o])) for o in orders]))
            vals = lib.parse_coq_values(out)[0]
            inv = {v: k for k, v in ids.items()}
            for o, v in zip(orders, vals):
                model_rows = sorted(inv[i] for i in v)
                impl_rows = sorted((files[i], row) for i in o for row in base.get(files[i], {}).get("complexity", []))
                if model_rows != impl_rows:
                    ck.broken_ties.append("model tie: Isolation.run over files %s gives %d rows, pyscn %d" % (o, len(model_rows), len(impl_rows)))
        except Exception as e:
            ck.broken_ties.append("model evaluation failed: " + str(e)[-600:])
        # ---------- (d) MCP analyze_code vs CLI with the same options ----------
        if ck.go_ok:
            for analyses, sel in ((["complexity", "dead_code"], "complexity,deadcode"), (["cbo", "lcom"], "cbo,lcom"), (["complexity", "dead_code", "cbo", "lcom", "deps"], "complexity,deadcode,cbo,lcom,deps")):
                r = lib.driver([{"op": "mcp", "tool": "analyze_code", "args": {"path": d, "output_mode": "full", "analyses": analyses}}])[0]
                stats["mcp_hook_comparisons"] += 1
                if r.get("is_error") or "error" in r:
                    ck.violation("MCP analyze_code failed on a project the CLI analyses: %s" % str(r)[:300], {"kind": "mcp", "analyses": analyses})
                    continue
                m = json.loads(r["text"])
                shutil.rmtree(os.path.join(d, ".pyscn"), ignore_errors=True)
                p = subprocess.run([os.path.join(lib.BIN, "pyscn"), "analyze", "--json", "--no-open", "--min-complexity", "1", "--min-severity", "warning",
                                    "--select", sel, d], cwd=root, stdout=subprocess.PIPE, stderr=subprocess.PIPE, text=True, timeout=300)
                c = latest_json(root)
                shutil.rmtree(os.path.join(root, ".pyscn"), ignore_errors=True)
                for sec in ("complexity", "dead_code", "cbo", "lcom", "system"):
                    if (m.get(sec) is None) != ((c or {}).get(sec) is None):
                        ck.violation("MCP analyze_code and the CLI disagree on the presence of section %s for analyses %s" % (sec, analyses),
                                     {"kind": "mcp", "analyses": analyses, "section": sec})
                mr, cr = per_file_rows(m), per_file_rows(c)
                if mr != cr:
                    f = [k for k in set(mr) | set(cr) if mr.get(k) != cr.get(k)][:1]
                    ck.violation("MCP analyze_code returns different findings than the CLI for the same path and options (file %s): %s vs %s"
                                 % (f, str(mr.get(f[0]))[:300], str(cr.get(f[0]))[:300]), {"kind": "mcp", "analyses": analyses, "project": d})
                if m.get("summary", {}).get("health_score") != (c or {}).get("summary", {}).get("health_score"):
                    ck.violation("MCP analyze_code health score %s differs from the CLI's %s" % (m.get("summary", {}).get("health_score"), (c or {}).get("summary", {}).get("health_score")),
                                 {"kind": "mcp", "analyses": analyses, "project": d})
    # ---------- (d') all seven MCP tools on the real server binary vs the command line (harness/c20mcp.py) ----------
    if only:
        files = []
    if ck.go_ok and only not in ("race", "twins"):
        stats.update(c20mcp.run(ck, root, thorough))
    # ---------- (b') twin paths: files whose paths are equal under case folding / Unicode normalisation / trailing dots / `./` spellings (harness/c20twins.py) ----------
    if only in ("", "twins"):
        if ck.go_ok and only:
            c20mcp.build_server()
        stats["twin_paths"] = c20twins.run(ck, root, thorough)
    # ---------- (c) data races: -race build of the real binary ----------
    race_bin = os.path.join(lib.BIN, "pyscn-race")
    rc, err = 1, "skipped (VERIF_C20_ONLY)"
    if only in ("", "race"):
        with lib.Lock("race"):
            rc, out, err = lib.run(["go", "build", "-race", "-o", race_bin, "./cmd/pyscn"], cwd=lib.REPO, env=lib.GOENV, timeout=900)
    if rc != 0:
        ck.notes.append("race build unavailable: " + err[-300:])
        stats["race_build"] = "unavailable"
    else:
        d, files = make_project(root, "race", rng, n_mods=6)
        # directory-walk order differs from string order (app/ vs app.py, core/ vs core-utils/): any in-place reordering
        # or mutation of the file list shared by the analysis goroutines then really writes
        for sub in ("app", "core", "core-utils"):
            os.makedirs(os.path.join(d, sub))
            for nm in ("zeta.py", "alpha.py"):
                with open(os.path.join(d, sub, nm), "w") as f:
                    f.write("def %s_%s(x):\n    if x:\n        return 1\n    return 2\n" % (sub.replace("-", "_"), nm[:-3]))
        with open(os.path.join(d, "app.py"), "w") as f:
            f.write("import os\n\ndef app_main(v):\n    for i in range(v):\n        if i:\n            continue\n    return v\n")
        unsorted_targets = ["gen2.py", "core-utils", "app.py", "classes.py", "app", "gen0.py", "core", "ledger.py", "gen1.py"]
        plans = [(2, ["."]), (16, ["."]), (16, unsorted_targets), (16, ["."]), (4, unsorted_targets)]
        if thorough:
            plans += [(1, ["."]), (16, list(reversed(unsorted_targets))), (16, ["."]), (8, unsorted_targets), (16, ["."])]
        for procs, targets in plans:
            shutil.rmtree(os.path.join(d, ".pyscn"), ignore_errors=True)
            p = subprocess.run([race_bin, "analyze", "--json", "--no-open"] + targets, cwd=d, stdout=subprocess.PIPE, stderr=subprocess.PIPE, text=True,
                               timeout=600, env=dict(os.environ, GOMAXPROCS=str(procs)))
            stats["race_runs"] += 1
            if "DATA RACE" in p.stderr:
                i = p.stderr.index("DATA RACE")
                ck.violation("the race detector reports a data race in the concurrent analyses (GOMAXPROCS=%d, targets %s)" % (procs, targets),
                             {"kind": "race", "targets": targets, "report": p.stderr[max(0, i - 100):i + 3000]})
                break
        # ---------- (c') several analyses FAIL in one run (harness/c20fail.py): race freedom, "together = apart" and a stable failure report ----------
        stats["failing"] = c20fail.run(ck, root, race_bin, canon, first_diff, thorough)
        stats["race_runs"] += stats["failing"]["combined_runs"] + stats["failing"]["apart_runs"]
        # ---------- (c'') projects whose configuration file sets every list-valued key (harness/c20lists.py): each analysis goroutine loads it ----------
        t_ = time.time()
        stats["race_list_keys"] = c20lists.race_stage(ck, root, race_bin, thorough)
        stats["race_list_keys"]["seconds"] = round(time.time() - t_, 1)
        stats["race_runs"] += stats["race_list_keys"]["runs"]
    ck.samples = [{"project_files": files, "selects": ["complexity", "deadcode", "clones", "cbo", "lcom", "deps"]},
                  {"mcp_tools": c20mcp.TOOLS, "mcp_scenarios": [x["name"] for x in stats.get("mcp_scenarios", [])],
                   "mcp_example": {"tool": "check_complexity", "arguments": {"path": "<project>", "min_complexity": 2, "output_mode": "full"},
                                   "cli": "pyscn analyze --json --no-open --select complexity --min-complexity 2 <project>"}}]
    ck.cov.update({
        "evaluations": stats["section_comparisons"] + stats["per_file_comparisons"] + stats["mcp_hook_comparisons"] + stats["race_runs"]
                       + sum(stats.get("mcp_comparisons", {}).values()) + sum(stats.get("mcp_error_cases", {}).values())
                       + sum(stats.get("mcp_history", {}).get("calls", {}).values())
                       + stats.get("mcp_list_keys", {}).get("calls", 0) + stats.get("mcp_list_keys", {}).get("inprocess_calls", 0)
                       + stats.get("twin_paths", {}).get("per_file_comparisons", 0) + stats.get("twin_paths", {}).get("mcp_calls", 0),
        "distinct_nontrivial": stats["subsets"] + stats["section_comparisons"] + sum(stats.get("mcp_nonempty_findings", {}).values())
                               + stats.get("failing", {}).get("multi_failure_scenarios", 0) + stats.get("twin_paths", {}).get("combined_runs", 0),
        "rule": "generated project (generated control-flow modules, classes, an import cycle, a duplicated class file): combined report vs each "
                "--select run per section; per-file rows of complexity/dead code/CBO/LCOM for every file alone, reversed order and random subsets "
                "vs the whole project; all seven MCP tools (analyze_code, check_complexity, detect_clones, check_coupling, find_dead_code, "
                "check_cohesion, get_health_score) called on the real pyscn-mcp server over stdio vs `pyscn analyze --json` / `pyscn check` with "
                "the same path and options: projected findings (function/class/finding rows, clone pairs, health and category scores) in the "
                "full, summary and detailed output modes, option lattice (min/max complexity, severity, similarity threshold at and next to "
                "values present in the project, min_lines, min_cbo, max_results), directory / sub-directory / single-file / relative paths, "
                "five configuration scenarios (default, .pyscn.toml found from the server's directory, only from the path, PYSCN_CONFIG, "
                "config that sets the quick-filter keys), and per tool missing / empty / non-Python paths and invalid option values (both "
                "front ends must reject or both accept with equal findings; no crash); call HISTORIES (harness/c20hist.py): sequences of tool "
                "calls answered one after the other by ONE server process that move between projects with observably different configurations "
                "(A: .pyscn.toml X, a sub-directory of A, B0: no configuration file, B1: empty .pyscn.toml, C: .pyscn.toml Y, D: pyproject.toml "
                "[tool.pyscn] Z; the same sources everywhere, X/Y/Z/default differ in risk thresholds, exclude_patterns, [cbo]/[lcom] options, "
                "min_lines / similarity / min_complexity / min_severity filters so that every tool's findings differ between any two of them — "
                "measured, input_distribution.mcp_history.distinct_findings_per_tool), EVERY answer compared with the command line run for that "
                "call's path and options alone: per tool the named histories A,B0 / B0,A,B0 / A,C / C,A / B0,A-pkg,B0 / D,B0 on "
                "fresh servers, an Euler circuit through all 36 ordered pairs of targets (self loops included, then with other options) in "
                "overlapping pieces, and on one path an Euler circuit through all ordered pairs of option / output-mode variants; mixed "
                "tools: an Euler circuit through all 49 ordered pairs of tools with the targets on a circuit through all ordered pairs of "
                "different targets and option/output-mode variants per step, on a server without and on a server with PYSCN_CONFIG (then "
                "--config on the command line); a failing history is cut at its first wrong answer, shrunk (call alone, one earlier call + the "
                "call, greedy removal) and replayed through a `{ printf ..; sleep ..; printf ..; } | pyscn-mcp` line; "
                "LIST-VALUED configuration keys (harness/c20lists.py; enumerated from the TOML structs of internal/config/*.go — input_distribution."
                "mcp_list_keys.list_keys_of_repo —, a key of the repository without values in the harness is a broken tie): projects L1/L2/L3 (.pyscn.toml) and Lp "
                "(pyproject.toml [tool.pyscn.*]) set EVERY list-valued key ([analysis] include_patterns / exclude_patterns, [dead_code] ignore_patterns, [clones] "
                "enabled_clone_types / paths / include_patterns / exclude_patterns, [architecture] custom_patterns / allowed_patterns / forbidden_patterns / layers "
                "(packages) / rules (allow, deny), [mock_data] keywords / domains / ignore_patterns) to a list of 1 / 2 / 3 entries that differs from the built-in "
                "default at every position; project B has no configuration file and contains what every list selects (clone pairs of the default-enabled types — "
                "measured, clone_types_in_B —, files the default exclude patterns drop that have findings for every tool, sub-directory modules, the layers' "
                "modules); histories on one real server each: every tool on B as the first call of a fresh server; for every tool Ta and every L: Ta(L) then every "
                "tool on B; every tool on B, Ta(L), every tool on B (quick: L rotates over the tools; thorough: all pairs); the same sequences through repeated "
                "handler calls inside ONE pyscn-verif process (op mcp); every answer must equal the command line run for that path alone and every answer for B "
                "must equal the fresh-server answer of the same call; "
                "MCP analyze_code through the in-process hook; "
                "TWIN PATHS (harness/c20twins.py): a project whose files have paths that are EQUAL UNDER A NORMALISATION but name different files, as far as the "
                "file system of the work directory keeps them apart (probed; input_distribution.twin_paths.file_system, a family it folds is skipped with a note): "
                "case twins in one directory (Shapes.py / shapes.py / SHAPES.py, UTIL.py / util.py), case-twin directories (Pkg/mod.py / pkg/mod.py), twin directory "
                "AND twin file name (pkg/Leaf.py / Pkg/leaf.py), a twin directory below a common one (core/Sub / core/sub), Unicode NFC / NFD spellings of one name, "
                "non-ASCII case twins, a directory name with a trailing dot / trailing blank, and a file without twin; every file has its own source whose complexity, "
                "dead-code, clone, CBO and LCOM findings differ from those of every other file (measured: sections_distinct_between_all_files, else a broken tie; "
                "which twin is the bigger one is drawn from the seed); runs: the directory as `.` and by absolute path, all files as explicit targets (reversed, "
                "absolute; shuffled with the spellings ./x, x//y, x/./y, d/../d/y in rotation), the sub-directories as separate targets, the twins of each family "
                "alone in both orders, a file named twice in two spellings next to its twin: each file's rows of each of the five sections equal the rows of the "
                "file ANALYSED ALONE, no rows for other files, summary.total_files = number of different files; the MCP tools (five single-analysis tools, "
                "analyze_code, get_health_score; full / detailed / summary) on the project and on each twin directory vs the command line; "
                "-race build of the CLI under several GOMAXPROCS on successful runs; the -race build on L1/L2/L3/Lp with all analyses selected (each analysis "
                "goroutine loads the configuration file) under GOMAXPROCS 1/2/4/16 (thorough: three repetitions): no DATA RACE report, exit status not 66; FAILING analyses (harness/c20fail.py): every subset of the failure "
                "modes the command line offers (--min-complexity < 0, --clone-threshold outside [0,1], --min-cbo < 0, [lcom] thresholds the analysis "
                "rejects; rejected values at and beyond each boundary and the accepted neighbour) on a normal project, a project with unparsable "
                "files, only unparsable files (complexity then fails by itself) and files in which the analyses find nothing, with all analyses "
                "or a shuffled --select of the failing ones plus a bystander, and failures before the concurrent stage (configuration rejected at "
                "load time, unreadable / missing target): each combined command is repeated under the -race binary with GOMAXPROCS 1/2/4/16 — no "
                "race report, status 1, identical `Error:` output in every repetition — and compared with every analysis run ALONE with the same "
                "options: 'N error(s)' = number of analyses failing alone, the named failure is literally one of theirs, every section of the "
                "combined report equals the section of the lone run",
        "input_distribution": stats, "strict_order": STRICT_ORDER, "disagreements_checked": len(ck.violations),
    })
    ck.trusted += ["Coq 8.16.1 kernel", "data-race freedom is tested with the Go race detector, not proved (Go memory model and scheduler not modelled)",
                   "failing-analyses stage: the failure modes are those reachable from the `pyscn analyze` command line (dead code and the dependency analysis have none); the MCP "
                   "server is not built with -race; GORACE=atexit_sleep_ms=20 there (the default sleeps 1 s at every successful exit); a race shows only if the detector observes it in one of the repetitions",
                   "MCP side: the real cmd/pyscn-mcp binary driven over stdio JSON-RPC (initialize + tools/call); the in-process hook (op mcp) only for analyze_code",
                   "list-valued keys: the values are fixed pools per key (first 1/2/3 entries), not all lists; a list shared in place shows only if it changes the findings of "
                   "project B (measured per tool: input_distribution.mcp_list_keys.configurations_with_other_findings_than_B) or is written by two analysis goroutines under the race detector",
                   "call histories are sampled (all ordered pairs of targets per tool, all ordered pairs of tools), not all sequences; the calls of a history are sequential (concurrent calls on one server are not compared)",
                   "MCP vs CLI equality is decided on projected findings (rows, pairs, scores), not on the presentation (field names, order, wording)",
                   "twin paths: only the normalisations the file system of the work directory does NOT apply can be exercised (on a case-insensitive file system the case families are skipped, see notes); "
                   "the families are case, Unicode NFC/NFD, trailing dot / blank of a directory name and path spellings, not every conceivable normalisation",
                   "models Service/Pipeline.v, Service/Isolation.v, Cli/Frontends.v"]
    ck.finish(assumptions=["while STRICT_ORDER is False, list order and the value fields named in UNSTABLE_KEYS are not compared (they differ between two runs of the same command: property C05)"])


def first_diff(a, b, path):
    if type(a) != type(b):
        return "%s: %s vs %s" % (path, str(a)[:80], str(b)[:80])
    if isinstance(a, dict):
        for k in sorted(set(a) | set(b)):
            if a.get(k) != b.get(k):
                return first_diff(a.get(k), b.get(k), path + "." + k)
    if isinstance(a, list):
        if len(a) != len(b):
            return "%s: %d vs %d items" % (path, len(a), len(b))
        for i, (x, y) in enumerate(zip(a, b)):
            if x != y:
                return first_diff(x, y, "%s[%d]" % (path, i))
    return "%s: %s vs %s" % (path, str(a)[:80], str(b)[:80])
