"""Generated Python projects rich in ties, and the repeated-run comparison used by the C05 check.

Every construct below exists to put >= 3 keys with equal primary sort key into one of pyscn's Go maps, so that a
missing tie-breaker or an unsorted map range shows up as a report difference between two runs on the same files.
"""
import json
import os
import re
import shutil
import subprocess

# fields that legitimately differ between two runs (timestamps, durations, tool version)
DROP = {"generated_at", "duration_ms", "duration", "version", "GeneratedAt", "Version", "analysis_time",
        "AnalysisTime", "Duration", "DurationMs", "GeneratedAtTime"}


def fn_complexity(name, n, indent=""):
    s = "%sdef %s(x):\n" % (indent, name)
    for i in range(n - 1):
        s += "%s    if x > %d:\n%s        x += %d\n" % (indent, i, indent, i + 1)
    return s + "%s    return x\n\n\n" % indent


def fn_two_terminators(name, order):
    """A dead statement preceded (within five lines) by blocks ending in different terminators."""
    arms = {"raise": "raise ValueError(x)", "return": "return x + 1"}
    a, b = order
    return ("def %s(x):\n    if x:\n        %s\n    else:\n        %s\n    print(\"dead\", x)\n    x = x + 2\n\n\n"
            % (name, arms[a], arms[b]))


def fn_loop_terminators(name, kws):
    """Inside a loop: if/elif arms ending in break / continue / return / raise, then a dead statement."""
    arms = {"raise": "raise KeyError(v)", "return": "return v", "break": "break", "continue": "continue"}
    s = "def %s(vs):\n    for v in vs:\n" % name
    for i, kw in enumerate(kws):
        head = "if" if i == 0 else "elif"
        if i == len(kws) - 1:
            s += "        else:\n            %s\n" % arms[kw]
        else:
            s += "        %s v == %d:\n            %s\n" % (head, i, arms[kw])
    s += "        print(\"dead\", v)\n    return None\n\n\n"
    return s


def fn_many_dead(name, n):
    """n separate dead blocks in one function."""
    s = "def %s(x):\n" % name
    for i in range(n):
        s += "    while x > %d:\n        break\n        x -= %d\n" % (i, i + 1)
    return s + "    return x\n    x = 0\n\n\n"


def clone_body(kind):
    """A function template (>= 25 lines) whose structure differs between kinds; %s is the function name."""
    if kind == 0:
        s = "def %s(items, factor):\n    total = 0\n    count = 0\n    values = []\n"
        for i in range(4):
            s += ("    for item in items:\n        total = total + item * factor + %d\n        count = count + 1\n"
                  "        values.append(total - count)\n" % i)
        s += ("    average = total / (count + 1)\n    spread = max(values + [0]) - min(values + [0])\n"
              "    result = {\"total\": total, \"count\": count, \"average\": average, \"spread\": spread}\n    return result\n\n\n")
        return s
    if kind == 1:
        s = "def %s(path, mode):\n    lines = []\n    errors = []\n    handle = open(path, mode)\n    try:\n"
        for i in range(3):
            s += ("        for raw in handle:\n            text = raw.strip()\n            if not text:\n                continue\n"
                  "            if text.startswith(\"#%d\"):\n                errors.append(text)\n            else:\n"
                  "                lines.append(text.lower())\n" % i)
        s += "    finally:\n        handle.close()\n    return lines, errors\n\n\n"
        return s
    s = "def %s(matrix):\n    rows = len(matrix)\n    cols = len(matrix[0]) if rows else 0\n    out = []\n"
    for i in range(3):
        s += ("    while cols > %d:\n        column = []\n        for r in range(rows):\n            column.append(matrix[r][cols - 1])\n"
              "        out.append(column)\n        cols = cols - 1\n" % i)
    s += "    sums = [sum(col) for col in out]\n    best = max(sums) if sums else None\n    return out, sums, best\n\n\n"
    return s


CLONE_BODIES = [clone_body(0), clone_body(1), clone_body(2)]


def cls_cbo(name, deps, bases=()):
    s = "class %s%s:\n" % (name, ("(" + ", ".join(bases) + ")") if bases else "")
    s += "    def __init__(self):\n"
    for i, d in enumerate(deps):
        s += "        self.f%d = %s()\n" % (i, d)
    if not deps:
        s += "        self.f0 = 0\n"
    s += "\n    def run(self):\n        return self.f0\n\n\n"
    return s


def cls_lcom(name, groups):
    s = "class %s:\n    def __init__(self):\n" % name
    for g in range(groups):
        s += "        self.a%d = %d\n" % (g, g)
    for g in range(groups):
        s += "\n    def get%d(self):\n        return self.a%d\n\n    def set%d(self, v):\n        self.a%d = v\n" % (g, g, g, g)
    return s + "\n\n"


def ties_project(rng, scale=1):
    """files: dict name -> content. scale multiplies the number of tied items."""
    files = {}
    names = ["alpha", "bravo", "cobra", "delta", "eagle", "fargo", "gamma", "hotel", "india", "jolly", "karma", "lemon",
             "mango", "noble", "ocean", "piano", "quota", "robin", "sigma", "tango"]
    rng.shuffle(names)
    # equal complexity functions, several files
    for fi in range(2):
        body = ""
        for k in range(5 * scale):
            body += fn_complexity("%s_%d_%d" % (names[k % len(names)], fi, k), 2 + (k % 2))
        body += "class Holder%d:\n" % fi
        for k in range(4):
            body += fn_complexity("m_%s" % names[(k + 7) % len(names)], 2, "    ")
        files["cx%d.py" % fi] = body
    # dead code: two terminators within 5 lines, loops with 3-4 terminators, many dead blocks, several functions per file
    for fi in range(2):
        body = ""
        orders = [("raise", "return"), ("return", "raise")]
        for k in range(3 * scale):
            body += fn_two_terminators("two_%s_%d" % (names[k], k), orders[k % 2])
        kwsets = [["break", "continue", "raise"], ["return", "break", "continue"], ["raise", "return", "break", "continue"],
                  ["continue", "raise", "return"]]
        for k in range(3 * scale):
            kws = list(kwsets[(k + fi) % len(kwsets)])
            rng.shuffle(kws)
            body += fn_loop_terminators("loop_%s_%d" % (names[k + 5], k), kws)
        body += fn_many_dead("many_%d" % fi, 4)
        files["dead%d.py" % fi] = body
    # CBO: classes of equal coupling with several dependencies
    base = "".join(cls_cbo("Base%d" % i, []) for i in range(5))
    files["cbobase.py"] = base
    for fi in range(2):
        body = "from cbobase import Base0, Base1, Base2, Base3, Base4\n\n\n"
        for k in range(6 * scale):
            deps = ["Base%d" % ((k + j) % 5) for j in range(3)]
            rng.shuffle(deps)
            body += cls_cbo("%s%d%d" % (names[k % len(names)].capitalize(), fi, k), deps, bases=["Base%d" % ((k + 3) % 5)] if k % 2 else [])
        files["cbo%d.py" % fi] = body
    # LCOM: classes with several disjoint method groups
    files["lcom0.py"] = "".join(cls_lcom("Loose%d" % k, 2 + k % 2) for k in range(4 * scale))
    # LCOM: method graphs whose union-find trees get rank >= 2 (attributes shared by two or three methods, no hub method): a
    # partition that depended on the order attributes are visited in (a Go map) would differ between runs
    import classgen
    files["lcomuf.py"] = "\n\n".join(classgen.unionfind_stress_classes(rng, 14 * scale))
    # import cycles: several 2-cycles and 3-cycles (equal severity and size)
    for k in range(3 + scale):
        files["cyca%d.py" % k] = "import cycb%d\n\n\ndef ga%d():\n    return cycb%d\n" % (k, k, k)
        files["cycb%d.py" % k] = "import cyca%d\n\n\ndef gb%d():\n    return cyca%d\n" % (k, k, k)
    for t in range(3):
        ns = ["tri%d_%d" % (t, i) for i in range(3)]
        for i in range(3):
            a, b = ns[i], ns[(i + 1) % 3]
            extra = "import %s\n" % ns[(i + 2) % 3] if t == 2 else ""
            files["%s.py" % a] = "import %s\n%s\n\ndef h_%s():\n    return %s\n" % (b, extra, a, b)
    # equal-length import chains and a hub that exhausts the per-root path budget
    for c in range(4):
        for i in range(4):
            nxt = "import ch%d_%d\n" % (c, i + 1) if i < 3 else "import os\n"
            files["ch%d_%d.py" % (c, i)] = "%s\n\ndef c%d_%d():\n    return %d\n" % (nxt, c, i, i)
    hub = "".join("import ch%d_0\n" % c for c in range(4)) + "".join("import cyca%d\n" % k for k in range(3)) + \
        "import tri0_0\nimport tri1_0\n"
    files["hub.py"] = hub + "\n\ndef hub():\n    return 0\n"
    files["hub2.py"] = hub + "import hub\n\n\ndef hub2():\n    return 0\n"
    # a module with several dependencies leading into overlapping import cycles, and a chain hanging off the cycle
    # (whatever is computed while walking such a graph must not depend on the order the dependencies are visited in)
    for g in range(2):
        pre = "ov%d_" % g
        ring = ["billing", "catalog", "shipping", "returns"][:3 + g]
        files[pre + "app.py"] = "".join("import %s%s\n" % (pre, m) for m in ["orders"] + ring) + "\n\ndef run():\n    return 0\n"
        files[pre + "orders.py"] = "".join("import %s%s\n" % (pre, m) for m in ring) + "import %saudit\n\n\ndef o():\n    return 0\n" % pre
        for m in ring:
            files[pre + m + ".py"] = "import %sorders\n\n\ndef f_%s():\n    return 0\n" % (pre, m)
        tail = ["audit", "storage", "serializer", "settings"]
        for i, m in enumerate(tail):
            nxt = "import %s%s\n" % (pre, tail[i + 1]) if i + 1 < len(tail) else "import os\n"
            files[pre + m + ".py"] = nxt + "\n\ndef t_%s():\n    return 0\n" % m
    # a file list whose walk order is not byte-wise path order (app/ next to app.py, core/ next to core-legacy/): whoever re-sorts
    # the list that the concurrent analyses share changes what the others iterate over
    for sub, mods_ in (("app", ["views", "models"]), ("core", ["engine"]), ("core-legacy", ["old_engine"]), ("utils.old", ["misc"])):
        for nm in mods_:
            files["%s/%s.py" % (sub, nm)] = fn_complexity("%s_%s" % (sub.replace("-", "_").replace(".", "_"), nm), 3) + \
                "\n\nclass %s%s:\n    def __init__(self):\n        self.a = 0\n\n    def get(self):\n        return self.a\n" % (nm.capitalize(), "X") + \
                fn_two_terminators("tt_%s" % nm, ("return", "raise"))
    files["app.py"] = fn_complexity("app_entry", 2) + fn_two_terminators("app_tt", ("raise", "return"))
    files["core.py"] = fn_complexity("core_entry", 2)
    files["utils.py"] = fn_complexity("utils_entry", 2)
    # several identical clone groups (each body 3 copies), spread over two files
    c0, c1 = "", ""
    for g, tmpl in enumerate(CLONE_BODIES):
        c0 += tmpl % ("clone%d_a" % g)
        c1 += tmpl % ("clone%d_b" % g)
        c1 += tmpl % ("clone%d_c" % g)
    files["clones0.py"] = c0
    files["clones1.py"] = c1
    return files


# ----------------------------------------------------------------------------------------------
# LARGE functions: families of near-identical functions whose LSH feature sets (structural subtree hashes, 4-grams of
# node labels) are big. Whatever the MinHash / LSH stage does with a big feature set must not vary between runs.
# ----------------------------------------------------------------------------------------------
_BINOPS = ["+", "-", "*", "//", "%", "&", "|", "^", "<<", "**"]
_CMPOPS = ["<", ">", "==", "!=", "<=", ">=", "in", "not in", "is", "is not"]


def _expr(rng, depth, names):
    """A random expression; the SHAPE (not the names / constants) is what the feature extractor sees."""
    if depth <= 0:
        return rng.choice([rng.choice(names), str(rng.randint(0, 99)), rng.choice(names), '"s%d"' % rng.randint(0, 9)])
    sub = lambda: _expr(rng, depth - rng.randint(1, 2), names)
    k = rng.randrange(14)
    if k == 0:
        return "(%s %s %s)" % (sub(), rng.choice(_BINOPS), sub())
    if k == 1:
        return "%s(%s)" % (rng.choice(["len", "abs", "str", "int", "max", "sum"]), ", ".join(sub() for _ in range(rng.randint(1, 3))))
    if k == 2:
        return "%s[%s]" % (rng.choice(names), sub())
    if k == 3:
        return "%s.%s" % (rng.choice(names), rng.choice(["real", "imag", "count", "index"]))
    if k == 4:
        return "(%s %s %s)" % (sub(), rng.choice(_CMPOPS), sub())
    if k == 5:
        return "(%s %s %s)" % (sub(), rng.choice(["and", "or"]), sub())
    if k == 6:
        return "(not %s)" % sub()
    if k == 7:
        return "[%s]" % ", ".join(sub() for _ in range(rng.randint(0, 3)))
    if k == 8:
        return "(%s if %s else %s)" % (sub(), sub(), sub())
    if k == 9:
        return "{%s: %s}" % (sub(), sub())
    if k == 10:
        return "(%s, %s)" % (sub(), sub())
    if k == 11:
        return "[%s for q in %s if %s]" % (sub(), rng.choice(names), sub())
    if k == 12:
        return "%s.%s(%s)" % (rng.choice(names), rng.choice(["get", "append", "pop", "find"]), sub())
    return "(-%s)" % sub()


def _stmts(rng, names, budget, indent, depth):
    """About `budget` lines of random statements at the given indent."""
    out = []
    pad = "    " * indent
    while budget > 0:
        k = rng.randrange(12) if depth > 0 and budget >= 4 else rng.randrange(5)
        e = lambda d=2: _expr(rng, d, names)
        if k == 0:
            out.append("%s%s = %s" % (pad, rng.choice(names), e(3)))
        elif k == 1:
            out.append("%s%s %s= %s" % (pad, rng.choice(names), rng.choice(["+", "-", "*"]), e()))
        elif k == 2:
            out.append("%s%s" % (pad, e(3)))
        elif k == 3:
            out.append("%s%s[%s] = %s" % (pad, rng.choice(names), e(1), e()))
        elif k == 4:
            out.append("%s%s, %s = %s, %s" % (pad, rng.choice(names), rng.choice(names), e(1), e()))
        else:
            inner = rng.randint(1, min(4, budget - 1))
            body = _stmts(rng, names, inner, indent + 1, depth - 1)
            if k in (5, 6):
                out.append("%sif %s:" % (pad, e()))
                out += body
                if rng.random() < 0.5:
                    out.append("%s%s:" % (pad, rng.choice(["else", "elif %s" % e(1)])))
                    out += _stmts(rng, names, 1, indent + 1, 0)
                    budget -= 2
            elif k == 7:
                out.append("%sfor %s in %s:" % (pad, rng.choice(names), e()))
                out += body
            elif k == 8:
                out.append("%swhile %s:" % (pad, e()))
                out += body + ["%s    break" % pad]
                budget -= 1
            elif k == 9:
                out.append("%stry:" % pad)
                out += body
                out.append("%sexcept %s:" % (pad, rng.choice(["KeyError", "ValueError", "(TypeError, OSError)"])))
                out += _stmts(rng, names, 1, indent + 1, 0)
                budget -= 2
            elif k == 10:
                out.append("%swith %s as %s:" % (pad, e(1), rng.choice(names)))
                out += body
            else:
                out.append("%sif %s:" % (pad, e(1)))
                out.append("%s    %s" % (pad, rng.choice(["return %s" % e(1), "raise ValueError(%s)" % e(1), "pass", "assert %s" % e(1)])))
                inner = 1
            budget -= inner
        budget -= 1
    return out


_RENAME = [("alpha", "first"), ("beta", "second"), ("gamma", "third")]


def big_family(rng, fam, lines, variants):
    """`variants` near-identical functions of about `lines` lines: variant 0 is the template, the others rename one identifier,
    change literals and (from variant 2 on) replace one statement - Type-1/2/3 clones of one another. Returns [(name, text)]."""
    names = ["alpha", "beta", "gamma", "delta", "omega", "kappa"]
    body = _stmts(rng, names, lines - 2, 1, 2)
    out = []
    for v in range(variants):
        b = list(body)
        if v >= 1:
            old, new = _RENAME[(v - 1) % len(_RENAME)]
            b = [re.sub(r"\b%s\b" % old, new, ln) for ln in b]
            b = [re.sub(r"\b(\d+)\b", lambda m: str((int(m.group(1)) + v) % 100), ln) if i % 7 == v else ln for i, ln in enumerate(b)]
        if v >= 2:
            flat = [i for i, ln in enumerate(b) if ln.startswith("    ") and not ln.startswith("     ") and not ln.rstrip().endswith(":")]
            if flat:
                b[flat[(v * 5) % len(flat)]] = "    omega = kappa"
        nm = "big_%s_%d" % (fam, v)
        args = list(names)
        if v >= 1:
            args = [new if a == old else a for a in args]
        out.append((nm, "def %s(%s):\n%s\n    return %s\n" % (nm, ", ".join(args), "\n".join(b), args[0])))
    return out


def big_project(rng, families):
    """families: list of (lines, variants). One file per function (as many files as functions keeps every fragment apart)."""
    files = {}
    for f, (lines, variants) in enumerate(families):
        for nm, text in big_family(rng, "f%02d" % f, lines, variants):
            files["%s.py" % nm] = text
    return files


def write_project(files, d):
    shutil.rmtree(d, ignore_errors=True)
    os.makedirs(d)
    for n, c in files.items():
        p = os.path.join(d, n)
        os.makedirs(os.path.dirname(p), exist_ok=True)
        with open(p, "w") as f:
            f.write(c)


def canon(x):
    if isinstance(x, dict):
        return {k: canon(v) for k, v in x.items() if k not in DROP}
    if isinstance(x, list):
        return [canon(v) for v in x]
    return x


def diff_paths(a, b, p, out, detail):
    """Collect the JSON path classes (list indices dropped) at which a and b differ."""
    if type(a) != type(b):
        out.add(p)
        detail.setdefault(p, (a, b))
        return
    if isinstance(a, dict):
        for k in sorted(set(a) | set(b)):
            if k not in a or k not in b:
                out.add(p + "." + k)
                detail.setdefault(p + "." + k, (a.get(k), b.get(k)))
            else:
                diff_paths(a[k], b[k], p + "." + k, out, detail)
    elif isinstance(a, list):
        if len(a) != len(b):
            out.add(p + "[#]")
            detail.setdefault(p + "[#]", (len(a), len(b)))
            return
        for x, y in zip(a, b):
            diff_paths(x, y, p + "[]", out, detail)
    elif a != b:
        out.add(p)
        detail.setdefault(p, (a, b))


TS = re.compile(r"\d{4}-\d{2}-\d{2}[T ]\d{2}:\d{2}:\d{2}(\.\d+)?(Z|[+-]\d{2}:?\d{2})?|\b\d+(\.\d+)?\s?(ms|µs|us|ns|s)\b")


def canon_text(s):
    """Text reports (yaml/csv/html): mask timestamps and durations, keep everything else."""
    out = []
    for line in s.splitlines():
        low = line.lower()
        if "generated" in low or "duration" in low or "version" in low or "analysis_time" in low:
            line = TS.sub("<T>", line)
            line = re.sub(r"\d+", "<N>", line)
        out.append(TS.sub("<T>", line))
    return out


def run_once(binary, proj, extra, gomaxprocs, fmt="json", timeout=300):
    """One `pyscn analyze` run; returns (rc, report or None, stderr)."""
    rep = os.path.join(proj, ".pyscn", "reports")
    shutil.rmtree(rep, ignore_errors=True)
    env = dict(os.environ, GOMAXPROCS=str(gomaxprocs))
    try:
        p = subprocess.run([binary, "analyze", "--" + fmt, "--no-open"] + extra + ["."], cwd=proj, stdout=subprocess.PIPE,
                           stderr=subprocess.PIPE, text=True, env=env, timeout=timeout)
    except subprocess.TimeoutExpired:
        return -9, None, "timeout"
    data = None
    if os.path.isdir(rep):
        fs = sorted(f for f in os.listdir(rep) if f.endswith("." + fmt))
        if fs:
            try:
                raw = open(os.path.join(rep, fs[-1])).read()
                data = canon(json.loads(raw)) if fmt == "json" else canon_text(raw)
            except Exception:
                data = None
    return p.returncode, data, p.stderr


def repeat(binary, proj, extra, n, fmt="json", procs=(1, 2, 16)):
    """n runs; returns dict(paths -> count of runs differing from run 0, detail, distinct, reports, rcs)."""
    reps, rcs = [], []
    for i in range(n):
        rc, data, err = run_once(binary, proj, extra, procs[i % len(procs)], fmt)
        reps.append(data)
        rcs.append(rc)
    paths, detail = {}, {}
    for i in range(1, n):
        out = set()
        if fmt == "json":
            diff_paths(reps[0], reps[i], "", out, detail)
        else:
            a, b = reps[0] or [], reps[i] or []
            if a != b:
                k = next((j for j, (x, y) in enumerate(zip(a, b)) if x != y), min(len(a), len(b)))
                key = "<%s line>" % fmt
                out.add(key)
                detail.setdefault(key, (a[k] if k < len(a) else None, b[k] if k < len(b) else None))
        for p in out:
            paths[p] = paths.get(p, 0) + 1
    distinct = len(set(json.dumps(r, sort_keys=True) for r in reps))
    return {"paths": paths, "detail": detail, "distinct": distinct, "reports": reps, "rcs": rcs}


if __name__ == "__main__":
    import random
    import sys
    binary, d, n = sys.argv[1], sys.argv[2], int(sys.argv[3])
    extra = sys.argv[4:]
    fmt = "json"
    for f in ("yaml", "csv", "html"):
        if "--" + f in extra:
            extra.remove("--" + f)
            fmt = f
    if not os.path.isdir(d):
        write_project(ties_project(random.Random(7)), d)
    r = repeat(binary, d, extra, n, fmt)
    for p, c in sorted(r["paths"].items()):
        print(c, p, str(r["detail"][p])[:160])
    print("distinct reports:", r["distinct"], "rcs", r["rcs"])
