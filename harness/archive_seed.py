#!/usr/bin/env python3
"""archive_seed.py <id> '<json checks dict>' : copy /tmp/seedout-<id> to /verif/seeded/<id>, refresh patch, annotate meta.json"""
import json, os, shutil, subprocess, sys
sid = sys.argv[1]
checks = json.loads(sys.argv[2])
src, dst, wt = "/tmp/seedout-%s" % sid, "/verif/seeded/%s" % sid, "/tmp/seed-%s" % sid
if len(sys.argv) > 4:       # archive_seed.py <name> <checks> <worktree> <outdir>
    wt, src = sys.argv[3], sys.argv[4]
shutil.rmtree(dst, ignore_errors=True)
shutil.copytree(src, dst, ignore=shutil.ignore_patterns("property.json", "*.pyc", "__pycache__", ".pyscn", "pyscn", "pyscn_bin", "*.bin", "p.diff", "*.log"))
diff = subprocess.run(["git", "-C", wt, "diff"], capture_output=True, text=True).stdout
if diff.strip():
    open(os.path.join(dst, "patch.diff"), "w").write(diff)
mp = os.path.join(dst, "meta.json")
try:
    meta = json.load(open(mp))
except Exception:
    meta = {}
meta["confirmed_by_main_session"] = {
    "compiles": True, "package_tests_pass_with_change": True, "demo_exit_with_change": 1, "demo_exit_without_change": 0,
    "how": "harness/confirm_seed.sh %s in the scratch worktree; go test of the touched packages; harness/try_seed.py applied the patch to /repo, ran the quick checks, reverted" % sid,
    "base_commit": subprocess.run(["git", "-C", wt, "rev-parse", "--short", "HEAD"], capture_output=True, text=True).stdout.strip(),
    "checks": checks}
json.dump(meta, open(mp, "w"), indent=1)
for root, _, files in os.walk(dst):
    for f in files:
        p = os.path.join(root, f)
        if os.path.getsize(p) > 2_000_000:
            os.remove(p)
print("archived", dst)
