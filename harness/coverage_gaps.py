#!/usr/bin/env python3
"""Which code of the anchored files does no check input reach?  (a tool for closing generator gaps, not a check)
usage: VERIF_COVER=1 GOCOVERDIR=<dir> python3 harness/run_check.py Cxx quick   (for every check), then
       python3 harness/coverage_gaps.py <dir> [file-substring ...]
Prints, per anchored file, the uncovered blocks (file:startline-endline) merged into line ranges."""
import json
import os
import subprocess
import sys

import lib

d = sys.argv[1]
only = sys.argv[2:]
prof = os.path.join(d, "profile.txt")
subprocess.run(["go", "tool", "covdata", "textfmt", "-i=" + d, "-o=" + prof], cwd=lib.REPO, env=lib.GOENV, check=True)
anchored = set()
for l in open(os.path.join(lib.VERIF, "properties.jsonl")):
    anchored.update(json.loads(l)["anchors"]["files"])
cov = {}
for line in open(prof):
    if line.startswith("mode:"):
        continue
    loc, nstmt, cnt = line.rsplit(" ", 2)
    f, rng = loc.split(":")
    f = f.replace("github.com/ludo-technologies/pyscn/", "")
    if f not in anchored or (only and not any(o in f for o in only)):
        continue
    a, b = rng.split(",")
    s, e = int(a.split(".")[0]), int(b.split(".")[0])
    key = (f, s, e)
    cov[key] = max(cov.get(key, 0), int(cnt))
byfile = {}
for (f, s, e), c in cov.items():
    byfile.setdefault(f, []).append((s, e, c))
tot_u = tot = 0
for f in sorted(byfile):
    blocks = sorted(byfile[f])
    un = [(s, e) for s, e, c in blocks if c == 0]
    tot += len(blocks)
    tot_u += len(un)
    merged = []
    for s, e in un:
        if merged and s <= merged[-1][1] + 1:
            merged[-1][1] = max(merged[-1][1], e)
        else:
            merged.append([s, e])
    print("%s: %d/%d blocks uncovered: %s" % (f, len(un), len(blocks), " ".join("%d-%d" % (s, e) for s, e in merged)))
print("TOTAL uncovered blocks in anchored files: %d of %d" % (tot_u, tot))
