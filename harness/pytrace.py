#!/usr/bin/env python3
"""pytrace.py <module.py> : import the module, call run_all() under sys.settrace and print, as JSON, every line of that file
on which a 'line' event fired, with the name of the function whose CALLS entry was running when it first fired."""
import importlib.util
import json
import os
import sys

path = os.path.abspath(sys.argv[1])
hits = {}
current = ["<import>"]


def tracer(frame, event, arg):
    if frame.f_code.co_filename != path:
        return None
    if event == "line":
        hits.setdefault(frame.f_lineno, current[0])
    return tracer


spec = importlib.util.spec_from_file_location("corpus_mod", path)
mod = importlib.util.module_from_spec(spec)
sys.settrace(tracer)
try:
    spec.loader.exec_module(mod)
    for fn, args in mod.CALLS:
        current[0] = "%s%r" % (getattr(fn, "__name__", "?"), args)
        mod._safe(fn, *args)
finally:
    sys.settrace(None)
print(json.dumps({"executed": sorted(hits), "first_call": {str(k): v for k, v in hits.items()}}))
