#!/usr/bin/env python3
"""Replays one violation file: prints it and re-runs the check that produced it with the same seed."""
import json
import os
import subprocess
import sys

r = json.load(open(sys.argv[1]))
print(json.dumps(r, indent=1)[:4000])
tier = "thorough" if "-thorough-" in os.path.basename(sys.argv[1]) else "quick"
env = dict(os.environ, VERIF_SEED=str(r.get("seed", 20261001)))
sys.exit(subprocess.call([sys.executable, os.path.join(os.path.dirname(os.path.abspath(__file__)), "run_check.py"), r["property"], tier], env=env))
