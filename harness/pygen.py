"""Generated Python programs for the control-flow properties (C01-C04).

A program is a module = list of statements; statements are tuples mirroring coq/Py/PyAST.v:
  ('simple',k) ('pass',k) ('return',k) ('raise',k) ('break',k) ('continue',k)
  ('if',k,body,elifs,els) ('while',k,body,els) ('for',k,body,els)
  ('try',k,body,handlers,els,fin) ('with',k,body) ('match',k,cases)
  ('comp',k,clauses) ('def',k,name,body) ('class',k,name,body)
elifs/handlers/cases = list of (k, body); els/fin = None or list.
k = line number of the statement header, assigned by layout().

The printed source is valid Python whose every observable statement calls a marker
of the runtime rt.py (M, C, I, W, H, S, G, R, X, MI, B) with its own line number, so that the
same file is analysed by pyscn and executed by CPython.
"""
import random

TERMS = ('return', 'raise', 'break', 'continue')


class Gen:
    def __init__(self, rng, constructs=None, max_depth=3, max_len=4, multi_elif=True, loop_else=True, nested_defs=True,
                 classes=True):
        self.rng = rng
        self.max_depth = max_depth
        self.max_len = max_len
        self.constructs = constructs or ['simple', 'pass', 'return', 'raise', 'break', 'continue', 'if', 'while', 'for', 'try',
                                         'with', 'match', 'comp', 'def', 'class']
        self.multi_elif = multi_elif
        self.loop_else = loop_else
        self.nested_defs = nested_defs
        self.classes = classes
        self.names = 0

    def fresh(self):
        self.names += 1
        return self.names

    def block(self, depth, in_loop, in_func, in_class_body=False, min_len=1):
        n = self.rng.randint(min_len, self.max_len)
        out = []
        for i in range(n):
            out.append(self.stmt(depth, in_loop, in_func, in_class_body, last=(i == n - 1)))
        return out

    def stmt(self, depth, in_loop, in_func, in_class_body, last=True):
        r = self.rng
        cands = []
        for c in self.constructs:
            if c in ('break', 'continue') and (not in_loop or in_class_body):
                continue
            if c == 'return' and (not in_func or in_class_body):
                continue
            if c in ('if', 'while', 'for', 'try', 'with', 'match', 'def', 'class') and depth >= self.max_depth:
                continue
            if c == 'def' and not self.nested_defs:
                continue
            if c == 'class' and not self.classes:
                continue
            cands.append(c)
        # weights: terminators and simple statements common, compound less so with depth
        w = []
        for c in cands:
            if c == 'simple':
                w.append(5)
            elif c in TERMS:
                w.append(1.6 if last else 0.3)
            elif c in ('def', 'class'):
                w.append(0.6)
            elif c in ('pass', 'comp'):
                w.append(1)
            else:
                w.append(2.2)
        c = r.choices(cands, w)[0]
        d = depth + 1
        if c in ('simple', 'pass', 'return', 'raise', 'break', 'continue'):
            return (c, 0)
        if c == 'comp':
            # number of `if` clauses after each `for` clause: 0, 1, 2 and 3 (each if clause is a decision point of its own for C03;
            # pyscn counts at most one per for clause, finding F8)
            return ('comp', 0, [r.choice([0, 0, 1, 1, 1, 2, 3]) for _ in range(r.randint(1, 2))])
        if c == 'if':
            n_el = r.choice([0, 0, 1, 1, 2, 3]) if self.multi_elif else r.choice([0, 0, 1])
            elifs = [(0, self.block(d, in_loop, in_func, in_class_body)) for _ in range(n_el)]
            els = self.block(d, in_loop, in_func, in_class_body) if r.random() < 0.55 else None
            return ('if', 0, self.block(d, in_loop, in_func, in_class_body), elifs, els)
        if c in ('while', 'for'):
            els = None
            if self.loop_else and r.random() < 0.35:
                els = self.block(d, in_loop, in_func, in_class_body)   # break here belongs to the enclosing loop
            return (c, 0, self.block(d, not in_class_body, in_func, in_class_body), els)
        if c == 'try':
            nh = r.choice([0, 1, 1, 2])
            fin = self.block(d, in_loop, in_func, in_class_body) if (nh == 0 or r.random() < 0.45) else None
            hs = [(0, self.block(d, in_loop, in_func, in_class_body)) for _ in range(nh)]
            els = self.block(d, in_loop, in_func, in_class_body) if (nh > 0 and r.random() < 0.35) else None
            return ('try', 0, self.block(d, in_loop, in_func, in_class_body), hs, els, fin)
        if c == 'with':
            return ('with', 0, self.block(d, in_loop, in_func, in_class_body))
        if c == 'match':
            return ('match', 0, [(0, self.block(d, in_loop, in_func, in_class_body)) for _ in range(r.randint(1, 3))])
        if c == 'def':
            return ('def', 0, self.fresh(), self.block(d, False, True, False))
        if c == 'class':
            return ('class', 0, self.fresh(), self.block(d, False, in_func, True))
        raise AssertionError(c)

    def function(self):
        return ('def', 0, self.fresh(), self.block(1, False, True))

    def module(self, n_funcs=4, with_class=True):
        out = []
        for _ in range(n_funcs):
            out.append(self.function())
        if with_class and self.classes:
            body = [('def', 0, self.fresh(), self.block(2, False, True)) for _ in range(self.rng.randint(1, 2))]
            if self.rng.random() < 0.5:
                body.insert(0, ('simple', 0))
            out.append(('class', 0, self.fresh(), body))
        return out


# ---------------------------------------------------------------------------------------
# layout: assigns line numbers (ids) and prints. Returns (numbered_ast, source_lines)
# ---------------------------------------------------------------------------------------
HEADER = ["from rt import *"]          # line 1

# Surface forms of a simple statement: each runs the marker M(k) exactly once and falls through (in the models they are all
# `simple k`); cfg_builder.go has one case per statement kind (assign, augmented/annotated assign, assert, del, global, import,
# pass, expression, conditional expression, walrus, lambda), so the generator has to spell them all.
SIMPLE_FORMS = ["M(%d)", "M(%d)", "_v = M(%d)", "_v: object = M(%d)", "NS.acc += [M(%d)]", "assert M(%d) is None", "_d = M(%d); del _d",
                "global _g; M(%d)", "import os; M(%d)", "from os import path; M(%d)", "M(%d); pass", "_v = M(%d) if T else 0",
                "M(%d) if T else 0", "_w = (_y := M(%d))", "_l = lambda: 0; M(%d)", "NS.x = M(%d)", "print(end='', *[M(%d)][:0])"]
# statements without a marker call: only in the files that are analysed but never executed (C02-C04 decorated/async stream) -
# a statement is a statement for the dead-code report whatever it is made of (the stub idiom `...`, a bare name, a docstring-like
# string, a bare annotation, a number, a parenthesised expression, a type alias ...)
NOEXEC_FORMS = ["...", "pass", "'text %d'", "_n: int", "%d", "NS", "(NS)", "NS.x", "-1", "not NS", "NS, NS", "[]", "{}", "_u = ...",
                "yield_ = None", "lambda: %d", "NS.x: int = %d", "del NS.x", "global _g%d", "import os.path", "await_ = 0", "f'{NS}'"]


class Trivia:
    """Opt-in trivia (comments, blank lines, line continuations) at the clause positions of compound statements.  Off by default:
    layout() without a Trivia prints exactly what it always printed.  Files with trivia are analysed, never executed.

    Slots (clause = if elif else for while for_else while_else try except try_else finally with match case def class):
      hdr:<clause>   on the header line(s): after the colon, or a backslash continuation before the colon
      pre:<clause>   own lines between the header and the first statement of its block
      post:<clause>  own lines after the last statement of the block (= before the next elif/else/except/finally/case clause,
                     or before whatever follows the statement)
      deco           between the decorator lines and the def/class header
    A choice is made per (statement, slot, arm index) either at random (rng, p) or from `forced`:
    {(id(statement tuple given to layout), slot, arm or None): kind}; key (None, slot, None) forces the kind at every such slot."""
    HDR = ('comment', 'comment_tight', 'spaces', 'cont', 'cont_comment')
    PRE = ('c_block', 'c_col0', 'c_header', 'c_deeper', 'blank', 'blank_c_blank', 'c_c', 'c_code')
    POST = ('c_block', 'c_outer', 'c_col0', 'c_deeper', 'blank', 'blank_c')
    DECO = ('c_same', 'blank', 'c_col0', 'c_deeper')
    CLAUSES = ('if', 'elif', 'else', 'for', 'while', 'for_else', 'while_else', 'try', 'except', 'try_else', 'finally', 'with',
               'match', 'case', 'def', 'class')

    def __init__(self, rng=None, p=0.0, forced=None, star=(), exclude=(), few_deco=False):
        self.rng, self.p, self.forced = rng, p, dict(forced or {})
        self.exclude = set(exclude)    # (slot, kind) pairs never picked at random
        self.few_deco = few_deco       # decorators only where the deco slot asks for one (keeps the systematic cases short)
        self.star = set(star)          # id() of try statements whose handlers are spelled `except*`
        self.used = {}                 # (slot, kind) -> count, for the coverage statistics

    @classmethod
    def kinds(cls, slot):
        return cls.DECO if slot == 'deco' else {'hdr': cls.HDR, 'pre': cls.PRE, 'post': cls.POST}[slot.split(':')[0]]

    def pick(self, slot, s, arm=None):
        kind = None
        for key in ((id(s), slot, arm), (id(s), slot, None), (None, slot, None)):
            if key in self.forced:
                kind = self.forced[key]
                break
        else:
            if self.rng is not None and self.p > 0 and self.rng.random() < self.p:
                kind = self.rng.choice([k for k in self.kinds(slot) if (slot, k) not in self.exclude])
        if kind is not None:
            self.used[(slot, kind)] = self.used.get((slot, kind), 0) + 1
        return kind


# comment texts: plain, code-like (a comment that spells a clause header or a def must stay a comment), unicode, empty
COMMENTS = ["# note", "# else:", "#", "# def g(): pass", "#: finally:", "# \u00e9 class K: ...", "#!", "# except E: \\"]


def layout(module, plain=False, deco_rng=None, ret_comps=False, trivia=None, defmarks=None):
    """defmarks: opt-in {id(def/class statement tuple given to layout): (is_async, n_decorators)}: that definition is printed
    async / with that many decorator lines (the second one spans two lines) deterministically; files are analysed, never executed.
    deco_rng: when given (C04 only; such files are not executed by CPython), defs and classes randomly get decorator
    lines above their header and defs are randomly async; the statement id stays the header line.
    trivia: a Trivia (opt-in, default none): comments / blank lines / continuations around every clause header and block; the
    statement id stays the FIRST line of the header, the end line stays the last statement's line (what python3 ast reports)."""
    lines = list(HEADER)
    IND = "    "

    def cmt():
        return COMMENTS[((len(lines) + 1) * 2654435761 >> 4) % len(COMMENTS)]

    def head(text, ind, clause, s, arm=None):
        """Print a clause header ending in ':' with the hdr trivia of its slot; returns the first line of the header."""
        kind = trivia.pick('hdr:' + clause, s, arm) if trivia is not None else None
        if kind in ('cont', 'cont_comment'):
            lines.append(IND * ind + text[:-1] + " \\")
            k = len(lines)
            lines.append(IND * ind + "  :" + ("  " + cmt() if kind == 'cont_comment' else ""))
            return k
        tail = {'comment': "  " + cmt(), 'comment_tight': cmt(), 'spaces': "   "}.get(kind, "")
        lines.append(IND * ind + text + tail)
        return len(lines)

    def own_lines(kind, ind):
        """Own-line trivia around a block printed at indentation `ind` (its header is at ind - 1)."""
        if kind is None:
            return
        for part in {'c_block': ['b'], 'c_col0': ['0'], 'c_header': ['h'], 'c_outer': ['h'], 'c_deeper': ['d'], 'blank': [''],
                     'blank_c_blank': ['', 'b', ''], 'blank_c': ['', 'b'], 'c_c': ['0', 'b'], 'c_code': ['k'],
                     'c_same': ['b']}[kind]:
            if part == '':
                lines.append("")
            elif part == 'k':
                lines.append(IND * ind + "# def g%d(): pass" % (len(lines) + 1))
            else:
                lines.append({'b': IND * ind, '0': "", 'h': IND * max(ind - 1, 0), 'd': IND * ind + "      "}[part] + cmt())

    def body(b, ind, clause, s, arm=None):
        """Print a block with the pre/post trivia of its clause."""
        if trivia is not None:
            own_lines(trivia.pick('pre:' + clause, s, arm), ind)
        out = blk(b, ind)
        if trivia is not None:
            own_lines(trivia.pick('post:' + clause, s, arm), ind)
        return out

    def decorate(ind, is_def, s=None):
        if defmarks is not None and s is not None and id(s) in defmarks:
            is_async, n_deco = defmarks[id(s)]
            for i in range(n_deco):
                d = ["@staticmethod" if ind else "@cache", "@dec(1,", "@wraps(len)"][i % 3]
                lines.append(IND * ind + d)
                if d.endswith(","):
                    lines.append(IND * ind + "     2)")
            return "async " if (is_def and is_async) else ""
        tk = trivia.pick('deco', s) if trivia is not None else None
        if deco_rng is None and tk is None:
            return ""
        n_deco = deco_rng.choice([0, 0, 1, 1, 2]) if deco_rng is not None else 0
        if trivia is not None and trivia.few_deco:
            n_deco = 0
        if tk is not None:
            n_deco = max(n_deco, 1)      # trivia between the decorators and the header needs a decorator
        for i in range(n_deco):
            d = (deco_rng or trivia.rng or random).choice(["@staticmethod" if ind else "@cache", "@wraps(len)", "@property" if ind else "@timed", "@dec(1,"])
            lines.append(IND * ind + d)
            if d.endswith(","):
                lines.append(IND * ind + "     2)")
            if tk is not None and i == 0 and n_deco > 1:
                own_lines(tk, ind)       # between two decorators as well
        if tk is not None:
            own_lines(tk, ind)
        return "async " if (is_def and deco_rng is not None and deco_rng.random() < 0.3) else ""

    def emit(text, ind):
        lines.append(IND * ind + text)
        return len(lines)

    astack = [False]          # inside an `async def` (deco_rng files only): for/with may be spelled async

    def var(*forms):
        """deco_rng files are not executed: header spellings vary (first form = the executed spelling)."""
        return forms[0] if deco_rng is None else deco_rng.choice(forms)

    def a_():
        return "async " if (deco_rng is not None and astack[-1] and deco_rng.random() < 0.5) else ""

    def blk(b, ind, toplevel_def=False):
        return [st(s, ind) for s in b]

    def st(s, ind):
        c = s[0]
        if c == 'simple':
            kk = len(lines) + 1
            if deco_rng is None:
                form = SIMPLE_FORMS[((kk * 2654435761) >> 5) % len(SIMPLE_FORMS)]
            else:
                pool = SIMPLE_FORMS + NOEXEC_FORMS
                form = pool[((kk * 2654435761) >> 5) % len(pool)]
            k = emit(form.replace("%d", str(kk)), ind)
            return ('simple', k)
        if c == 'pass':
            return ('pass', emit("pass", ind))
        if c == 'return':
            # the returned expression in every form, comprehensions and generator expressions included (a return is a terminator
            # whatever it returns); executed files use the forms that evaluate R(k) exactly once
            kk = len(lines) + 1
            # (a directly returned comprehension is counted by pyscn like a statement-level one, which the statement model does not
            # express: those forms are used only where the dead-code report alone is decided - ret_comps, property C02)
            exec_forms = ["return R(%d)", "return R(%d)", "return [R(%d)][0]", "return (R(%d))", "return R(%d) if T else 0", "return R(%d), 0"]
            comp_forms = ["return [R(%d) for _z in (0,)]", "return {R(%d) for _z in (0,)}", "return {R(%d): 0 for _z in (0,)}", "return (R(%d) for _z in ())",
                          "return [z for z in R(%d) if z]"]
            if deco_rng is None:
                form = exec_forms[((kk * 2654435761) >> 9) % len(exec_forms)]
            else:
                form = deco_rng.choice(exec_forms + ["return", "return sorted(z for z in R(%d))", "return await_(R(%d))", "return not R(%d)", "return R(%d) or None"]
                                       + (comp_forms * 2 if ret_comps else []))
            k = emit(form.replace("%d", str(kk)), ind)
            return ('return', k)
        if c == 'raise':
            k = emit(var("raise X(%d)", "raise X(%d)", "raise", "raise X(%d) from None").replace("%d", str(len(lines) + 1)), ind)
            return ('raise', k)
        if c == 'break':
            return ('break', emit("break", ind))
        if c == 'continue':
            return ('continue', emit("continue", ind))
        if c == 'comp':
            parts = []
            for i, nifs in enumerate(s[2]):
                kk0 = len(lines) + 1
                sel = ((kk0 * 40503) >> 3) + i
                # loop targets (name, tuple, parenthesised tuple, starred, attribute) x iterables (call, bare tuple, method call, nested call):
                # MI(k) yields no items, so any target form is fine at run time
                tgt = ["_%d" % i, "_%d, _x%d" % (i, i), "(_%d, _x%d)" % (i, i), "_%d, *_r%d" % (i, i), "[_%d, _x%d]" % (i, i)][sel % 5]
                if i == 0:
                    it = ["MI(%d)", "MI(%d)", "list(MI(%d))", "enumerate(MI(%d))", "dict(MI(%d)).items()", "sorted(MI(%d))"][(sel // 5) % 6] % kk0
                else:
                    it = ["()", "()", "list(())", "dict().items()", "zip((), ())", "NS.acc[:0]"][(sel // 5) % 6]
                parts.append("for %s in %s" % (tgt, it) + "".join(" if T" for _ in range(nifs)))
            # assignment, annotated assignment and bare expression statement are separate cases of processStatement (a walrus-wrapped
            # comprehension `(c := [...])` is NOT counted by pyscn: buildExpressionStatement returns the parenthesised node itself, so the
            # NodeExpr/NamedExpr branch of processStatement is unreachable; the property text speaks of statement-level comprehensions only)
            kk = len(lines) + 1
            pre, post = [("_ = [0 ", "]"), ("[0 ", "]"), ("_: list = [0 ", "]"), ("_ = {0 ", "}"), ("_ = {0: 0 ", "}"), ("_ = (0 ", ")")][((kk * 2654435761) >> 7) % 6]
            k = emit(pre + " ".join(parts) + post, ind)
            return ('comp', k, list(s[2]))
        if c == 'if':
            k = head("if C(%d):" % (len(lines) + 1), ind, 'if', s)
            body_ = body(s[2], ind + 1, 'if', s)
            elifs = []
            for i, (_, eb) in enumerate(s[3]):
                ek = head("elif C(%d):" % (len(lines) + 1), ind, 'elif', s, i)
                elifs.append((ek, body(eb, ind + 1, 'elif', s, i)))
            els = None
            if s[4] is not None:
                head("else:", ind, 'else', s)
                els = body(s[4], ind + 1, 'else', s)
            return ('if', k, body_, elifs, els)
        if c in ('while', 'for'):
            if c == 'while':
                k = head("while C(%d):" % (len(lines) + 1), ind, c, s)
            else:
                k = head(a_() + var("for _ in I(%d):", "for _ in I(%d):", "for _a, _b in I(%d):", "for _.x in I(%d):") .replace("%d", str(len(lines) + 1)), ind, c, s)
            body_ = body(s[2], ind + 1, c, s)
            els = None
            if s[3] is not None:
                head("else:", ind, c + '_else', s)
                els = body(s[3], ind + 1, c + '_else', s)
            return (c, k, body_, els)
        if c == 'try':
            k = head("try:", ind, 'try', s)
            body_ = body(s[2], ind + 1, 'try', s)
            hs = []
            star = trivia is not None and id(s) in trivia.star
            for i, (_, hb) in enumerate(s[3]):
                if star:
                    ht = var("except* H(%d):", "except* H(%d):", "except* (H(%d), E) as _e:", "except* H(%d) as _e:")
                else:
                    ht = var("except H(%d):", "except H(%d):", "except (H(%d), E) as _e:", "except H(%d) as _e:")
                hk = head(ht.replace("%d", str(len(lines) + 1)), ind, 'except', s, i)
                hs.append((hk, body(hb, ind + 1, 'except', s, i)))
            els = None
            if s[4] is not None:
                head("else:", ind, 'try_else', s)
                els = body(s[4], ind + 1, 'try_else', s)
            fin = None
            if s[5] is not None:
                head("finally:", ind, 'finally', s)
                fin = body(s[5], ind + 1, 'finally', s)
            return ('try', k, body_, hs, els, fin)
        if c == 'with':
            k = head(a_() + var("with W(%d):", "with W(%d):", "with W(%d) as _w:", "with W(%d) as _w, W(0):", "with (W(%d), W(0)):").replace("%d", str(len(lines) + 1)), ind, 'with', s)
            return ('with', k, body(s[2], ind + 1, 'with', s))
        if c == 'match':
            k = head("match S(%d):" % (len(lines) + 1), ind, 'match', s)
            cases = []
            if trivia is not None:
                own_lines(trivia.pick('pre:match', s), ind + 1)
            for i, (_, cb) in enumerate(s[2]):
                ck = head(var("case _ if G(%d):", "case _ if G(%d):", "case [1, *_r] if G(%d):", "case {'a': 1}:", "case 1 | 2:", "case E(args=_x) if G(%d):", "case str() as _s:")
                          .replace("%d", str(len(lines) + 1)), ind + 1, 'case', s, i)
                cases.append((ck, body(cb, ind + 2, 'case', s, i)))
            return ('match', k, cases)
        if c == 'def':
            pre = decorate(ind, True, s)
            if ind == 0:
                k = head(pre + "def f%d():" % s[2], ind, 'def', s)
            else:
                k = head(pre + "def f%d(_=M(%d)):" % (s[2], len(lines) + 1), ind, 'def', s)
            astack.append(pre.endswith("async "))
            body_ = body(s[3], ind + 1, 'def', s)
            astack.pop()
            return ('def', k, s[2], body_)
        if c == 'class':
            decorate(ind, False, s)
            k = head("class K%d(B(%d)):" % (s[2], len(lines) + 1), ind, 'class', s)
            astack.append(False)
            body_ = body(s[3], ind + 1, 'class', s)
            astack.pop()
            return ('class', k, s[2], body_)
        raise AssertionError(c)

    out = []
    for s in module:
        out.append(st(s, 0))
        lines.append("")
        lines.append("")
    return out, lines


# ---------------------------------------------------------------------------------------
# systematic trivia cases: one compound statement, definitions in EVERY clause, trivia at exactly one slot
# ---------------------------------------------------------------------------------------
def trivia_templates(fresh, rot=0):
    """{template name: (statement, [(clause, arm)])}: every clause block holds two of {def, class with a method, simple
    statement}, rotated so that each of them is first / last in some block; a dropped clause loses definitions."""
    cnt = [rot]

    def B():
        items = [('def', 0, fresh(), [('simple', 0)]),
                 ('simple', 0),
                 ('class', 0, fresh(), [('def', 0, fresh(), [('simple', 0)])])]
        cnt[0] += 1
        r = cnt[0] % 3
        return (items[r:] + items[:r])[:2]

    t = {}
    t['if'] = (('if', 0, B(), [(0, B()), (0, B())], B()), [('if', None), ('elif', 0), ('elif', 1), ('else', None)])
    t['for'] = (('for', 0, B(), B()), [('for', None), ('for_else', None)])
    t['while'] = (('while', 0, B(), B()), [('while', None), ('while_else', None)])
    t['try'] = (('try', 0, B(), [(0, B()), (0, B())], B(), B()),
                [('try', None), ('except', 0), ('except', 1), ('try_else', None), ('finally', None)])
    t['try_star'] = (('try', 0, B(), [(0, B()), (0, B())], B(), B()), [('except', 0), ('except', 1), ('finally', None)])
    t['try_finally'] = (('try', 0, B(), [], None, B()), [('try', None), ('finally', None)])
    t['try_except'] = (('try', 0, B(), [(0, B())], None, None), [('except', 0)])
    t['with'] = (('with', 0, B()), [('with', None)])
    t['match'] = (('match', 0, [(0, B()), (0, B())]), [('match', None), ('case', 0), ('case', 1)])
    t['def'] = (('def', 0, fresh(), B()), [('def', None)])
    t['class'] = (('class', 0, fresh(), B()), [('class', None)])
    return t


TRIVIA_TEMPLATES = ('if', 'for', 'while', 'try', 'try_star', 'try_finally', 'try_except', 'with', 'match', 'def', 'class')


def trivia_cases(rng, per_module=18, sample=None):
    """Every (template, clause, slot, kind) once - the trivia sits at exactly one position of one statement - and, per kind,
    one module with that kind at EVERY slot of every template.  Returns module records {ast, lines, trivia_case: [...]}.
    The statements of a module sit at module level, in a function and in a method of a class (a third each).
    sample: fraction of the single-position cases kept (quick tier); the all-slots modules are always generated.  The decorator
    cases whose comment is indented less than the decorator get a module of their own (tree-sitter does not parse such a file)."""
    names = [5000]

    def fresh():
        names[0] += 1
        return names[0]

    cases = []          # (label, statement, forced map, star ids)
    alone = []
    rot = 0
    for slotkind in ('hdr', 'pre', 'post'):
        for kind in Trivia.kinds(slotkind + ':if'):
            for tname in TRIVIA_TEMPLATES:
                for ci in range(len(trivia_templates(lambda: 0)[tname][1])):
                    if sample is not None and rng.random() >= sample:
                        continue
                    # a fresh statement per case: exactly one slot carries trivia
                    stmt, clauses = trivia_templates(fresh, rot)[tname]
                    rot += 1
                    clause, arm = clauses[ci]
                    if clause == 'match' and slotkind == 'post':
                        continue
                    slot = slotkind + ':' + clause
                    cases.append(("%s/%s/%s/%s" % (tname, slot, arm, kind), stmt, {(id(stmt), slot, arm): kind},
                                  [id(stmt)] if tname == 'try_star' else []))
    for kind in Trivia.DECO:
        for tname in ('def', 'class'):
            stmt, _ = trivia_templates(fresh, rot)[tname]
            rot += 1
            forced = {(id(stmt), 'deco', None): kind}
            for x in stmt[3]:
                if x[0] in ('def', 'class'):
                    forced[(id(x), 'deco', None)] = kind
            case = ("%s/deco/%s" % (tname, kind), stmt, forced, [])
            if kind == 'c_col0':
                alone.append(case)
            else:
                cases.append(case)
    rng.shuffle(cases)
    mods = []

    def mk(chunk, indented=False):
        forced, star, groups = {}, [], ([], [], [])
        for i, (label, stmt, f, st_) in enumerate(chunk):
            forced.update(f)
            star += st_
            groups[1 if indented else i % 3].append(stmt)
        module = list(groups[0])
        if groups[1]:
            module.append(('def', 0, fresh(), groups[1] + [('simple', 0)]))
        if groups[2]:
            module.append(('class', 0, fresh(), [('def', 0, fresh(), groups[2] + [('simple', 0)])]))
        tv = Trivia(forced=forced, star=star, few_deco=True)
        a, lines = layout(module, deco_rng=rng, trivia=tv)
        mods.append({"ast": a, "lines": lines, "trivia_case": [c[0] for c in chunk], "trivia_used": tv.used})

    for off in range(0, len(cases), per_module):
        mk(cases[off:off + per_module])
    for case in alone:
        mk([case], indented=True)
    # the same kind at every slot at once (interactions between neighbouring trivia)
    for slotkind in ('hdr', 'pre', 'post'):
        for kind in Trivia.kinds(slotkind + ':if'):
            tpl = trivia_templates(fresh, rot)
            rot += 1
            forced = {(None, slotkind + ':' + cl, None): kind for cl in Trivia.CLAUSES}
            module = [('def', 0, fresh(), [tpl[n][0] for n in TRIVIA_TEMPLATES] + [('simple', 0)])]
            tv = Trivia(forced=forced, star=[id(tpl['try_star'][0])], few_deco=True)
            a, lines = layout(module, deco_rng=rng, trivia=tv)
            mods.append({"ast": a, "lines": lines, "trivia_case": ["all/%s/%s" % (slotkind, kind)], "trivia_used": tv.used})
    return mods


# ---------------------------------------------------------------------------------------
# Coq printing
# ---------------------------------------------------------------------------------------
def coq_block(b):
    s = "BNil"
    for x in reversed(b):
        s = "(BCons %s %s)" % (coq_stmt(x), s)
    return s


def coq_arms(a):
    s = "ANil"
    for (k, b) in reversed(a):
        s = "(ACons %d %s %s)" % (k, coq_block(b), s)
    return s


def coq_ob(o):
    return "ONone" if o is None else "(OSome %s)" % coq_block(o)


def coq_stmt(s):
    c = s[0]
    if c in ('simple', 'pass', 'return', 'raise', 'break', 'continue'):
        return "(%s %d)" % (c.capitalize(), s[1])
    if c == 'comp':
        return "(Comp %d [%s])" % (s[1], "; ".join("%d%%nat" % n for n in s[2]))
    if c == 'if':
        return "(If %d %s %s %s)" % (s[1], coq_block(s[2]), coq_arms(s[3]), coq_ob(s[4]))
    if c == 'while':
        return "(While %d %s %s)" % (s[1], coq_block(s[2]), coq_ob(s[3]))
    if c == 'for':
        return "(For %d %s %s)" % (s[1], coq_block(s[2]), coq_ob(s[3]))
    if c == 'try':
        return "(Try %d %s %s %s %s)" % (s[1], coq_block(s[2]), coq_arms(s[3]), coq_ob(s[4]), coq_ob(s[5]))
    if c == 'with':
        return "(With %d %s)" % (s[1], coq_block(s[2]))
    if c == 'match':
        return "(Match %d %s)" % (s[1], coq_arms(s[2]))
    if c == 'def':
        return "(Def %d %d %s)" % (s[1], s[2], coq_block(s[3]))
    if c == 'class':
        return "(Class %d %d %s)" % (s[1], s[2], coq_block(s[3]))
    raise AssertionError(c)


# ---------------------------------------------------------------------------------------
# helpers over numbered ASTs
# ---------------------------------------------------------------------------------------
def sub_blocks(s):
    """Yield (kind, block) for the statement lists nested directly in s."""
    c = s[0]
    if c == 'if':
        yield ('body', s[2])
        for (_, b) in s[3]:
            yield ('elif', b)
        if s[4] is not None:
            yield ('else', s[4])
    elif c in ('while', 'for'):
        yield ('body', s[2])
        if s[3] is not None:
            yield ('loop_else', s[3])
    elif c == 'try':
        yield ('body', s[2])
        for (_, b) in s[3]:
            yield ('handler', b)
        if s[4] is not None:
            yield ('try_else', s[4])
        if s[5] is not None:
            yield ('finally', s[5])
    elif c == 'with':
        yield ('body', s[2])
    elif c == 'match':
        for (_, b) in s[2]:
            yield ('case', b)
    elif c in ('def', 'class'):
        yield ('body', s[3])


def all_defs(module):
    """[(qualname list, def stmt)] for every def at any depth, BuildAll naming."""
    out = []

    def walk(b, scope):
        for s in b:
            if s[0] == 'def':
                out.append((scope + [s[2]], s))
                walk(s[3], scope + [s[2]])
            elif s[0] == 'class':
                walk(s[3], scope + [s[2]])
            else:
                for _, sb in sub_blocks(s):
                    walk(sb, scope)
    walk(module, [])
    return out


def qualname(path, module):
    """Dotted name as pyscn prints it: fN for defs, KN for classes."""
    kinds = {}

    def walk(b):
        for s in b:
            if s[0] in ('def', 'class'):
                kinds[s[2]] = 'f' if s[0] == 'def' else 'K'
            for _, sb in sub_blocks(s):
                walk(sb)
    walk(module)
    return ".".join("%s%d" % (kinds[n], n) for n in path)


def scope_paths(module):
    """Like all_defs but paths include class names: [(path incl. classes, def stmt)]."""
    return all_defs(module)


def own_statements(body):
    """Statements of one function body, not descending into nested defs; yields (stmt, role) where role marks
    ids that are not statement headers with a source span of their own (elif tests)."""
    for s in body:
        yield s
        if s[0] == 'def':
            continue
        for _, sb in sub_blocks(s):
            for x in own_statements(sb):
                yield x


def end_line(s):
    """Last line of a statement (layout prints one header per line)."""
    last = s[1]
    if s[0] == 'def' or s[0] == 'class':
        return max([last] + [end_line(x) for x in s[3]])
    for _, sb in sub_blocks(s):
        for x in sb:
            last = max(last, end_line(x))
    # else:/finally: lines carry no statement, the last statement inside is the end
    return last


def used_constructs(body):
    out = set()
    for s in own_statements(body):
        out.add(s[0])
        if s[0] == 'if' and len(s[3]) >= 2:
            out.add('multi_elif')
        if s[0] in ('while', 'for') and s[3] is not None:
            out.add('loop_else')
        if s[0] == 'try':
            if s[5] is not None:
                out.add('finally')
            if s[4] is not None:
                out.add('try_else')
            if s[3]:
                out.add('except')
    return out


# ---------------------------------------------------------------------------------------
# small-scope exhaustive enumeration (mirrors coq/Cfg/BuilderBounded.v: stmts_sz / blocks_sz)
# ---------------------------------------------------------------------------------------
def enum_stmts(n, memo_s={}, memo_b={}):
    if n in memo_s:
        return memo_s[n]
    if n <= 0:
        out = []
    elif n == 1:
        out = [('simple', 0), ('return', 0), ('raise', 0), ('break', 0), ('continue', 0), ('comp', 0, [1, 0])]
    else:
        m = n - 1
        one = enum_blocks(m)
        two = [(a, b) for i in range(1, m) for a in enum_blocks(i) for b in enum_blocks(m - i)]
        out = []
        out += [('if', 0, b, [], None) for b in one]
        out += [('if', 0, a, [], b) for a, b in two]
        out += [('if', 0, a, [(0, b)], None) for a, b in two]
        out += [('while', 0, b, None) for b in one]
        out += [('while', 0, a, b) for a, b in two]
        out += [('try', 0, a, [(0, b)], None, None) for a, b in two]
        out += [('try', 0, a, [], None, b) for a, b in two]
        out += [('with', 0, b) for b in one]
        out += [('match', 0, [(0, b)]) for b in one]
    memo_s[n] = out
    return out


def enum_blocks(n, memo={}):
    if n in memo:
        return memo[n]
    if n == 0:
        out = [[]]
    else:
        out = []
        for k in range(1, n + 1):
            for s in enum_stmts(k):
                for r in enum_blocks(n - k):
                    out.append([s] + r)
    memo[n] = out
    return out


def loops_ok(b, inl):
    for s in b:
        c = s[0]
        if c in ('break', 'continue'):
            if not inl:
                return False
        elif c in ('while', 'for'):
            if not loops_ok(s[2], True) or (s[3] is not None and not loops_ok(s[3], inl)):
                return False
        elif c == 'class':
            if not loops_ok(s[3], False):
                return False
        elif c != 'def':
            for _, sb in sub_blocks(s):
                if not loops_ok(sb, inl):
                    return False
    return True


def enum_function_bodies(max_size):
    """Every body with <= max_size statement nodes that is legal as a function body, plus each body wrapped in a
    loop with an else clause (so that break/continue and the break-out flag are exercised)."""
    out = []
    for n in range(1, max_size + 1):
        for b in enum_blocks(n):
            if loops_ok(b, False):
                out.append(b)
            if loops_ok(b, True):
                out.append([('while', 0, b, [('return', 0)]), ('simple', 0)])
    return out


def modules_from_bodies(bodies, per_module=40):
    mods = []
    for off in range(0, len(bodies), per_module):
        m = [('def', 0, i + 1, b) for i, b in enumerate(bodies[off:off + per_module])]
        ast, lines = layout(m)
        mods.append({"ast": ast, "lines": lines})
    return mods


# ---------------------------------------------------------------------------------------
# frame compositions: nest control constructs around a terminator, with code after every construct
# ---------------------------------------------------------------------------------------
def _S():
    return ('simple', 0)


FRAMES = {
    # name: (function inner_block -> statement, introduces_loop_for_hole)
    'try_fin_body': (lambda h: ('try', 0, h, [], None, [_S()]), False),
    'try_fin_fin': (lambda h: ('try', 0, [_S()], [], None, h), False),
    'try_exc_body': (lambda h: ('try', 0, h, [(0, [_S()])], None, None), False),
    'try_exc_handler': (lambda h: ('try', 0, [_S()], [(0, h)], None, None), False),
    'try_exc_else': (lambda h: ('try', 0, [_S()], [(0, [_S()])], h, None), False),
    'try_exc_fin_body': (lambda h: ('try', 0, h, [(0, [_S()])], None, [_S()]), False),
    'try_exc_fin_handler': (lambda h: ('try', 0, [_S()], [(0, h)], None, [_S()]), False),
    'while_body': (lambda h: ('while', 0, h, None), True),
    'for_body_else_ret': (lambda h: ('for', 0, h, [('return', 0)]), True),
    'while_body_else_raise': (lambda h: ('while', 0, h, [('raise', 0)]), True),
    'loop_else_hole': (lambda h: ('while', 0, [_S()], h), None),      # hole in the else clause: belongs to the outer loop
    'with_body': (lambda h: ('with', 0, h), False),
    'if_then': (lambda h: ('if', 0, h, [], [_S()]), False),
    'if_else': (lambda h: ('if', 0, [_S()], [], h), False),
    'if_elif': (lambda h: ('if', 0, [_S()], [(0, h), (0, [_S()])], None), False),
    'match_case': (lambda h: ('match', 0, [(0, h), (0, [_S()])]), False),
}


def frame_body(names, term):
    """Function body: frames nested outermost-first around [simple, term], a simple statement after every frame."""
    inner = [_S(), (term, 0)] if term != 'none' else [_S()]
    for nm in reversed(names):
        f, _ = FRAMES[nm]
        inner = [f(inner), _S()]
    return inner


def frame_legal(names, term):
    in_loop = False
    for nm in names:
        lp = FRAMES[nm][1]
        if lp is True:
            in_loop = True
        # a hole in a loop's else clause keeps the enclosing loop status
    if term in ('break', 'continue'):
        return in_loop
    return True


def enum_frame_bodies(depth, rng=None, sample=None):
    import itertools
    names = sorted(FRAMES)
    combos = []
    for d in range(1, depth + 1):
        for seq in itertools.product(names, repeat=d):
            for term in ('return', 'raise', 'break', 'continue'):
                if frame_legal(seq, term):
                    combos.append((seq, term))
    if sample is not None and rng is not None and len(combos) > sample:
        combos = rng.sample(combos, sample)
    return [frame_body(seq, term) for seq, term in combos], combos


def arm_chain_bodies():
    """Multi-arm statements in which every arm independently terminates or falls through, code after the statement:
    if with 0..4 elif clauses (with and without else), try with 1..3 handlers (x else x finally), match with 1..4 cases.
    (A dropped or mis-linked arm changes which of these have live code after them.)"""
    import itertools
    out = []

    def arm(t, i):
        return [_S()] if not t else [_S(), ('return' if i % 2 == 0 else 'raise', 0)]
    for n in range(0, 5):
        for has_else in (False, True):
            k = n + 1 + (1 if has_else else 0)
            for pat in itertools.product((False, True), repeat=k):
                then = arm(pat[0], 0)
                elifs = [(0, arm(pat[1 + i], 1 + i)) for i in range(n)]
                els = arm(pat[-1], k - 1) if has_else else None
                out.append([('if', 0, then, elifs, els), _S()])
    for h in range(1, 4):
        for pat in itertools.product((False, True), repeat=1 + h):
            for els in (None, False, True):
                for fin in (False, True):
                    body = arm(pat[0], 0)
                    hs = [(0, arm(pat[1 + i], 1 + i)) for i in range(h)]
                    out.append([('try', 0, body, hs, None if els is None else arm(els, 1), [_S()] if fin else None), _S()])
    for c in range(1, 5):
        for pat in itertools.product((False, True), repeat=c):
            out.append([('match', 0, [(0, arm(pat[i], i)) for i in range(c)]), _S()])
    return out


def comp_clause_bodies():
    """Statement-level comprehensions with every combination of 0..3 `if` clauses on one and two `for` clauses (and a few with
    three), each alone in a function, inside an if / a loop / a handler, after a return (dead: not counted) and next to a second
    comprehension.  C03 counts every for and every if clause."""
    import itertools
    cls = [list(c) for n in (1, 2) for c in itertools.product((0, 1, 2, 3), repeat=n)] + [[0, 2, 3], [1, 1, 1], [3, 0, 2], [2, 2, 2]]
    out = []
    for i, cl in enumerate(cls):
        c = ('comp', 0, cl)
        out.append([c])
        out.append([('if', 0, [c], [(0, [_S()])], None), _S()])
        out.append([('return', 0), c])
        w = i % 4
        if w == 0:
            out.append([('for', 0, [c, ('break', 0)], [c]), ('comp', 0, [1])])
        elif w == 1:
            out.append([('try', 0, [_S()], [(0, [c])], None, None), ('comp', 0, [0, 2])])
        elif w == 2:
            out.append([('while', 0, [('if', 0, [('continue', 0)], [], None), c], None), ('return', 0), ('comp', 0, [3])])
        else:
            out.append([c, ('def', 0, 1000 + i, [('comp', 0, [2, 0])]), ('comp', 0, list(reversed(cl)))])
    return out


def routing_frame_bodies():
    """Depth-3 compositions in which a break/continue has to be routed: at least one loop frame and one try with a finally."""
    b, c = enum_frame_bodies(3)
    out = []
    for body, (seq, term) in zip(b, c):
        if len(seq) == 3 and term in ('break', 'continue') and any('fin' in n for n in seq) and \
                any(FRAMES[n][1] is True or n == 'loop_else_hole' for n in seq):
            out.append(body)
    return out


# ---------------------------------------------------------------------------------------
# dead tails: the code after a terminator ENDS with a multi-line statement (C02: the finding has to reach its last line)
# ---------------------------------------------------------------------------------------
DEAD_TAILS = ('def', 'def_deep', 'def_term', 'def_in_def', 'async_def', 'deco_def', 'deco_async_def', 'class_method',
              'class_attr_method', 'class_two_methods', 'class_method_attr', 'deco_class', 'class_deco_method',
              'if_else', 'if_elif', 'for_else', 'while', 'with', 'try_exc_fin', 'try_fin', 'match', 'with_def')
DEAD_TAIL_POSITIONS = ('body', 'if_arm', 'else_arm', 'try_body', 'handler', 'finally', 'with_body', 'case', 'while_body',
                       'for_if', 'loop_else', 'after_if_all_term')
DEAD_TAIL_CONTEXTS = ('function', 'method', 'async_function', 'nested_function', 'async_method')
DEAD_TAIL_PREFIXES = ('only', 'simple_first', 'def_first')


def dead_tail(kind, fresh, marks):
    """The statements of one dead tail; its LAST statement spans several lines.  marks collects the async/decorator spellings."""
    def d(body, is_async=False, n_deco=0):
        s = ('def', 0, fresh(), body)
        if is_async or n_deco:
            marks[id(s)] = (is_async, n_deco)
        return s

    def k(body, n_deco=0):
        s = ('class', 0, fresh(), body)
        if n_deco:
            marks[id(s)] = (False, n_deco)
        return s
    if kind == 'def':
        return d([_S(), _S()])
    if kind == 'def_deep':
        return d([_S(), ('if', 0, [_S()], [], [_S(), _S()])])
    if kind == 'def_term':
        return d([_S(), ('return', 0)])
    if kind == 'def_in_def':
        return d([_S(), d([_S(), _S()])])
    if kind == 'async_def':
        return d([_S(), _S()], True)
    if kind == 'deco_def':
        return d([_S(), _S()], False, 2)
    if kind == 'deco_async_def':
        return d([_S(), ('with', 0, [_S()])], True, 1)
    if kind == 'class_method':
        return k([d([_S(), _S()])])
    if kind == 'class_attr_method':
        return k([_S(), d([_S(), _S()])])
    if kind == 'class_two_methods':
        return k([d([_S()]), d([_S(), ('return', 0)], True)])
    if kind == 'class_method_attr':
        return k([d([_S(), _S()]), _S()])
    if kind == 'deco_class':
        return k([_S(), d([_S(), _S()])], 2)
    if kind == 'class_deco_method':
        return k([d([_S(), _S()], False, 1)])
    if kind == 'if_else':
        return ('if', 0, [_S()], [], [_S(), _S()])
    if kind == 'if_elif':
        return ('if', 0, [_S()], [(0, [_S(), _S()])], None)
    if kind == 'for_else':
        return ('for', 0, [_S()], [_S(), _S()])
    if kind == 'while':
        return ('while', 0, [_S(), _S()], None)
    if kind == 'with':
        return ('with', 0, [_S(), _S()])
    if kind == 'try_exc_fin':
        return ('try', 0, [_S()], [(0, [_S()])], None, [_S(), _S()])
    if kind == 'try_fin':
        return ('try', 0, [_S()], [], None, [_S(), _S()])
    if kind == 'match':
        return ('match', 0, [(0, [_S()]), (0, [_S(), _S()])])
    if kind == 'with_def':
        return ('with', 0, [_S(), d([_S(), _S()])])
    raise AssertionError(kind)


def dead_tail_place(pos, term, tail):
    """Function body with [term] + tail at the given position (None when the terminator is illegal there); the tail is the END
    of its statement list, live code follows the enclosing statement."""
    dead = [(term, 0)] + tail
    loop_term = term in ('break', 'continue')
    if pos in ('while_body', 'for_if'):
        if pos == 'while_body':
            return [('while', 0, [_S()] + dead, None), _S()]
        return [('for', 0, [('if', 0, dead, [], None), _S()], [_S()]), _S()]
    inner = {
        'body': lambda: [_S()] + dead,
        'if_arm': lambda: [('if', 0, [_S()] + dead, [], [_S()]), _S()],
        'else_arm': lambda: [('if', 0, [_S()], [(0, [_S()])], dead), _S()],
        'try_body': lambda: [('try', 0, dead, [], None, [_S()]), _S()],
        'handler': lambda: [('try', 0, [_S()], [(0, [_S()] + dead)], None, None), _S()],
        'finally': lambda: [('try', 0, [_S()], [(0, [_S()])], None, dead), _S()],
        'with_body': lambda: [('with', 0, dead), _S()],
        'case': lambda: [('match', 0, [(0, [_S()]), (0, dead)]), _S()],
        'loop_else': lambda: [('while', 0, [_S()], dead), _S()],
        'after_if_all_term': lambda: [('if', 0, [(term, 0)], [(0, [_S(), (term, 0)])], [(term, 0)])] + tail,
    }[pos]()
    if loop_term:
        # the whole composition sits in a loop body
        return [('for', 0, inner, None), _S()]
    return inner


def dead_tail_modules(per_module=30, sample=None, rng=None):
    """Every terminator kind x every tail kind x every context (position and prefix rotating) and x every position (context and
    prefix rotating).  Returns module records {ast, lines, dead_tail: [labels]}.  sample: number of cases kept (needs rng)."""
    names = [7000]

    def fresh():
        names[0] += 1
        return names[0]
    combos = []
    i = 0
    for term in TERMS:
        for tk in DEAD_TAILS:
            for ci, ctx in enumerate(DEAD_TAIL_CONTEXTS):
                i += 1
                combos.append((term, tk, ctx, DEAD_TAIL_POSITIONS[(i + ci) % len(DEAD_TAIL_POSITIONS)], DEAD_TAIL_PREFIXES[i % 3]))
            for pi, pos in enumerate(DEAD_TAIL_POSITIONS):
                i += 1
                combos.append((term, tk, DEAD_TAIL_CONTEXTS[(i + pi) % len(DEAD_TAIL_CONTEXTS)], pos, DEAD_TAIL_PREFIXES[(i + pi) % 3]))
    combos = sorted(set(combos))
    if sample is not None and rng is not None and len(combos) > sample:
        combos = rng.sample(combos, sample)
    mods = []
    for off in range(0, len(combos), per_module):
        marks, module, labels = {}, [], []
        for (term, tk, ctx, pos, prefix) in combos[off:off + per_module]:
            tail = [dead_tail(tk, fresh, marks)]
            if prefix == 'simple_first':
                tail = [_S()] + tail
            elif prefix == 'def_first':
                tail = [dead_tail('def', fresh, marks)] + tail
            body = dead_tail_place(pos, term, tail)
            f = ('def', 0, fresh(), body)
            if ctx.startswith('async'):
                marks[id(f)] = (True, 0)
            if ctx in ('method', 'async_method'):
                f = ('class', 0, fresh(), [_S(), f])
            elif ctx == 'nested_function':
                f = ('def', 0, fresh(), [_S(), f, _S()])
            module.append(f)
            labels.append("%s/%s/%s/%s/%s" % (term, tk, ctx, pos, prefix))
        ast, lines = layout(module, defmarks=marks)
        mods.append({"ast": ast, "lines": lines, "dead_tail": labels})
    return mods


# ---------------------------------------------------------------------------------------
# 'all arms terminate' compositions: a multi-arm statement whose arms INDEPENDENTLY end in return / raise / break / continue /
# fall through, placed (directly or through if / with / loop) in a clause of an outer frame that has a finally (or is a with),
# at nesting depth 2 and 3, markers in every finally and after every frame.  When every arm leaves through a jump, the cleanup
# clauses of the outer frames are reachable ONLY through the edges the jumps take on their way out.
# (Separate from FRAMES / enum_frame_bodies, which C02-C04 enumerate: nothing of those changes.)
# ---------------------------------------------------------------------------------------
ARM_TERMS = ('return', 'raise', 'break', 'continue', 'none')


def _arm(t):
    return [_S()] if t == 'none' else [_S(), (t, 0)]


AA_INNER = {
    # name: (number of arms, arms -> statement)
    'if_else': (2, lambda a: ('if', 0, a[0], [], a[1])),
    'if_elif_else': (3, lambda a: ('if', 0, a[0], [(0, a[1])], a[2])),
    'try_exc': (2, lambda a: ('try', 0, a[0], [(0, a[1])], None, None)),
    'try_exc2': (3, lambda a: ('try', 0, a[0], [(0, a[1]), (0, a[2])], None, None)),
    'try_body_exc_else': (3, lambda a: ('try', 0, a[0], [(0, a[1])], a[2], None)),
    'match2': (2, lambda a: ('match', 0, [(0, a[0]), (0, a[1])])),
    'with': (1, lambda a: ('with', 0, a[0])),
}

AA_MID = {
    # what sits between the clause of the outer frame and the inner statement: (block -> block, gives a loop to the inner arms)
    'direct': (lambda b: b, False),
    'if': (lambda b: [('if', 0, b, [], None)], False),
    'if_else': (lambda b: [('if', 0, [_S(), ('return', 0)], [], b)], False),
    'with': (lambda b: [('with', 0, b)], False),
    'while': (lambda b: [('while', 0, b, None)], True),
    'for_else': (lambda b: [('for', 0, b, [_S(), ('return', 0)])], True),
}

AA_OUTER = {
    # frames with a cleanup clause; h = the block in the hole, t = how the OTHER arms of the frame end (so that 'every arm of
    # the outer frame terminates' occurs as well); tf_fin has the hole inside the finally clause itself
    'tf_body': lambda h, t: ('try', 0, h, [], None, [_S()]),
    'tef_body': lambda h, t: ('try', 0, h, [(0, _arm(t))], None, [_S()]),
    'tef_handler': lambda h, t: ('try', 0, [_S()], [(0, h)], None, [_S()]),
    'tef_handler2': lambda h, t: ('try', 0, [_S()], [(0, _arm(t)), (0, h)], None, [_S()]),
    'tef_else': lambda h, t: ('try', 0, [_S()], [(0, _arm(t))], h, [_S()]),
    'tf_fin': lambda h, t: ('try', 0, _arm(t), [], None, h + [_S()]),
    'with': lambda h, t: ('with', 0, h),
}

AA_MIDDLE = {
    # depth 3: a try/except WITHOUT finally between the outer frame and the inner statement (other arms end in t)
    'te_body': lambda h, t: ('try', 0, h, [(0, _arm(t))], None, None),
    'te_handler': lambda h, t: ('try', 0, [_S()], [(0, h)], None, None),
    'te_else': lambda h, t: ('try', 0, [_S()], [(0, _arm(t))], h, None),
    # ... and one WITH a finally of its own (the jump passes two cleanup clauses)
    'tf_body': lambda h, t: ('try', 0, h, [], None, [_S()]),
    'tef_handler': lambda h, t: ('try', 0, [_S()], [(0, h)], None, [_S()]),
}

AA_WRAP = {
    # what the outermost frame sits in: (statement -> block, loop for everything inside)
    'plain': (lambda s: [s, _S()], False),
    'while': (lambda s: [('while', 0, [s, _S()], None), _S()], True),
    'for_else': (lambda s: [('for', 0, [s], [_S()]), _S()], True),
}


def all_arms_bodies(rng=None, sample=None, core_terms=('return', 'raise', 'none')):
    """(core, rest): function bodies and their labels [(label, body)].
    core - depth 2, no loop: every inner statement x every assignment of core_terms to its arms x every outer frame (other arms
           of the frame falling through and returning), inner statement directly in the clause; depth 3 (outer frame around a
           try/except or try/finally around the inner statement) with ALL arms ending in the same terminator, every frame pair;
    rest - the full product with break/continue (a loop between the frames or around the outermost one), the in-between
           statements if / if-else / with / while / for-else, and depth 3 with independent arms: sampled (sample=None: all)."""
    import itertools
    core, rest = [], []

    def inner_stmt(kind, pat):
        n, f = AA_INNER[kind]
        return f([_arm(t) for t in pat])

    def build(wrap, outers, mid, kind, pat):
        """outers: [(table, name, t)] outermost first."""
        blk = AA_MID[mid][0]([inner_stmt(kind, pat)])
        for (tab, nm, t) in reversed(outers):
            blk = [tab[nm](blk, t)]
        return AA_WRAP[wrap][0](blk[0])

    def legal(wrap, mid, pat, ts):
        loop_in = AA_WRAP[wrap][1] or AA_MID[mid][1]
        loop_out = AA_WRAP[wrap][1]
        if not loop_in and any(t in ('break', 'continue') for t in pat):
            return False
        if not loop_out and any(t in ('break', 'continue') for t in ts):
            return False
        return True

    def label(wrap, outers, mid, kind, pat):
        return "%s|%s|%s|%s(%s)" % (wrap, ">".join("%s:%s" % (nm, t) for (_tab, nm, t) in outers), mid, kind, ",".join(pat))

    kinds = sorted(AA_INNER)
    # ---- core: depth 2
    for kind in kinds:
        for pat in itertools.product(core_terms, repeat=AA_INNER[kind][0]):
            for on in sorted(AA_OUTER):
                for t in ('none', 'return'):
                    if t == 'return' and on in ('tf_body', 'tef_handler', 'with'):
                        continue                      # these frames have no other arm
                    o = [(AA_OUTER, on, t)]
                    core.append((label('plain', o, 'direct', kind, pat), build('plain', o, 'direct', kind, pat)))
    # ---- core: depth 3, uniform arms
    for kind in kinds:
        for term in ('return', 'raise'):
            pat = (term,) * AA_INNER[kind][0]
            for on in sorted(AA_OUTER):
                for mn in sorted(AA_MIDDLE):
                    o = [(AA_OUTER, on, term), (AA_MIDDLE, mn, term)]
                    core.append((label('plain', o, 'direct', kind, pat), build('plain', o, 'direct', kind, pat)))
    # ---- rest: everything else
    seen = set(l for l, _ in core)
    combos = []
    for wrap in sorted(AA_WRAP):
        for mid in sorted(AA_MID):
            for kind in kinds:
                for pat in itertools.product(ARM_TERMS, repeat=AA_INNER[kind][0]):
                    for on in sorted(AA_OUTER):
                        for t in ARM_TERMS:
                            if t != 'none' and on in ('tf_body', 'tef_handler', 'with'):
                                continue
                            if legal(wrap, mid, pat, (t,)):
                                combos.append((wrap, ((AA_OUTER, on, t),), mid, kind, pat))
                            # depth 3: the middle frame's other arm ends like the outer frame's (one parameter less to multiply)
                            if mid in ('direct', 'while') and AA_INNER[kind][0] <= 2:
                                for mn in sorted(AA_MIDDLE):
                                    for t2 in ('return', 'raise', 'none'):
                                        if legal(wrap, mid, pat, (t, t2)):
                                            combos.append((wrap, ((AA_OUTER, on, t), (AA_MIDDLE, mn, t2)), mid, kind, pat))
    combos = [c for c in combos if label(*c) not in seen]
    total = len(combos)
    if sample is not None and rng is not None and total > sample:
        combos = rng.sample(combos, sample)
    for c in combos:
        rest.append((label(*c), build(c[0], list(c[1]), c[2], c[3], c[4])))
    return core, rest, total
