#!/bin/bash
# usage: seed2.sh <Cxx> <checks...> : try a round-2 seed (/tmp/seed2/<Cxx>/out/patch.diff) against the given checks
id=$1; shift
python3 /verif/harness/try_seed.py /tmp/seed2/$id/out/patch.diff "$@" 2>&1 | grep -v conda | cut -c1-330
