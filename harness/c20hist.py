"""C20, last sentence, HISTORIES: "The MCP tools return the same findings as the command line for the same path and options" — also when
the SAME server process has answered other calls before.

An MCP client starts one server and keeps it for the whole session: the answer to a tool call must be a function of that call's path and
options (and of the files on disk), never of the calls made before it.  harness/c20mcp.py starts one server per configuration scenario and
every scenario stays inside one project; here ONE server process answers a SEQUENCE of calls that moves between projects with observably
different configurations, one call at a time (the next request is written only after the previous answer was read: the stdio transport runs
tool calls in a pool of five workers, requests written together would run concurrently), and EVERY answer of the sequence is compared with
`pyscn analyze --json` run for that call's path and options alone (projections and comparison of c20mcp.py, CLI runs shared through its cache).

Projects (the same sources everywhere, so every difference between two answers comes from the configuration):
  A   .pyscn.toml X   (strict risk thresholds, exclude_patterns that drop helpers*.py, [cbo]/[lcom] thresholds and show_zeros, small clone
                       min_lines/min_nodes, min_complexity / min_severity quick filters)
  A/pkg               a sub-directory of A (X is found from the path upward)
  B0  no configuration file at all (the built-in defaults; nothing is found from the path upward)
  B1  an empty .pyscn.toml (the defaults, but read from a file)
  C   .pyscn.toml Y   (lax thresholds, other exclude pattern, other quick filters)
  D   pyproject.toml [tool.pyscn.*] Z
Histories:
  * per tool, the named short ones on a fresh server: A,B0 / B0,A,B0 / A,C / C,A / B0,A-pkg,B0 / D,B0 (thorough: also A-pkg,C / A,B1,B0)
  * per tool, an Euler circuit through ALL ordered pairs of targets (self loops included: 36 transitions; a self loop repeats the target
    with other options / another output mode), cut into overlapping pieces (thorough: the whole circuit on one server)
  * per tool, ONE path (A) and an Euler circuit through all ordered pairs of option / output-mode variants
  * mixed tools: an Euler circuit through all 49 ordered pairs of tools (the call before is made by ANOTHER tool), the targets following a
    circuit through all ordered pairs of different targets, option/output-mode variants drawn per step
  * the same mixed circuit on a server started with PYSCN_CONFIG=<W> (then every call is analysed with W: the CLI gets --config W)
A failing history is cut after its first wrong answer and shrunk (the call alone on a fresh server; one earlier call + the call; then greedy
removal), the shrunk history is turned into a `{ printf ...; sleep ...; printf ...; } | pyscn-mcp` line, and that line is run once to confirm.
"""
import json
import os
import random
import subprocess
import threading
import time
from concurrent.futures import ThreadPoolExecutor

import cfgcommon as cc
import c20mcp as M

# ----------------------------------------------------------------------------------------------------------------------------------
# projects
# ----------------------------------------------------------------------------------------------------------------------------------
X = {   # strict
    "complexity": {"low_threshold": 2, "medium_threshold": 4, "max_complexity": 6},
    "analysis": {"exclude_patterns": ["helpers*.py"]},
    "cbo": {"low_threshold": 1, "medium_threshold": 2, "show_zeros": True},
    "lcom": {"low_threshold": 1, "medium_threshold": 2},
    "clones": {"min_lines": 20, "similarity_threshold": 0.8},
    "output": {"min_complexity": 3},
    "dead_code": {"min_severity": "info"},
}
Y = {   # lax
    "complexity": {"low_threshold": 6, "medium_threshold": 11, "max_complexity": 15},
    "analysis": {"exclude_patterns": ["dead*.py"]},
    "cbo": {"low_threshold": 5, "medium_threshold": 9},
    "lcom": {"low_threshold": 3, "medium_threshold": 6},
    # the file selection of [clones] is not the one `pyscn analyze` uses (that is [analysis]): no front end may apply it (F70)
    "clones": {"similarity_threshold": 0.75, "exclude_patterns": ["route*.py", "hub*.py"]},
    "output": {"min_complexity": 2},
}
Z = {   # pyproject.toml
    "complexity": {"low_threshold": 4, "medium_threshold": 8, "max_complexity": 15},
    "analysis": {"exclude_patterns": ["route*.py"]},
    "cbo": {"low_threshold": 4, "medium_threshold": 6, "show_zeros": True},
    "lcom": {"low_threshold": 4, "medium_threshold": 5},
    "clones": {"min_lines": 8, "exclude_patterns": ["steps*.py"], "recursive": False},
    "dead_code": {"min_severity": "critical"},
}
W = {   # the explicitly configured file (PYSCN_CONFIG / --config)
    "complexity": {"low_threshold": 3, "medium_threshold": 7, "max_complexity": 12},
    "analysis": {"exclude_patterns": ["steps*.py"]},
    "cbo": {"low_threshold": 2, "medium_threshold": 5, "show_zeros": True},
    "lcom": {"low_threshold": 2, "medium_threshold": 4},
    "clones": {"min_lines": 10},
}


def toml_text(cfg, prefix=""):
    out = ["# generated by harness/c20hist.py"]
    for sec in sorted(cfg):
        out.append("[%s%s]" % (prefix, sec))
        for k, v in sorted(cfg[sec].items()):
            out.append("%s = %s" % (k, "true" if v is True else "false" if v is False else json.dumps(v)))
        out.append("")
    return "\n".join(out) + "\n"


def ladder(prefix, ks):
    """One function per k with cyclomatic complexity k (k - 1 conditions)."""
    out = []
    for k in ks:
        out.append("def %s%d(x):" % (prefix, k))
        for i in range(1, k):
            out += ["    %s x == %d:" % ("if" if i == 1 else "elif", i), "        return %d" % (2 * i)]
        out += ["    return 0", "", ""]
    return "\n".join(out)


def sources(seed):
    rng = random.Random(seed * 7919 + 20)
    mod = cc.gen_modules(rng, 1, dict(max_depth=3, max_len=3, n_funcs=3))[0]
    return {
        # complexities 1..12: every two of the configurations (defaults 9/19, X 2/4, Y 6/11, Z 4/8, W 3/7) give some function another risk
        # level (few and short functions: they are all near-copies of one another, which is what clone detection spends its time on)
        "route.py": ladder("route", [1, 3, 5, 7, 9, 12]),
        "helpers.py": ladder("helper", [2, 6]) + M.DEAD.replace("far_dead", "far_helper").replace("near_dead", "near_helper").replace("both", "any_helper"),
        "hub.py": M.HUB,                    # CBO 0..12, LCOM4 1..7
        "dead.py": M.DEAD,                  # critical and warning findings
        "gen0.py": "\n".join(mod["lines"]).replace("from rt import *", "import os") + "\n",
        "pkg/steps.py": ladder("step", [4, 10]),
        "pkg/helpers_more.py": ladder("more", [5]),
        "pkg/classes.py": M.CLASS_FILE,
        "pkg/dead_more.py": M.DEAD.replace("far_dead", "far_gone").replace("near_dead", "near_gone").replace("both", "either"),
    }


def write_tree(d, files, cfg, how):
    """how: 'pyscn' (.pyscn.toml), 'pyproject' ([tool.pyscn.*]), 'none' (no configuration file)."""
    os.makedirs(d)
    for fn, src in files.items():
        p = os.path.join(d, fn)
        os.makedirs(os.path.dirname(p), exist_ok=True)
        with open(p, "w") as f:
            f.write(src)
    if how == "pyscn":
        with open(os.path.join(d, ".pyscn.toml"), "w") as f:
            f.write(toml_text(cfg))
    elif how == "pyproject":
        with open(os.path.join(d, "pyproject.toml"), "w") as f:
            f.write('[project]\nname = "d"\nversion = "0"\n\n' + toml_text(cfg, "tool.pyscn."))
    return d


def config_above(d):
    """A configuration file that would be discovered from d upward (None: nothing)."""
    cur = os.path.realpath(d)
    while True:
        for nm in (".pyscn.toml", "pyproject.toml"):
            p = os.path.join(cur, nm)
            if os.path.exists(p) and (nm == ".pyscn.toml" or "[tool.pyscn" in open(p, errors="replace").read()):
                return p
        nxt = os.path.dirname(cur)
        if nxt == cur:
            return None
        cur = nxt


class Tgt:
    def __init__(self, name, sc, sub, conf):
        self.name, self.sc, self.sub, self.conf = name, sc, sub, conf       # conf: label of the configuration that applies
        self.path = os.path.join(sc.proj, sub) if sub else sc.proj


# per tool: (arguments, output mode); the first one states no option (everything comes from the configuration)
VARIANTS = {
    "check_complexity": [({}, "full"), ({}, "detailed"), ({"min_complexity": 2}, "full"), ({"max_complexity": 5}, "summary")],
    "find_dead_code": [({}, "full"), ({}, "summary"), ({"min_severity": "info"}, "full")],
    "detect_clones": [({}, "full"), ({}, "detailed"), ({"similarity_threshold": 0.7}, "full")],
    "check_coupling": [({}, "full"), ({}, "detailed"), ({"min_cbo": 2}, "summary")],
    "check_cohesion": [({}, "full"), ({}, "summary"), ({}, "detailed")],
    "get_health_score": [({}, "full")],
    "analyze_code": [({}, "full"), ({}, "summary"), ({"analyses": ["complexity", "dead_code", "cbo", "lcom"]}, "full")],
}


class Step:
    def __init__(self, tgt, tool, args, mode):
        self.tgt, self.tool, self.args, self.mode = tgt, tool, dict(args), mode
        self.call_args = dict(args, path=tgt.path, output_mode=mode)

    def short(self):
        a = ",".join("%s=%s" % kv for kv in sorted(self.args.items()))
        return "%s(%s%s%s)" % (self.tool, self.tgt.name, "; " + a if a else "", "" if self.mode == "full" else "; " + self.mode)


class History:
    def __init__(self, name, kind, cwd, env_config, steps):
        self.name, self.kind, self.cwd, self.env_config, self.steps = name, kind, cwd, env_config, steps


def euler_circuit(n, rng, loops=True):
    """A random closed walk through every ordered pair (i, j) of range(n) exactly once (Hierholzer on the complete digraph)."""
    adj = {i: [j for j in range(n) if loops or j != i] for i in range(n)}
    for i in adj:
        rng.shuffle(adj[i])
    stack, path = [rng.randrange(n)], []
    while stack:
        v = stack[-1]
        if adj[v]:
            stack.append(adj[v].pop())
        else:
            path.append(stack.pop())
    return path[::-1]


def chunks(seq, size):
    """Consecutive pieces of `size` transitions that overlap in one element: every transition of seq lies inside one piece."""
    return [seq[i:i + size + 1] for i in range(0, len(seq) - 1, size)]


# ----------------------------------------------------------------------------------------------------------------------------------
# one server process, one call at a time
# ----------------------------------------------------------------------------------------------------------------------------------
NOTE_INIT = {"jsonrpc": "2.0", "method": "notifications/initialized"}


def call_msg(i, tool, args):
    return {"jsonrpc": "2.0", "id": i, "method": "tools/call", "params": {"name": tool, "arguments": args}}


class Session:
    def __init__(self, cwd, config, errlog):
        env = dict(os.environ)
        env.pop("PYSCN_CONFIG", None)
        if config:
            env["PYSCN_CONFIG"] = config
        self.errlog = errlog
        self.err = open(errlog, "w")
        self.p = subprocess.Popen([M.MCP_BIN], stdin=subprocess.PIPE, stdout=subprocess.PIPE, stderr=self.err, text=True, cwd=cwd, env=env, bufsize=1)
        self.got, self.cv, self.eof, self.n = {}, threading.Condition(), False, 0
        threading.Thread(target=self._read, daemon=True).start()
        self._send(M.INIT)
        self._wait(0, 60)
        self._send(NOTE_INIT)

    def _read(self):
        for line in self.p.stdout:
            try:
                m = json.loads(line)
            except Exception:
                continue
            if isinstance(m, dict) and "id" in m:
                with self.cv:
                    self.got[m["id"]] = m
                    self.cv.notify_all()
        with self.cv:
            self.eof = True
            self.cv.notify_all()

    def _send(self, msg):
        try:
            self.p.stdin.write(json.dumps(msg) + "\n")
            self.p.stdin.flush()
            return True
        except (OSError, ValueError):
            return False

    def _wait(self, i, timeout):
        end = time.time() + timeout
        with self.cv:
            while i not in self.got and not self.eof:
                left = end - time.time()
                if left <= 0:
                    break
                self.cv.wait(left)
            return self.got.get(i)

    def call(self, tool, args, timeout=180):
        """The answer in the form of c20mcp.serve()."""
        self.n += 1
        self._send(call_msg(self.n, tool, args))
        m = self._wait(self.n, timeout)
        if m is None:
            self.err.flush()
            tail = open(self.errlog, errors="replace").read()[-1500:]
            return {"dead": "no answer (server exited: %s); stderr: %s" % (self.p.poll(), tail)}
        if "error" in m:
            return {"rpc_error": m["error"]}
        r = m.get("result") or {}
        return {"is_error": bool(r.get("isError")), "text": "".join(c.get("text", "") for c in r.get("content") or [] if c.get("type") == "text")}

    def close(self):
        try:
            self.p.stdin.close()
        except OSError:
            pass
        try:
            self.p.wait(20)
        except subprocess.TimeoutExpired:
            self.p.kill()
        self.err.close()


_log_n = [0]
_log_lock = threading.Lock()


def play(logdir, cwd, env_config, steps):
    """Answers of the steps made one after the other on ONE fresh server, and the seconds each took."""
    with _log_lock:
        _log_n[0] += 1
        log = os.path.join(logdir, "server%04d.stderr" % _log_n[0])
    s = Session(cwd, env_config, log)
    answers, secs = [], []
    for st in steps:
        t = time.time()
        a = s.call(st.tool, st.call_args)
        answers.append(a)
        secs.append(time.time() - t)
        if "dead" in a:
            break
    s.close()
    while len(answers) < len(steps):
        answers.append({"dead": "the server did not survive an earlier call of this history"})
        secs.append(0.0)
    try:
        os.remove(log)
    except OSError:
        pass
    return answers, secs


def judge(st, answer, main):
    """None when the answer carries the findings of the command line run (rc, report, stderr, argv) for the step's path and options."""
    rc, report, cerr, cmd = main
    tool = st.tool
    if "dead" in answer or "rpc_error" in answer:
        return "no result (server crashed or protocol error): %s" % str(answer)[:400]
    if answer["is_error"] or not report or report.get(M.SECTION.get(tool, "summary")) is None:
        if answer["is_error"] and (rc != 0 or not report):
            return None
        return "MCP %s while the command line %s" % ("fails (%s)" % answer["text"][:200] if answer["is_error"] else "answers",
                                                     "succeeds" if rc == 0 and report else "fails (exit %s: %s)" % (rc, cerr[-200:]))
    try:
        return M.compare(st.tgt.sc, tool, st.args, st.mode, json.loads(answer["text"]), report)
    except Exception as e:
        return "answer not comparable: %r; %s" % (e, answer["text"][:200])


def shell_line(cwd, env_config, steps, pause):
    parts = ["printf '%%s\\n' '%s' '%s' '%s'" % (json.dumps(M.INIT), json.dumps(NOTE_INIT), json.dumps(call_msg(1, steps[0].tool, steps[0].call_args)))]
    for i, st in enumerate(steps[1:]):
        parts += ["sleep %d" % pause, "printf '%%s\\n' '%s'" % json.dumps(call_msg(i + 2, st.tool, st.call_args))]
    return "cd %s && { %s; } | %s%s" % (cwd, "; ".join(parts), ("PYSCN_CONFIG=%s " % env_config) if env_config else "", M.MCP_BIN)


def run_shell_line(line, n):
    """Answer with id n of the replay line (the form of Session.call), or None."""
    try:
        p = subprocess.run(["bash", "-c", line], stdout=subprocess.PIPE, stderr=subprocess.DEVNULL, text=True, timeout=600,
                           env={k: v for k, v in os.environ.items() if k != "PYSCN_CONFIG"})
    except subprocess.TimeoutExpired:
        return None
    for l in p.stdout.splitlines():
        try:
            m = json.loads(l)
        except Exception:
            continue
        if isinstance(m, dict) and m.get("id") == n and "result" in m:
            r = m["result"] or {}
            return {"is_error": bool(r.get("isError")), "text": "".join(c.get("text", "") for c in r.get("content") or [] if c.get("type") == "text")}
    return None


# ----------------------------------------------------------------------------------------------------------------------------------
# the section
# ----------------------------------------------------------------------------------------------------------------------------------
NAMED = [("A,B0", ["A", "B0"]), ("B0,A,B0", ["B0", "A", "B0"]), ("A,C", ["A", "C"]), ("C,A", ["C", "A"]), ("B0,A-pkg,B0", ["B0", "A-pkg", "B0"]),
         ("D,B0", ["D", "B0"]), ("A-pkg,C", ["A-pkg", "C"]), ("A,B1,B0", ["A", "B1", "B0"])]       # quick tier: the first six


class Section:
    def __init__(self, ck, base, R, stats, violation, thorough):
        self.ck, self.R, self.stats, self.violation, self.thorough = ck, R, stats, violation, thorough
        self.t0 = time.time()
        self.root = os.path.join(base, "hist")
        self.logdir = os.path.join(self.root, "logs")
        os.makedirs(self.logdir)
        self.h = stats["mcp_history"] = {"servers": 0, "calls": {t: 0 for t in M.TOOLS}, "agree": 0, "histories": {}, "longest_history": 0,
                                         "target_transitions_per_tool": {}, "tool_transitions": 0, "failing_histories": 0}
        files = sources(ck.seed)
        self.neutral = write_tree(os.path.join(self.root, "neutral"), {}, {}, "pyscn")        # the servers' working directory
        pa = write_tree(os.path.join(self.root, "A"), files, X, "pyscn")
        pb0 = write_tree(os.path.join(self.root, "nocfg", "B0"), files, {}, "none")
        pb1 = write_tree(os.path.join(self.root, "B1"), files, {}, "pyscn")
        pc = write_tree(os.path.join(self.root, "C"), files, Y, "pyscn")
        pd = write_tree(os.path.join(self.root, "D"), files, Z, "pyproject")
        self.wfile = os.path.join(self.root, "W.toml")
        with open(self.wfile, "w") as f:
            f.write(toml_text(W))
        self.usable = True
        above = config_above(pb0)
        if above:       # then B0 is not a project without configuration: say so instead of comparing something else
            ck.broken_ties.append("MCP histories: a configuration file (%s) is discovered from the scratch project without configuration" % above)
            self.usable = False
            return
        N = self.neutral

        def targets(env):
            S = lambda nm, p, cfg: M.Scenario("history%s %s" % ("-env" if env else "", nm), p, N, W if env else cfg, env_config=self.wfile if env else None)
            a = S("A", pa, X)
            return [Tgt("A", a, "", "X"), Tgt("A-pkg", a, "pkg", "X"), Tgt("B0", S("B0", pb0, {}), "", "default"),
                    Tgt("B1", S("B1", pb1, {}), "", "default"), Tgt("C", S("C", pc, Y), "", "Y"), Tgt("D", S("D", pd, Z), "", "Z")]
        self.tg = targets(False)
        self.tg_env = targets(True)
        self.hists = self.generate()
        # every CLI run first (they fill the pool while the servers work), then one thread per server
        self.mains = {}
        self.cli_pool = ThreadPoolExecutor(max_workers=8)
        for h in self.hists:
            for st in h.steps:
                fl, cfg = M.cli_flags(st.tgt.sc, st.tool, st.args, None)
                self.mains[id(st)] = R.cli(st.tgt.sc, fl, cfg, st.tgt.path, pool=self.cli_pool)
        self.pool = ThreadPoolExecutor(max_workers=12)
        # longest first
        order = sorted(range(len(self.hists)), key=lambda i: -len(self.hists[i].steps))
        futs = {i: self.pool.submit(play, self.logdir, self.hists[i].cwd, self.hists[i].env_config, self.hists[i].steps) for i in order}
        self.futs = [futs[i] for i in range(len(self.hists))]

    # -- generation ----------------------------------------------------------------------------------------------------------------
    def generate(self):
        rng = random.Random(self.ck.seed * 104729 + 7)
        tg, by = self.tg, {t.name: t for t in self.tg}
        N, out = self.neutral, []
        size = 36 if self.thorough else 9

        def add(kind, name, env, steps):
            out.append(History(name, kind, N, self.wfile if env else None, steps))
            self.h["histories"][kind] = self.h["histories"].get(kind, 0) + 1
        for tool in M.TOOLS:
            a0, m0 = VARIANTS[tool][0]
            for nm, seq in (NAMED if self.thorough else NAMED[:6]):
                add("named", "%s: %s" % (tool, nm), False, [Step(by[x], tool, a0, m0) for x in seq])
            circ = euler_circuit(len(tg), rng)
            self.h["target_transitions_per_tool"][tool] = len(set(zip(circ, circ[1:])))
            # mostly the call that states no option; the same target twice in a row (self loop) with OTHER options than the call before
            steps, vi = [], 0
            for k, i in enumerate(circ):
                nv = len(VARIANTS[tool])
                if k and circ[k - 1] == i and nv > 1:
                    vi = rng.choice([v for v in range(nv) if v != vi])
                else:
                    vi = 0 if rng.random() < 0.6 else rng.randrange(nv)
                steps.append(Step(tg[i], tool, *VARIANTS[tool][vi]))
            for ci, piece in enumerate(chunks(steps, size)):
                add("target-circuit", "%s: circuit piece %d" % (tool, ci), False, piece)
            # one path, all ordered pairs of option/output-mode variants (what a call leaves behind must not reach the next call for the SAME path either)
            if len(VARIANTS[tool]) > 1:
                vc = euler_circuit(len(VARIANTS[tool]), rng)
                for tname in (("A", "B0") if self.thorough else ("A",)):
                    add("option-circuit", "%s: all ordered pairs of option variants on %s" % (tool, tname), False,
                        [Step(by[tname], tool, *VARIANTS[tool][v]) for v in vc])
        for env in ((False, True) if not self.thorough else (False, True, False, True)):
            tgs = self.tg_env if env else self.tg
            tools = euler_circuit(len(M.TOOLS), rng)
            walk = euler_circuit(len(tgs), rng, loops=False)[:-1]
            steps = []
            for k, ti in enumerate(tools):
                tool = M.TOOLS[ti]
                a, m = VARIANTS[tool][0] if rng.random() < 0.5 else rng.choice(VARIANTS[tool])
                steps.append(Step(tgs[walk[k % len(walk)]], tool, a, m))
            self.h["tool_transitions"] = max(self.h["tool_transitions"], len(set(zip(tools, tools[1:]))))
            for ci, piece in enumerate(chunks(steps, 49 if self.thorough else 10)):
                add("mixed-tools-env" if env else "mixed-tools", "mixed tools%s piece %d" % (" (PYSCN_CONFIG)" if env else "", ci), env, piece)
        return out

    # -- decision ------------------------------------------------------------------------------------------------------------------
    def verdict(self, st, answer):
        """None: the answer carries the command line's findings for the step's path and options; else the first difference."""
        return judge(st, answer, self.mains[id(st)].result())

    def fails(self, h, steps):
        answers, _ = play(self.logdir, h.cwd, h.env_config, steps)
        return self.verdict(steps[-1], answers[-1]), answers[-1]

    def shrink(self, h, k):
        """The shortest history found that ends in step k and still gets a wrong last answer; [] when no run reproduces it."""
        last = h.steps[k]
        d, _ = self.fails(h, [last])
        if d:
            return [last], d
        for j in range(k - 1, -1, -1):
            d, _ = self.fails(h, [h.steps[j], last])
            if d:
                return [h.steps[j], last], d
        cur = h.steps[:k + 1]
        d, _ = self.fails(h, cur)
        if not d:
            return [], None
        i, trials = 0, 0
        while i < len(cur) - 1 and trials < 40:
            cand = cur[:i] + cur[i + 1:]
            trials += 1
            d2, _ = self.fails(h, cand)
            if d2:
                cur, d = cand, d2
            else:
                i += 1
        return cur, d

    def decide(self):
        if not self.usable:
            return
        h_ = self.h
        failing, slowest = [], 0.0
        expected = {}
        for h, fut in zip(self.hists, self.futs):
            answers, secs = fut.result()
            h_["servers"] += 1
            h_["longest_history"] = max(h_["longest_history"], len(h.steps))
            slowest = max([slowest] + secs)
            first = None
            for k, (st, a) in enumerate(zip(h.steps, answers)):
                main = self.mains[id(st)].result()
                h_["calls"][st.tool] += 1
                if st.mode == "full" and not st.args and not h.env_config and not st.tgt.sub and main[1]:
                    expected.setdefault(st.tool, {})[st.tgt.conf] = self.fingerprint(st, main[1])
                d = self.verdict(st, a)
                if d is None:
                    h_["agree"] += 1
                elif first is None:
                    first = (k, d)
            if first:
                failing.append((h, first[0], first[1]))
        # do the configurations make a difference to every tool?  (a leak of one project's configuration into another call is then visible)
        h_["distinct_findings_per_tool"] = {t: "%d of %d configurations" % (len(set(v.values())), len(v)) for t, v in expected.items()}
        same = sorted(t for t, v in expected.items() if len(set(v.values())) < len(v))
        if same:
            self.ck.notes.append("MCP histories: the configurations X/Y/Z/default do not change the findings of %s" % same)
        h_["failing_histories"] = len(failing)
        h_["slowest_call_seconds"] = round(slowest, 2)
        failing.sort(key=lambda x: (x[1], len(x[0].steps)))
        seen = set()
        for h, k, d in failing:
            st = h.steps[k]
            key = (st.tool, h.env_config)
            if key in seen or len(seen) >= 4:
                continue
            seen.add(key)
            steps, d2 = self.shrink(h, k)
            if not steps:       # not reproducible on a fresh server with the same prefix: report the observation as it was made
                steps, d2, note = h.steps[:k + 1], d, "NOT reproduced by a second run of the same prefix on a fresh server"
            else:
                note = None
            self.report(h, steps, d2, note, max(2, int(slowest * 3) + 1))
        self.pool.shutdown()
        self.cli_pool.shutdown()
        h_["seconds_after_start"] = round(time.time() - self.t0, 1)

    def fingerprint(self, st, report):
        sc = st.tgt.sc
        if st.tool in M.SINGLE:
            return json.dumps(M.rows_of(st.tool, report.get(M.SECTION[st.tool]), sc.proj))
        if st.tool == "get_health_score":
            return json.dumps(M.health_of_summary(report.get("summary")), sort_keys=True)
        return json.dumps(M.all_rows(report, sc.proj), sort_keys=True)

    def report(self, h, steps, diff, note, pause):
        last = steps[-1]
        main = self.mains[id(last)].result()
        line = shell_line(h.cwd, h.env_config, steps, pause)
        confirmed = None
        if len(steps) <= 8:
            a = run_shell_line(line, len(steps))
            confirmed = a is not None and self.verdict(last, a) is not None
        conf_of = lambda t: "PYSCN_CONFIG" if h.env_config else t.conf
        if len(steps) == 1:
            what = ("MCP %s returns different findings than the command line for the same path and options [a single call on a fresh server; target %s, "
                    "configuration %s; arguments %s; CLI: %s]: %s" % (last.tool, last.tgt.name, conf_of(last.tgt), json.dumps(last.args), " ".join(main[3][1:]), diff))
        else:
            what = ("MCP %s returns different findings than the command line for the same path and options when the same server process answered "
                    "other calls before: after %s the call %s [configuration %s; CLI: %s] differs: %s — the same call as the first call of a fresh "
                    "server agrees with the command line, so the answer depends on the calls made before it (state carried from one call to the next)"
                    % (last.tool, ", ".join("%s [configuration %s]" % (s.short(), conf_of(s.tgt)) for s in steps[:-1]), last.short(), conf_of(last.tgt),
                       " ".join(main[3][1:]), diff))
        if note:
            what += " (" + note + ")"
        self.violation(what, {
            "kind": "mcp-history", "tool": last.tool, "history": h.name, "history_kind": h.kind,
            "calls": [{"id": i + 1, "tool": s.tool, "arguments": s.call_args, "target": s.tgt.name, "configuration": conf_of(s.tgt)} for i, s in enumerate(steps)],
            "wrong_answer_id": len(steps), "difference": diff, "server_working_directory": h.cwd, "PYSCN_CONFIG": h.env_config,
            "configurations": {"X (A, A-pkg)": toml_text(X), "Y (C)": toml_text(Y), "Z (D, pyproject.toml [tool.pyscn.*])": toml_text(Z),
                               "default (B0: no file; B1: empty .pyscn.toml)": "", "W (PYSCN_CONFIG)": toml_text(W) if h.env_config else None},
            "mcp": line + "   # the answer with \"id\":%d is the wrong one; the sleeps keep the calls sequential (the server runs tool calls in a "
                          "pool of 5 workers); binary: go build -o %s ./cmd/pyscn-mcp" % (len(steps), M.MCP_BIN),
            "mcp_line_reproduces": confirmed,
            "cli": " ".join(main[3]),
            "original_history": [s.short() for s in h.steps]})
