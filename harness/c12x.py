"""C12, second part — the option-dependent logic of the dependency analysis and the constructs the first part's
generators never produce (found with Go block coverage):

  options    IncludeStdLib / IncludeThirdParty / FollowRelative / exclude patterns (hook op imports_x), against the
             option-parametrised model Deps/ImportsOpt.v and the specification edges_py_o
  guards     `if` / `elif` conditions that mention TYPE_CHECKING inside and / or / == / is / not / parentheses, with the guarded
             statement in the body, the else or a later elif branch (isTypeCheckingCondition, isNotTypeCheckingCondition,
             runtimeValue), against Deps/TcGuard.v; the value of every condition is also taken from python3
  namespace  directories without __init__.py (PEP 420), with the default options and with the options of
             `pyscn check --select deps`; also through ModuleAnalyzer.AnalyzeProject the way `check` runs it
  prefix     the import root lies below the directory findProjectRoot picks (src layout, every marker file)
  wildcard   `from .m import *` in an __init__.py and `from pkg import *`
  stdlibname project modules named like standard-library modules
  shadow     m.py next to m/__init__.py
  broken     a file that does not parse: the other files keep their edges
  balanced   no module far from the main sequence (the fallback of extractCouplingResult)

and, for every project of both parts, the derived outputs of the report: root/leaf modules, direct / transitive
dependencies and dependents, risk level, average coupling / instability, main-sequence deviation, refactoring
candidates (check_outputs)."""
import os
from fractions import Fraction

import lib
from lib import clist

REQX = ("From Coq Require Import NArith ZArith QArith List Bool.\nImport ListNotations.\n"
        "From PV Require Import Deps.PyImport Deps.Imports Deps.Metrics Deps.ImportsWf Deps.ImportsRun Deps.ImportsOpt "
        "Deps.TcGuard Deps.ImportsOptRun.\nOpen Scope N_scope.")

XCLASS = {5: "wildcard-reexport", 8: "import-root-below-project-root"}
MARKERS = ["setup.py", "pyproject.toml", "setup.cfg", ".git", "requirements.txt"]

T, F = ("flag", True), ("flag", False)          # names the analyser knows nothing about: FLAG = True, NOFLAG = False at run time
CT, CF = ("const", True), ("const", False)      # the literals True / False
TC, TCA = ("tc",), ("tca",)
# (condition, where the import stands, how the code before fix baf3931 (F63) read it: True = as Python runs it).
# The analyser decides a condition by its value with TYPE_CHECKING = False and every other name unknown; where that value
# is unknown it counts both branches, so, as for every other position of this check, the names have the values that
# make the statement run.  Every entry must be read as Python runs it (checked against python3 in decide_extra).
GUARDS = [
    # type-checking-only: certainly false / in the else or elif branch of a condition that is certainly true
    (("and", TC, T), "if", True), (("and", T, TCA), "if", True), (("or", ("and", TC, T), CF), "if", True),
    (("or", CF, ("and", T, TCA)), "elif", True), (("or", TCA, CF), "if", True), (("eq", TC, CT), "if", True),
    (("and", TCA, ("not", F)), "elif", True), (("isnot", TC, CF), "if", True), (("and", TC, ("or", T, TCA)), "if", True),
    (("paren", TC), "if", False), (("paren", ("and", TCA, T)), "elif", False), (("not", ("not", TCA)), "if", False),
    (("not", ("or", ("not", TC), CF)), "if", False), (("ne", ("not", TC), CT), "elif", True),
    (("not", TC), "else", False), (("not", TCA), "orelif", False), (("or", TC, CT), "else", False), (("eq", TC, CF), "orelif", False),
    (("is", ("paren", TCA), CF), "else", False), (("not", ("and", TC, T)), "else", False), (("or", T, ("not", TC)), "orelif", False),
    # runtime code
    (("not", ("and", TC, T)), "if", True), (("not", TC), "elif", True), (("and", TC, T), "else", True), (TC, "else", True),
    (("and", TC, T), "orelif", True), (("paren", TCA), "else", True), (("or", TC, F), "else", True), (("eq", TC, CT), "orelif", True),
    # runtime code: the inputs that exposed F63
    (("or", TC, T), "if", False), (("or", T, TCA), "elif", False), (("or", ("and", TC, T), T), "if", False),
    (("eq", TC, F), "if", False), (("eq", TC, CF), "if", False), (("is", TCA, F), "if", False), (("is", TCA, CF), "elif", False),
    (("ne", TC, T), "if", False), (("ne", TC, CT), "if", False), (("isnot", TC, T), "elif", False), (("isnot", TCA, CT), "if", False),
    (("and", ("not", TC), T), "if", False), (("and", T, ("not", TCA)), "elif", False), (("eq", ("not", TC), T), "if", False),
    (("eq", ("not", TC), CT), "if", False), (("and", T, ("eq", F, TC)), "if", False), (("and", T, ("eq", CF, TC)), "elif", False),
    (("or", TC, CT), "if", False), (("or", ("eq", TCA, CF), F), "if", False),
]


def B():
    import c12
    return c12


def old_reading(g):
    """isTypeCheckingCondition before fix baf3931: the bare name / attribute, or an `and` / `or` / comparison that mentions it
    anywhere (parentheses and `not` at the top were not looked through)"""
    def mentions(x):
        return x[0] in ("tc", "tca") or any(mentions(y) for y in x[1:] if isinstance(y, tuple))
    if g[0] in ("tc", "tca"):
        return True
    return g[0] in ("and", "or", "eq", "is", "ne", "isnot") and mentions(g)


# ----------------------------------------------------------------------------------------------------
# families
# ----------------------------------------------------------------------------------------------------
def X(family, mods, mode="clean", **kw):
    x = dict(family=family, mode=mode, mods=mods, spec_mods=None, opts=None, prefix=(), marker="requirements.txt", project_run=False,
             agree_only=False, oracle=True, both_orders=False)
    x.update(kw)
    return x


def guards_projects():
    """one project: every condition of GUARDS guards one statement at three places of a top-level module (module level, in a
    def, in a try) and one relative import inside a package; any difference from Python's graph is a violation"""
    b = B()
    mods, stmts = [], []
    k = 0
    for g, gpos, _ in GUARDS:
        for pos in ("PModule", "PDef", "PTry"):
            k += 1
            t = "g%03d" % k
            mods.append(b.mod((t,)))
            s = b.st("abs", (t,), pos=pos) if k % 2 else b.st("from", (t,), [("fa", "fa")], pos=pos)
            s["guard"], s["guard_pos"] = g, gpos
            stmts.append(s)
    mods.append(b.mod(("pkg",), pkg=True))
    inner = []
    for j, (g, gpos, _) in enumerate(GUARDS):
        t = "r%02d" % j
        mods.append(b.mod(("pkg", t)))
        s = b.st("rel", () if j % 2 else (t,), [(t, t)] if j % 2 else [("fb", "fb")], level=1)
        s["guard"], s["guard_pos"] = g, gpos
        inner.append(s)
    mods.append(b.mod(("pkg", "walker"), stmts=inner))
    mods.append(b.mod(("walker",), stmts=stmts))
    return [X("guards", mods, agree_only=True, oracle=False, marker=MARKERS[1])]


def sanitize_for_prefix(mods):
    """re-exports by relative imports only; an absolute import from two or more levels down names nothing that also
    exists relative to the parent directory"""
    b = B()
    paths = {m["path"] for m in mods}
    for m in mods:
        P = m["path"] if m["pkg"] else m["path"][:-1]
        for s in m["stmts"]:
            if m["pkg"] and s["kind"] == "from" and s["path"][:len(P)] == P and len(s["path"]) > len(P):
                s["kind"], s["level"], s["path"] = "rel", 1, s["path"][len(P):]
            elif s["kind"] in ("abs", "from") and len(P) >= 2 and tuple(P[:-1]) + tuple(s["path"]) in paths:
                s["path"] = ("numpy",)
                if s["kind"] == "from":
                    s["names"] = [("thing", "thing")]
    return mods


def namespace_project(rng):
    b = B()
    st, mod = b.st, b.mod
    mods = [mod(("nsa", "x")), mod(("nsa", "y")), mod(("nsa", "inner"), pkg=True), mod(("nsa", "inner", "m")),
            mod(("nsa", "deepns", "z")), mod(("nsa", "deepns", "w")), mod(("reg",), pkg=True), mod(("reg", "core")),
            mod(("reg", "plain", "leaf")), mod(("main",)), mod(("tool",))]
    forms = {
        ("main",): [st("abs", ("nsa", "x")), st("from", ("nsa",), ["x"]), st("from", ("nsa", "x"), ["fa"]), st("from", ("nsa",), ["x", "y"]),
                    st("from", ("nsa", "deepns"), ["z"]), st("from", ("nsa",), ["inner"]), st("from", ("nsa", "inner"), ["m"]),
                    st("abs", ("nsa", "inner", "m")), st("from", ("reg", "plain"), ["leaf"]), st("from", ("nsa",), [("y", "why")]),
                    st("from", ("nsa", "deepns", "w"), ["fb"]), st("from", ("nosuchns",), ["x"])],
        ("tool",): [st("from", ("nsa",), ["y"]), st("abs", ("reg", "plain", "leaf")), st("from", ("reg",), ["core"]),
                    st("from", ("nsa", "deepns"), ["w", "z"])],
        ("nsa", "x"): [st("rel", (), ["y"], level=1), st("rel", ("y",), ["fb"], level=1), st("from", ("nsa",), ["y"]),
                       st("rel", ("deepns",), ["z"], level=1), st("rel", ("inner",), ["m"], level=1), st("abs", ("tool",))],
        ("nsa", "y"): [st("from", ("nsa",), ["x"]), st("rel", (), ["x"], level=1), st("abs", ("main",))],
        ("nsa", "deepns", "z"): [st("rel", ("x",), ["fa"], level=2), st("rel", (), ["w"], level=1), st("rel", (), ["y"], level=2),
                                 st("from", ("nsa", "deepns"), ["w"]), st("from", ("nsa",), ["x"])],
        ("nsa", "deepns", "w"): [st("from", ("nsa", "deepns"), ["z"]), st("rel", (), ["z"], level=1)],
        ("nsa", "inner", "m"): [st("rel", (), ["x"], level=2), st("from", ("nsa",), ["y"]), st("rel", (), ["m"], level=1)],
        ("reg", "core"): [st("from", ("reg", "plain"), ["leaf"]), st("rel", ("plain",), ["leaf"], level=1), st("from", ("nsa",), ["x"])],
        ("reg", "plain", "leaf"): [st("rel", (), ["core"], level=2), st("from", ("reg",), ["core"]), st("rel", ("core",), ["fa"], level=2)],
    }
    for m in mods:
        cand = forms.get(m["path"], [])
        for s in rng.sample(cand, min(len(cand), rng.choice([1, 2, 2, 3]))):
            s = dict(s)
            s["pos"] = b.rand_position(rng)
            m["stmts"].append(s)
        m["abstract"] = rng.choice([0, 1, 3])
    return mods


def wildcard_project(rng):
    b = B()
    st, mod = b.st, b.mod
    star = [("*", "*")]
    a_init = [st("rel", ("impl",), star, level=1)]
    if rng.random() < 0.5:
        a_init.append(st("rel", ("other",), [("fb", "ob")], level=1))
    b_init = [st("from", ("b", "core"), star)]
    mods = [mod(("a",), pkg=True, stmts=a_init), mod(("a", "impl")), mod(("a", "other")),
            mod(("b",), pkg=True, stmts=b_init), mod(("b", "core")), mod(("c",), pkg=True), mod(("c", "leaf")),
            mod(("user1",)), mod(("user2",)), mod(("a", "inside"))]
    cand = [st("from", ("a",), ["fa"]), st("from", ("a",), star), st("from", ("a",), ["impl"]), st("from", ("a",), ["fb", "other"]),
            st("from", ("b",), ["fc"]), st("from", ("b",), star), st("from", ("b",), [("fa", "bfa")]), st("from", ("c",), star),
            st("from", ("a", "impl"), star), st("from", ("a",), ["ob"]), st("from", ("c", "leaf"), ["fa"])]
    for p in (("user1",), ("user2",)):
        m = [x for x in mods if x["path"] == p][0]
        m["stmts"] += [dict(s) for s in rng.sample(cand, rng.choice([3, 4, 5]))]
    [x for x in mods if x["path"] == ("a", "inside")][0]["stmts"] += [st("rel", (), ["fa"], level=1), st("rel", ("impl",), star, level=1)]
    return mods


def desugar_star(mods):
    """the project as CPython runs it: a wildcard in an __init__ binds the public names of the source module (the generated
    modules define fa, fb, fc and importers ask for these only)"""
    b = B()
    out = []
    for m in mods:
        m2 = dict(m)
        if m["pkg"]:
            m2["stmts"] = [dict(s, names=[(a, a) for a in b.ATTRS]) if s["names"] == [("*", "*")] else s for s in m["stmts"]]
        out.append(m2)
    return out


def stdlibname_project(rng):
    b = B()
    st, mod = b.st, b.mod
    mods = [mod(("csv",)), mod(("html",), pkg=True, stmts=[st("rel", ("tools",), ["fa"], level=1)]), mod(("html", "tools")),
            mod(("argparse",)), mod(("app",)), mod(("pkg",), pkg=True), mod(("pkg", "user"))]
    cand = [st("abs", ("csv",)), st("from", ("csv",), ["fa"]), st("abs", ("html", "tools")), st("from", ("html",), ["tools"]),
            st("from", ("html",), ["fa"]), st("abs", ("argparse",), alias="ap"), st("from", ("xml",), ["dom"]), st("abs", ("xml", "dom")),
            st("abs", ("os", "path")), st("from", ("email",), ["message"]), st("abs", ("numpy",)), st("from", ("sqlite3",), ["thing"])]
    for p in (("app",), ("pkg", "user")):
        m = [x for x in mods if x["path"] == p][0]
        m["stmts"] += [dict(s, pos=b.rand_position(rng)) for s in rng.sample(cand, rng.choice([4, 5, 6]))]
    [x for x in mods if x["path"] == ("csv",)][0]["stmts"].append(st("abs", ("argparse",)))
    return mods


def shadow_project(rng, variant):
    """m.py next to m/__init__.py: Python imports the package, the file is dead.  Returns (modules, modules Python can import)"""
    b = B()
    st, mod = b.st, b.mod
    if variant == 0:
        mods = [mod(("dup",), stmts=[st("abs", ("user",)), st("from", ("lib",), ["fa"])]),        # dup.py, shadowed by dup/
                mod(("dup",), pkg=True, stmts=[st("abs", ("lib",))]), mod(("dup", "part")),
                mod(("user",), stmts=[st("abs", ("dup",)), st("from", ("dup",), ["part"])]), mod(("lib",)), mod(("other",), stmts=[st("abs", ("dup", "part"))])]
        dead = [("dup",)]
    elif variant == 1:
        # inside a package, the dead file would close a cycle; relative imports on both sides
        mods = [mod(("pk",), pkg=True), mod(("pk", "dup"), stmts=[st("rel", (), ["client"], level=1), st("rel", ("client",), ["fa"], level=1)]),
                mod(("pk", "dup"), pkg=True, stmts=[st("rel", ("helper",), ["fb"], level=2)]), mod(("pk", "dup", "inner")),
                mod(("pk", "client"), stmts=[st("rel", (), ["dup"], level=1), st("from", ("pk", "dup"), ["inner"])]), mod(("pk", "helper")),
                mod(("top",), stmts=[st("from", ("pk",), ["dup"]), st("abs", ("pk", "dup", "inner"))])]
        dead = [("pk", "dup")]
    else:
        # two shadowed files; the dead files import each other and a live module
        mods = [mod(("a",), stmts=[st("abs", ("b",)), st("abs", ("live",))]), mod(("a",), pkg=True),
                mod(("b",), stmts=[st("abs", ("a",))]), mod(("b",), pkg=True, stmts=[st("abs", ("live",), pos=b.rand_position(rng))]),
                mod(("b", "sub")), mod(("live",), stmts=[st("from", ("b",), ["sub"]), st("abs", ("a",))])]
        dead = [("a",), ("b",)]
    return mods, [m for m in mods if not (m["path"] in dead and not m["pkg"])]


def broken_project(rng):
    b = B()
    mods = b.random_project(rng, "clean")
    plain = [m for m in mods if not m["pkg"]]
    mods.append(dict(b.mod(("brokenmod",)), broken=[m["path"] for m in rng.sample(plain, min(2, len(plain)))]))
    rng.choice(plain)["stmts"].append(b.st("abs", ("brokenmod",)))
    pk = [m for m in mods if m["pkg"]]
    if pk and rng.random() < 0.7:
        m = rng.choice(pk)
        kids = b.children(mods, m["path"])
        m["broken"] = [m["path"] + (k,) for k in kids[:1]]
        m["stmts"], m["all"] = [], None
        if kids:
            # the re-export map of a package whose __init__ does not parse is empty (reexport_resolver.go GetReExportMap)
            user = rng.choice([x for x in plain if x["path"][:len(m["path"])] != m["path"]] or plain)
            user["stmts"].append(b.st("from", m["path"], [kids[0], "fa"]))
    return mods


def deeprel_project():
    """relative imports in an __init__.py that leave the top-level package (reexport_resolver.go: level > depth)"""
    b = B()
    st, mod = b.st, b.mod
    return [mod(("b",), pkg=True, stmts=[st("rel", ("util",), ["fa"], level=2), st("rel", ("x", "y"), [("fb", "zb")], level=3),
                                         st("rel", ("core",), ["fc"], level=1)]),
            mod(("b", "core")), mod(("b", "sub"), pkg=True, stmts=[st("rel", ("util",), ["fa"], level=3), st("rel", ("core",), [("fb", "cb")], level=2)]),
            mod(("b", "sub", "leaf")), mod(("util",)),
            mod(("top",), stmts=[st("from", ("b",), ["fa"]), st("from", ("b",), ["zb", "fc"]), st("from", ("b", "sub"), ["fa", "cb"])])]


def stdlib_namespace_project():
    """a directory named like a standard-library package, without __init__.py: only IncludeStdLib decides whether
    `from xml import mod` reaches xml/mod.py (Python itself takes the standard library's xml)"""
    b = B()
    st, mod = b.st, b.mod
    return [mod(("xml", "mod")), mod(("xml", "other"), stmts=[st("rel", (), ["mod"], level=1)]),
            mod(("app",), stmts=[st("from", ("xml",), ["mod"]), st("abs", ("xml", "other")), st("from", ("email",), ["mod"])]),
            mod(("email", "mod"), stmts=[st("from", ("xml",), ["other"])])]


def balanced_project(rng):
    b = B()
    n = rng.randint(2, 6)
    mods = [b.mod(("c%d" % i,)) for i in range(n)]
    for i in range(n - 1):
        mods[i]["stmts"].append(b.st("abs", ("c%d" % (i + 1),)))
    if n >= 4 and rng.random() < 0.5:
        mods[0]["stmts"].append(b.st("from", ("c2",), ["fa"]))
    for i, m in enumerate(mods):
        m["abstract"], m["extra_public"] = (3, 0) if i == n - 1 else (rng.choice([0, 1, 2, 3]), rng.choice([0, 1]))
    return mods


def extra_projects(rng, thorough):
    b = B()
    xs = guards_projects()
    mk = 0
    k_opt = 24 if thorough else 8
    for k in range(k_opt):
        mods = b.random_project(rng, rng.choice(["clean", "clean", "clean", "implicit", "irregular"]))
        names = [m["path"] for m in mods if not m["pkg"]]
        for o in ((True, True, True, None), (False, False, True, None), (False, True, False, None), (True, False, False, rng.choice(names))):
            mk += 1
            xs.append(X("options", mods, mode="options", opts=dict(stdlib=o[0], third=o[1], rel=o[2], excl=[o[3]] if o[3] else []),
                        marker=MARKERS[mk % 5], oracle=(o == (True, True, True, None))))
    for k in range(12 if thorough else 4):
        mods = namespace_project(rng)
        xs.append(X("namespace", mods, marker=MARKERS[k % 5], both_orders=True))
        xs.append(X("namespace", mods, opts=dict(stdlib=False, third=False, rel=True, excl=[]), project_run=True, oracle=False))
    for k in range(20 if thorough else 6):
        mods = sanitize_for_prefix(b.random_project(rng, "clean"))
        xs.append(X("prefix", mods, prefix=("src",) if k % 3 else ("lib", "python"), marker=MARKERS[k % 5]))
    for k in range(6 if thorough else 2):
        mods = wildcard_project(rng)
        xs.append(X("wildcard", mods, spec_mods=desugar_star(mods), oracle_mods=mods, marker=MARKERS[(k + 2) % 5]))
    for k in range(4 if thorough else 2):
        mods = stdlibname_project(rng)
        xs.append(X("stdlibname", mods))
        xs.append(X("stdlibname", mods, opts=dict(stdlib=True, third=False, rel=True, excl=[]), oracle=False))
    for variant in (0, 1, 2):
        mods, live = shadow_project(rng, variant)
        xs.append(X("shadow", mods, spec_mods=live, oracle_mods=live, both_orders=True))
    for k in range(6 if thorough else 2):
        xs.append(X("broken", broken_project(rng), both_orders=True, project_run=(k == 0)))
    xs.append(X("deeprel", deeprel_project()))
    mods = stdlib_namespace_project()
    for o in ((False, True), (True, False)):
        xs.append(X("stdlib-namespace", mods, opts=dict(stdlib=o[0], third=o[1], rel=True, excl=[]), oracle=False, tie_only=True))
    for k in range(8 if thorough else 3):
        xs.append(X("balanced", balanced_project(rng)))
    return xs


# ----------------------------------------------------------------------------------------------------
# derived outputs of the report, decided on the implementation's own graph
# ----------------------------------------------------------------------------------------------------
def sccs(nodes, edges):
    succ = {n: set() for n in nodes}
    for a, b_ in edges:
        succ[a].add(b_)
    reach = {}
    for n in nodes:
        seen, todo = set(), list(succ[n])
        while todo:
            v = todo.pop()
            if v not in seen:
                seen.add(v)
                todo += succ[v]
        reach[n] = seen
    return reach, {n for n in nodes if n in reach[n]}


def check_outputs(r, nodes, ie):
    """r: result of hook op imports_x. Returns a description of the first disagreement, or None."""
    nodes = sorted(set(nodes))
    succ = {n: set() for n in nodes}
    pred = {n: set() for n in nodes}
    for a, b_ in ie:
        succ[a].add(b_)
        pred[b_].add(a)
    reach, cyclic = sccs(nodes, ie)
    if r.get("roots") != [n for n in nodes if not succ[n]]:
        return "RootModules %s, the modules without dependencies are %s" % (r.get("roots"), [n for n in nodes if not succ[n]])
    if r.get("leaves") != [n for n in nodes if not pred[n]]:
        return "LeafModules %s, the modules without dependents are %s" % (r.get("leaves"), [n for n in nodes if not pred[n]])
    by = {m["module"]: m for m in r["metrics"]}
    for n in nodes:
        m = by[n]
        if m["direct"] != sorted(succ[n]) or m["dependents"] != sorted(pred[n]):
            return "module %s: DirectDependencies %s / Dependents %s differ from the graph (%s / %s)" % (
                n, m["direct"], m["dependents"], sorted(succ[n]), sorted(pred[n]))
        if m["transitive"] != sorted(reach[n] - {n}):
            return "module %s: TransitiveDependencies %s, reachable through imports: %s" % (n, m["transitive"], sorted(reach[n] - {n}))
        d = m["distance"]
        risk = "high" if d > 0.7 else "medium" if d > 0.4 else "low"
        if m["risk"] != risk:
            return "module %s: RiskLevel %s with distance %r (high above 0.7, medium above 0.4)" % (n, m["risk"], d)
    cp = r.get("coupling")
    if cp is None:
        return "no CouplingAnalysis"
    k = len(nodes)
    avg_c = Fraction(sum(by[n]["ca"] + by[n]["ce"] for n in nodes), k)
    avg_i = sum((Fraction(by[n]["ce"], by[n]["ca"] + by[n]["ce"]) if by[n]["ca"] + by[n]["ce"] else Fraction(0)) for n in nodes) / k
    avg_d = sum(by[n]["distance"] for n in nodes) / k
    if abs(cp["average_coupling"] - float(avg_c)) > 1e-9:
        return "AverageCoupling %r, mean of fan-in + fan-out is %r" % (cp["average_coupling"], float(avg_c))
    if abs(cp["average_instability"] - float(avg_i)) > 1e-9:
        return "AverageInstability %r, mean instability is %r" % (cp["average_instability"], float(avg_i))
    if abs(cp["main_sequence_deviation"] - avg_d) > 1e-9:
        return "MainSequenceDeviation %r, mean distance from the main sequence is %r" % (cp["main_sequence_deviation"], avg_d)
    # refactoring candidates (coupling_metrics.go identifyRefactoringPriorities): distance > 0.5 weighs 50 * distance,
    # membership in a cycle 30; candidates above 10, heaviest first, ten at most
    cand = []
    for n in nodes:
        pr = (by[n]["distance"] * 50 if by[n]["distance"] > 0.5 else 0.0) + (30 if n in cyclic else 0)
        if pr > 10:
            cand.append((-pr, n))
    prio = [n for _, n in sorted(cand)][:10]
    want_hc = prio if cp["average_coupling"] > 0.5 else []
    if cp["highly_coupled"] != want_hc or cp["zone_of_pain"] != prio[:3]:
        return "HighlyCoupledModules %s / ZoneOfPain %s, expected %s / %s" % (cp["highly_coupled"], cp["zone_of_pain"], want_hc, prio[:3])
    return None


# ----------------------------------------------------------------------------------------------------
# run
# ----------------------------------------------------------------------------------------------------
def coq_opts(nm, o):
    o = o or dict(stdlib=False, third=True, rel=True, excl=[])
    cb = lambda v: "true" if v else "false"
    return "(mk_opts %s %s %s %s)" % (cb(o["stdlib"]), cb(o["third"]), cb(o["rel"]), clist([nm.path(p) for p in o["excl"]]))


def prepare_extra(ck, rng, nm, work, thorough):
    """generate the projects, run the implementation, build the Coq jobs (evaluated together with the first part's)"""
    b = B()
    xs = extra_projects(rng, thorough)
    # ---- implementation ----
    reqs, owner = [], []
    for i, x in enumerate(xs):
        root = os.path.join(work, "x%04d" % i, "proj")
        d = os.path.join(root, *x["prefix"])
        x["root"], x["dir"] = root, d
        b.write_project(x["mods"], d, marker=x["marker"], marker_dir=root)
        files = sorted(os.path.join(*x["prefix"], b.file_of(m)) for m in x["mods"])
        rq = {"op": "imports_x", "dir": root, "project": x["project_run"], "files": files}       # a setup.py marker is not a module
        o = x["opts"]
        if o:
            rq.update(include_stdlib=o["stdlib"], include_third_party=o["third"], follow_relative=o["rel"],
                      exclude=[".".join(p) for p in o["excl"]])
        reqs.append(rq)
        owner.append((i, 0))
        if x["both_orders"]:
            reqs.append(dict(rq, files=list(reversed(files)), project=False))
            owner.append((i, 1))
    res = lib.driver(reqs)
    lib.log("C12x: %d projects, implementation done %.1fs" % (len(xs), __import__("time").time() - ck.t0))
    for (i, k), r in zip(owner, res):
        for key in ("edges", "modules", "metrics"):
            if key in r and r[key] is None:
                r[key] = []
        xs[i]["impl" if k == 0 else "impl2"] = r
    # ---- Coq ----
    jobs = []
    shard = 6
    for off in range(0, len(xs), shard):
        body = ""
        for x in xs[off:off + shard]:
            r = x["impl"]
            pre = list(x["prefix"])
            nodes = [".".join(pre + list(m["path"])) for m in x["mods"]]
            ok = "error" not in r and all(a in nodes and b_ in nodes for a, b_ in r.get("edges", []))
            dag = ok and b.longest_path_dag(sorted(set(nodes)), [tuple(e) for e in r["edges"]]) is not None
            spec_mods = x["spec_mods"] or x["mods"]
            body += "Eval vm_compute in run_project_x %s %s %s %s %s.\n" % (
                "true" if dag else "false", coq_opts(nm, x["opts"]), nm.path(pre), b.coq_project(nm, x["mods"], "model"),
                b.coq_project(nm, spec_mods, "spec"))
            body += "Eval vm_compute in run_resolve_x %s.\n" % b.coq_project(nm, spec_mods, "spec")
        jobs.append(("C12_x_%d" % off, REQX, body))
    gl = [g for g, _, _ in GUARDS]
    jobs.append(("C12_x_guards", REQX, "Eval vm_compute in run_guards %s.\n" % clist([b.guard_coq(g) for g in gl])))
    return xs, jobs


def decide_extra(ck, nm, work, xs, outs):
    b = B()
    stats = {"families": {}, "classes": {}, "n_eval": 0, "guards": 0, "oracle_stmts": 0, "oracle_bad": 0, "diff_spec": 0, "project_runs": 0}
    vals = []
    for out in outs[:-1]:
        vals += lib.parse_coq_values(out)
    if len(vals) != 2 * len(xs):
        ck.broken_ties.append("option-dependent model: %d Coq values for %d projects" % (len(vals), len(xs)))
        return stats
    # ---- the conditions: Coq's eval_guard against python3; the model's reading (runtimeValue) must be Python's for every
    # entry of the table, and must differ from the reading of the code before the fix exactly where the table says so ----
    gv = lib.parse_coq_values(outs[-1])[0]
    for (g, gpos, old_ok), (ev, isTc, isNotTc) in zip(GUARDS, gv):
        stats["guards"] += 1
        if ev != b.guard_python(g):
            ck.broken_ties.append("specification eval_guard disagrees with python3 on `%s`: python %s, Coq %s" % (b.guard_text(g), b.guard_python(g), ev))
        model_tc, spec_tc = (isNotTc, ev) if gpos in ("else", "orelif") else (isTc, not ev)
        if model_tc != spec_tc:
            ck.broken_ties.append("Deps/TcGuard.v reads `%s` (%s) as %s, python3 %s the statement" % (
                b.guard_text(g), gpos, "type-checking-only" if model_tc else "runtime code", "does not run" if spec_tc else "runs"))
        old_tc = False if gpos in ("else", "orelif") else old_reading(g)
        if (old_tc == spec_tc) != old_ok:
            ck.broken_ties.append("guard table of the check is wrong for `%s` (%s): the code before the fix %s" % (
                b.guard_text(g), gpos, "agreed" if old_tc == spec_tc else "disagreed"))

    def edge_set(es):
        return {(nm.unpath(a), nm.unpath(b_)) for a, b_ in es}

    # ---- CPython tie of the specification on the new layouts ----
    from concurrent.futures import ThreadPoolExecutor
    idxs = [i for i, x in enumerate(xs) if x["oracle"]]
    with ThreadPoolExecutor(max_workers=6) as ex:
        futs = {i: ex.submit(b.cpython_oracle, xs[i].get("oracle_mods") or xs[i]["spec_mods"] or xs[i]["mods"], os.path.join(work, "x%04d" % i))
                for i in idxs}
    for i in idxs:
        try:
            py = futs[i].result()
        except Exception as e:
            ck.broken_ties.append("CPython oracle failed on extra project %d: %s" % (i, str(e)[-300:]))
            break
        spec_mods = xs[i]["spec_mods"] or xs[i]["mods"]
        flat_spec = [sorted({nm.unpath(p) for p in stmt}) for modr in vals[2 * i + 1] for stmt in modr]
        stmts = [(m, s) for m in spec_mods for s in ([] if m.get("broken") else b.model_stmts(m))]
        py = [p for p, (m, s) in zip(py, [(m, s) for m in spec_mods for s in b.model_stmts(m)]) if not m.get("broken")]
        for k, (a, c) in enumerate(zip(py, flat_spec)):
            stats["oracle_stmts"] += 1
            if a != c:
                stats["oracle_bad"] += 1
                if stats["oracle_bad"] <= 3:
                    m, s = stmts[k]
                    ck.broken_ties.append("specification resolve_py disagrees with python3 (%s layout): in module %s, `%s` -> python %s, spec %s"
                                          % (xs[i]["family"], ".".join(m["path"]), b.stmt_text(s), a, c))
    # ---- decide ----
    for i, x in enumerate(xs):
        fam = x["family"]
        stats["families"][fam] = stats["families"].get(fam, 0) + 1
        stats["n_eval"] += 1
        r = x["impl"]
        mods = x["mods"]
        pre = list(x["prefix"])
        replay = {"project": {os.path.join(*pre, b.file_of(m)): b.render_module(m) for m in mods}, "family": fam, "mode": x["mode"],
                  "options": x["opts"], "marker": x["marker"]}
        if "error" in r:
            ck.violation("dependency analysis failed: %s" % r["error"], dict(replay, impl=r))
            continue
        nodes = sorted({".".join(pre + list(m["path"])) for m in mods})
        ie = {tuple(e) for e in r["edges"]}
        replay["impl_edges"] = sorted(ie)
        if sorted(r["modules"]) != nodes:
            ck.violation("module set differs: impl %s, project %s" % (r["modules"], nodes), replay)
            continue
        if "impl2" in x and {tuple(e) for e in x["impl2"].get("edges", [])} != ie:
            ck.violation("import graph depends on the order in which the files are analysed (%s layout): %s"
                         % (fam, sorted(ie ^ {tuple(e) for e in x["impl2"].get("edges", [])})), replay)
            continue
        # metrics on the implementation's own graph
        bad = None
        indeg = {n: 0 for n in nodes}
        outdeg = {n: 0 for n in nodes}
        for a, c in ie:
            outdeg[a] += 1
            indeg[c] += 1
        by = {m["module"]: m for m in r["metrics"]}
        for n in nodes:
            mt = by.get(n)
            if mt is None:
                bad = "no metrics for module %s" % n
                break
            tot = indeg[n] + outdeg[n]
            inst = float(Fraction(outdeg[n], tot)) if tot else 0.0
            if (mt["ca"], mt["ce"]) != (indeg[n], outdeg[n]) or mt["instability"] != inst:
                bad = "module %s: fan-in/fan-out/instability (%d, %d, %r), the graph gives (%d, %d, %r)" % (n, mt["ca"], mt["ce"], mt["instability"], indeg[n], outdeg[n], inst)
                break
            dist = abs(mt["abstractness"] + inst - 1.0)
            if not (0.0 <= mt["distance"] <= 1.0) or abs(mt["distance"] - dist) > 1e-12:
                bad = "module %s: distance %r, |A+I-1| = %r" % (n, mt["distance"], dist)
                break
        lp = b.longest_path_dag(nodes, ie)
        if bad is None and lp is not None and r["max_depth"] != lp:
            bad = "max depth %d but the longest import chain has %d edges" % (r["max_depth"], lp)
        if bad is None and (r["total_modules"] != len(nodes) or r["total_dependencies"] != len(ie)):
            bad = "totals (%d modules, %d dependencies) differ from the graph (%d, %d)" % (r["total_modules"], r["total_dependencies"], len(nodes), len(ie))
        if bad is None:
            bad = check_outputs(r, nodes, ie)
        if bad:
            ck.violation("module metrics: " + bad, replay)
            continue
        spec_e, model_e, order_ok, classes, alts, mmetrics, (mdepth, longest) = vals[2 * i]
        se, me = edge_set(spec_e), edge_set(model_e)
        old = [b.CLASS_NAMES[c] for c in classes]
        alts = {c: edge_set(es) for c, es in alts}
        if not pre:
            alts.pop(8, None)
        for c in old + [XCLASS[c] for c in alts]:
            stats["classes"][c] = stats["classes"].get(c, 0) + 1
        replay.update(spec_edges=sorted(se), model_edges=sorted(me), classes=old + [XCLASS[c] for c in alts])
        if not order_ok:
            ck.broken_ties.append("option-dependent model: file order changes the edges of extra project %d (%s)" % (i, fam))
        # `pyscn check --select deps` builds its graph with AnalyzeProject and its own options
        if x["project_run"]:
            stats["project_runs"] += 1
            pe = {tuple(e) for e in r.get("project_edges", [])}
            if "project_error" in r or sorted(r.get("project_modules", [])) != nodes:
                ck.violation("ModuleAnalyzer.AnalyzeProject (the way `pyscn check --select deps` runs it): %s"
                             % (r.get("project_error") or "modules %s, project %s" % (r.get("project_modules"), nodes)), replay)
                continue
            # the same graph as AnalyzeFiles, whatever include_third_party is (Props/C12.v C12_include_third_party_irrelevant;
            # include_stdlib is false in both runs)
            if pe != ie:
                ck.violation("AnalyzeProject (options of `pyscn check`) and AnalyzeFiles give different graphs: %s" % sorted(pe ^ ie), replay)
                continue
        pkgs = {".".join(pre + list(m["path"])) for m in mods if m["pkg"]}
        norm = lambda es: {(a, c) for (a, c) in es if not (a in pkgs and c.startswith(a + "."))} if "init-own-submodule" in old else es
        if x.get("tie_only") or (x["opts"] and x["opts"]["excl"]):
            # shouldIncludeDependency / a namespace directory named like a stdlib package: the property says nothing, the model does
            if ie != me:
                ck.violation("with options %s the import graph is not the one module_analyzer.go gives (Deps/ImportsOpt.v): impl-model %s, "
                             "model-impl %s" % (x["opts"], sorted(ie - me)[:6], sorted(me - ie)[:6]), replay)
            continue
        if ie != se:
            stats["diff_spec"] += 1
            what = "import graph differs from Python's import semantics (%s%s): missing %s, extra %s" % (
                fam, ", options %s" % x["opts"] if x["opts"] else "", sorted(se - ie)[:8], sorted(ie - se)[:8])
            hit = []
            if ie == me and not x["agree_only"]:
                eff = [c for c, alt in alts.items() if alt != se]          # new deviations that change this project's graph
                if eff:
                    # the graph must be exactly what the specification gives once the deviation is applied
                    # (and the edges of an __init__ into its own package are dropped, F32)
                    if set(old) <= {"init-own-submodule"}:
                        hit = [XCLASS[c] for c in eff if ie == norm(alts[c])]
                        if hit and any(norm(alts[c]) != alts[c] for c in eff):
                            hit.append("init-own-submodule")
                elif old == ["init-own-submodule"]:
                    hit = old if ie == norm(se) else []
                else:
                    hit = old
            known = [ck.match_known({"class": c, "impl_equals_model": True}) for c in hit]
            if hit and all(known):
                for e in known:
                    ck.known_finding(e)
            else:
                ck.violation(what + (" (classes %s)" % replay["classes"] if replay["classes"] else ""), replay)
            continue
        if ie != me:
            ck.broken_ties.append("implementation agrees with the specification but not with the option-dependent model on extra project %d (%s, %s): "
                                  "impl-model %s, model-impl %s" % (i, fam, x["opts"], sorted(ie - me)[:6], sorted(me - ie)[:6]))
            continue
        mm = {nm.unpath(p): v for p, v in mmetrics}
        for n in nodes:
            ca, ce, q = mm[n]
            if (ca, ce) != (by[n]["ca"], by[n]["ce"]) or float(b.qval(q)) != by[n]["instability"]:
                ck.broken_ties.append("model metrics differ for %s in extra project %d: model %s impl %s" % (n, i, (ca, ce, q), by[n]))
                break
        md = mdepth[1] if isinstance(mdepth, tuple) else None
        if md != r["max_depth"]:
            ck.broken_ties.append("model max depth %s, implementation %s (extra project %d, %s)" % (mdepth, r["max_depth"], i, fam))
    return stats
