#!/bin/bash
# usage: VERIF_REPO=<scratch repo> bash harness/seed_regress.sh : every archived seeded change against the check of its own property
# (seeded/<Cxx>[-n]; C05-4 is neutralised by the repair 77e16f0 and expected to give exit=0); one line per seed: "<seed> <check> exit=<e> ..."; exit=1 expected everywhere except where meta.json says otherwise.
cd "$(dirname "$0")/.."
python3 harness/setup.py >/dev/null 2>&1
for s in $(ls seeded); do
  c=${s:0:3}
  extra=""
  [ "$s" = "C20-4" ] && extra="C15"
  [ "$s" = "C08-2" ] && extra="C09"
  echo "== $s"
  python3 harness/try_seed.py seeded/$s/patch.diff $c $extra 2>&1 | grep -v conda | cut -c1-220
done
