"""Real-Python corpus for property C01 (nothing that can execute is reported dead): constructs outside the statement
model of coq/Py/PyAST.v (except*, generators, async, decorators, class bodies, patterns, suppressing context managers,
finally overriding control flow, ...).  harness/c01.py runs every entry of CALLS under sys.settrace and checks that no
executed line lies in a range pyscn reports as dead.  Keep one statement per line."""
import asyncio
import contextlib
import functools
import sys


def exc_group_return(x):
    try:
        return int(x)
    except* ValueError:
        pass
    return "after"


def exc_group_raise(x):
    try:
        raise ExceptionGroup("g", [ValueError(x), TypeError(x)])
    except* ValueError:
        x = "v"
    except* TypeError:
        x = x + "t"
    return x


def exc_group_else_finally(x):
    out = []
    try:
        out.append(int(x))
    except* ValueError as eg:
        out.append(len(eg.exceptions))
    else:
        out.append("else")
    finally:
        out.append("fin")
    return out


def suppress_raise():
    with contextlib.suppress(ValueError):
        raise ValueError("x")
    return "after with"


def suppress_return_path(flag):
    with contextlib.suppress(KeyError):
        if flag:
            raise KeyError(flag)
        return "inside"
    return "after"


class Swallow:
    def __enter__(self):
        return self

    def __exit__(self, *exc):
        return True


def swallow_multi():
    with Swallow() as a, Swallow() as b:
        raise RuntimeError((a, b))
    return "after"


def finally_overrides_raise():
    try:
        raise ValueError("x")
    finally:
        return "finally wins"


def finally_overrides_return():
    for i in range(3):
        try:
            return i
        finally:
            if i < 2:
                continue
    return "loop done"


def finally_break():
    while True:
        try:
            raise KeyError("k")
        finally:
            break
    return "after loop"


def loop_else(n):
    for i in range(n):
        if i == 5:
            break
    else:
        return "no break"
    return "broke"


def while_else_walrus(items):
    it = iter(items)
    while (x := next(it, None)) is not None:
        if x < 0:
            break
    else:
        return "exhausted"
    return x


def gen_after_yield(n):
    yield n
    if n:
        return
    yield "zero"


def gen_finally():
    try:
        yield 1
        yield 2
    finally:
        yield "cleanup"


def gen_send():
    got = yield "ready"
    while got:
        got = yield got * 2
    return "done"


def use_generators():
    out = list(gen_after_yield(0)) + list(gen_after_yield(1)) + list(gen_finally())
    g = gen_send()
    out.append(next(g))
    out.append(g.send(2))
    try:
        g.send(0)
    except StopIteration as e:
        out.append(e.value)
    return out


async def a_leaf(x):
    await asyncio.sleep(0)
    if x:
        return x
    raise ValueError(x)


class AIter:
    def __init__(self, n):
        self.n = n

    def __aiter__(self):
        return self

    async def __anext__(self):
        if self.n == 0:
            raise StopAsyncIteration
        self.n -= 1
        return self.n


class ACtx:
    async def __aenter__(self):
        return self

    async def __aexit__(self, *exc):
        return True


async def a_main():
    out = []
    async for i in AIter(3):
        if i == 1:
            continue
        out.append(i)
    else:
        out.append("else")
    async with ACtx():
        await a_leaf(0)
        out.append("not reached")
    out.append("after async with")
    try:
        await a_leaf(0)
    except ValueError:
        out.append("caught")
    out += [j async for j in AIter(2)]
    return out


def run_async():
    return asyncio.run(a_main())


def match_patterns(v):
    match v:
        case []:
            return "empty"
        case [x, *rest] if x:
            return ("head", x, rest)
        case {"k": k}:
            return ("map", k)
        case Swallow():
            return "cls"
        case int() | float() as num:
            return ("num", num)
        case _:
            pass
    return "fell through"


def match_no_wildcard(v):
    match v:
        case 1:
            return "one"
        case 2:
            raise ValueError(v)
    return "none matched"


def deco(fn):
    @functools.wraps(fn)
    def wrapper(*a, **k):
        try:
            return fn(*a, **k)
        except ZeroDivisionError:
            return "div0"
    return wrapper


@deco
def decorated(a, b):
    return a / b


def closures(n):
    acc = []

    def add(x):
        nonlocal n
        n += x
        acc.append(n)
        return n

    def never_called():
        return "x"
    add(1)
    add(2)
    return acc


def class_body_code(flag):
    class Local:
        if flag:
            attr = 1
        else:
            attr = 2
        for i in range(2):
            pass

        def meth(self):
            return self.attr
    return Local().meth()


def nested_handlers(x):
    try:
        try:
            return int(x)
        except ValueError as e:
            raise KeyError(x) from e
        finally:
            x = "f"
    except KeyError:
        return "key"
    return "unreachable?"


def raise_in_else(x):
    try:
        v = int(x)
    except ValueError:
        v = -1
    else:
        if v == 0:
            raise ZeroDivisionError
    finally:
        pass
    return v


def bare_raise_reraise(x):
    try:
        try:
            int(x)
        except ValueError:
            raise
    except Exception:
        return "outer"
    return "ok"


def assert_then_code(x):
    try:
        assert x, "falsy"
    except AssertionError:
        return "assert failed"
    return "assert ok"


def exit_call_caught():
    try:
        sys.exit(3)
    except SystemExit:
        pass
    return "after exit"


def lambda_and_defaults(a, b=lambda: 1):
    f = lambda x: (x and b()) or a   # noqa: E731
    return f(0), f(1)


def return_in_with_and_loop(paths):
    for p in paths:
        with contextlib.nullcontext(p) as q:
            if q:
                return q
            continue
    return None


def try_in_loop_continue(n):
    out = []
    for i in range(n):
        try:
            if i % 2:
                continue
            out.append(i)
        except Exception:
            break
        finally:
            out.append("f")
    else:
        out.append("else")
    return out


def conditional_import(flag):
    if flag:
        import json as mod
    else:
        mod = None
    try:
        import does_not_exist_xyz
    except ImportError:
        does_not_exist_xyz = None
    return mod, does_not_exist_xyz


def while_true_return():
    n = 0
    while True:
        n += 1
        if n > 2:
            return n


def del_global_star(*args, **kw):
    global _G
    _G = len(args)
    d = dict(kw)
    del d
    first, *rest = args or [None]
    return first, rest, _G


def elif_chain(v):
    if v == 1:
        return "a"
    elif v == 2:
        r = "b"
    elif v == 3:
        return "c"
    elif v == 4:
        raise ValueError(v)
    else:
        return "e"
    return r


def comprehension_forms(n):
    a = [i for i in range(n) if i % 2 if i > 1]
    b = {i: j for i in range(2) for j in range(2)}
    c = {i for i in a}
    d = sum(i for i in c)
    e = [[j for j in range(i)] for i in range(3)]
    return a, b, c, d, e


def multiline_statement(a,
                        b=(1,
                           2)):
    total = (a +
             b[0] +
             b[1])
    if (total >
            3):
        return [
            total,
        ]
    return (
        None
    )


def property_like():
    class P:
        def __init__(self):
            self._v = 0

        @property
        def v(self):
            return self._v

        @v.setter
        def v(self, val):
            if val < 0:
                raise ValueError(val)
            self._v = val
    p = P()
    p.v = 3
    try:
        p.v = -1
    except ValueError:
        pass
    return p.v


_CACHE = {1: "one"}
_RELEASED = []


def cache_lookup_locked(key):
    _RELEASED.append("acquire")
    try:
        try:
            return _CACHE[key]
        except KeyError:
            return "computed %s" % key
    finally:
        _RELEASED.append("release")


def parse_all_handlers_return(text):
    closed = []
    try:
        try:
            return int(text)
        except ValueError:
            return float(text)
        except TypeError:
            return None
    except ValueError:
        return "neither"
    finally:
        closed.append(text)
        _RELEASED.append(closed)


def nested_cleanup_returns(items, key):
    log = []
    for it in items:
        try:
            with contextlib.suppress(AttributeError):
                try:
                    if it is None:
                        continue
                    return it[key]
                except KeyError:
                    break
                except TypeError:
                    raise LookupError(key)
                else:
                    return "unreached else"
        finally:
            log.append(it)
            _RELEASED.append(log)
    else:
        return "exhausted"
    return "broke out"


def three_deep_all_return(x):
    try:
        try:
            try:
                return 10 // x
            except ZeroDivisionError:
                return x.missing
        except AttributeError:
            return "no attribute"
    finally:
        _RELEASED.append("three deep")


def really_dead(x):
    if x:
        return 1
    else:
        raise ValueError(x)
    x = "never"          # non-vacuity: pyscn must report this one (the harness counts the dead ranges of the corpus)
    return x


def _safe(fn, *a):
    try:
        return fn(*a)
    except BaseException as e:      # every entry is executed whatever it raises
        return e


CALLS = [
    (exc_group_return, ("1",)), (exc_group_return, ("x",)), (exc_group_raise, ("a",)), (exc_group_else_finally, ("1",)),
    (exc_group_else_finally, ("x",)), (suppress_raise, ()), (suppress_return_path, (0,)), (suppress_return_path, (1,)),
    (swallow_multi, ()), (finally_overrides_raise, ()), (finally_overrides_return, ()), (finally_break, ()),
    (loop_else, (3,)), (loop_else, (9,)), (while_else_walrus, ([1, 2],)), (while_else_walrus, ([1, -2],)),
    (use_generators, ()), (run_async, ()), (match_patterns, ([],)), (match_patterns, ([1, 2],)), (match_patterns, ([0],)),
    (match_patterns, ({"k": 1},)), (match_patterns, (Swallow(),)), (match_patterns, (1.5,)), (match_patterns, ("s",)),
    (match_no_wildcard, (1,)), (match_no_wildcard, (2,)), (match_no_wildcard, (3,)), (decorated, (1, 0)), (decorated, (1, 2)),
    (closures, (0,)), (class_body_code, (True,)), (class_body_code, (False,)), (nested_handlers, ("1",)), (nested_handlers, ("x",)),
    (raise_in_else, ("0",)), (raise_in_else, ("x",)), (raise_in_else, ("2",)), (bare_raise_reraise, ("x",)), (bare_raise_reraise, ("1",)),
    (assert_then_code, (0,)), (assert_then_code, (1,)), (exit_call_caught, ()), (lambda_and_defaults, (5,)),
    (return_in_with_and_loop, (["", "p"],)), (return_in_with_and_loop, ([""],)), (try_in_loop_continue, (3,)),
    (conditional_import, (True,)), (conditional_import, (False,)), (while_true_return, ()), (del_global_star, (1, 2)),
    (del_global_star, ()), (elif_chain, (1,)), (elif_chain, (2,)), (elif_chain, (3,)), (elif_chain, (4,)), (elif_chain, (5,)),
    (cache_lookup_locked, (1,)), (cache_lookup_locked, (2,)), (parse_all_handlers_return, ("7",)), (parse_all_handlers_return, ("7.5",)),
    (parse_all_handlers_return, ("x",)), (parse_all_handlers_return, (None,)), (nested_cleanup_returns, ([None, {"a": 1}], "a")),
    (nested_cleanup_returns, ([{"b": 1}], "a")), (nested_cleanup_returns, ([3], "a")), (nested_cleanup_returns, ([None], "a")),
    (three_deep_all_return, (2,)), (three_deep_all_return, (0,)), (three_deep_all_return, ("s",)),
    (really_dead, (1,)), (really_dead, (0,)), (comprehension_forms, (6,)), (multiline_statement, (1,)), (multiline_statement, (0, (0, 0))), (property_like, ()),
]


def run_all():
    return [_safe(fn, *a) for fn, a in CALLS]
