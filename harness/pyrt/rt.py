"""Runtime for generated programs: every marker records its line number and consumes one
choice (0..3) from the oracle (same consumption order as coq/Py/PySem.v)."""
T = True
_oracle = []
_pos = 0
trace = []


class NS:                 # target of the attribute / augmented assignment forms of a simple statement
    acc = []
    x = None


class E(Exception):
    pass


class _Never(BaseException):
    pass


def reset(oracle):
    global _oracle, _pos
    _oracle = list(oracle)
    _pos = 0
    del trace[:]


def nxt():
    global _pos
    if _pos < len(_oracle):
        c = _oracle[_pos]
        _pos += 1
        return c
    return 0


def M(k):                 # simple statement / def default
    trace.append(k)
    if nxt() == 3:
        raise E(k)


def R(k):                 # return value
    trace.append(k)
    if nxt() == 3:
        raise E(k)
    return k


def X(k):                 # raise X(k)
    trace.append(k)
    return E(k)


def C(k):                 # if / elif / while test: 0 false, 1 true, 2 raise
    trace.append(k)
    c = nxt()
    if c == 3:
        raise E(k)
    return c in (1, 2)


class _It:
    def __init__(self, k):
        self.k = k

    def __iter__(self):
        return self

    def __next__(self):
        c = nxt()
        if c == 3:
            raise E(self.k)
        if c in (1, 2):
            return 0
        raise StopIteration


def I(k):                 # for iterable: creation may raise (3), then each next: 0 stop, 1/2 item, 3 raise
    trace.append(k)
    if nxt() == 3:
        raise E(k)
    return _It(k)


def MI(k):                # first iterable of a statement-level comprehension
    trace.append(k)
    if nxt() == 3:
        raise E(k)
    return ()


class _CM:
    def __enter__(self):
        return self

    def __exit__(self, et, ev, tb):
        if et is not None and issubclass(et, E):
            return nxt() in (1, 2)       # swallow?
        return False


def W(k):                 # with item: creation may raise
    trace.append(k)
    if nxt() == 3:
        raise E(k)
    return _CM()


def H(k):                 # except H(k): evaluated when an exception looks for a handler; 1 = matches
    trace.append(k)
    return E if nxt() != 0 else _Never


def S(k):                 # match subject
    trace.append(k)
    if nxt() == 3:
        raise E(k)
    return 0


def G(k):                 # case guard: 1 = taken
    trace.append(k)
    return nxt() in (1, 2)


def B(k):                 # class base
    trace.append(k)
    if nxt() == 3:
        raise E(k)
    return object
