"""C11 — circular dependencies are exactly the non-trivial strongly connected components."""
import os
import re

import lib
from lib import clist

REQ = ("From Coq Require Import ZArith NArith List.\nImport ListNotations.\n"
       "From PV Require Import Deps.SccSpec Deps.Tarjan Deps.DepsRun.")
SEV = {"low": 1, "medium": 2, "high": 3, "critical": 4}
ERR = 999999999


# ----------------------------------------------------------------------------------------
# small graphs by bit mask: pair (a,b) is bit a*n+b
# ----------------------------------------------------------------------------------------
def mask_edges(n, mask):
    return [(a, b) for a in range(n) for b in range(n) if (mask >> (a * n + b)) & 1]


def label_code(n, comps):
    """comps: list of lists of vertex numbers (pairwise disjoint)."""
    lab = [0] * n
    for c in comps:
        m = min(c)
        for v in c:
            lab[v] = 1 + m
    code = 0
    for v in reversed(range(n)):
        code = lab[v] + (n + 1) * code
    return code


def decode_code(n, code):
    labs = []
    for _ in range(n):
        labs.append(code % (n + 1))
        code //= n + 1
    return [[v for v in range(n) if labs[v] == r + 1] for r in range(n) if any(labs[v] == r + 1 for v in range(n))]


def wellformed(names, cycles):
    """The reported cycles must be sets of >= 2 known modules, pairwise disjoint. Returns error text or None."""
    seen = set()
    for c in cycles:
        if len(c) < 2:
            return "a reported cycle has fewer than two modules: %s" % c
        if len(set(c)) != len(c):
            return "a reported cycle lists a module twice: %s" % c
        for m in c:
            if m not in names:
                return "a reported cycle contains %r which is not a module of the project" % m
            if m in seen:
                return "module %r is reported in two cycles" % m
            seen.add(m)
    return None


def size_severity(size, core=False):
    if core or size >= 10:
        return "critical"
    if size >= 6:
        return "high"
    if size >= 3:
        return "medium"
    return "low"


def small_graphs(ck, n, masks, contiguous_lo=None, tag=""):
    """Run implementation, spec, model and checker on graphs (n, mask). Returns number evaluated."""
    names = ["m%d" % i for i in range(n)]
    nameset = set(names)
    idx = {m: i for i, m in enumerate(names)}
    rows = []
    CH = 16384
    reqs = []
    for off in range(0, len(masks), CH):
        chunk = masks[off:off + CH]
        if contiguous_lo is not None:
            reqs.append({"op": "scc_masks", "n": n, "lo": chunk[0], "count": len(chunk)})
        else:
            reqs.append({"op": "scc_masks", "n": n, "masks": chunk})
    for r in lib.driver(reqs):
        if "error" in r:
            ck.violation("detector crashed on a small graph batch: %s" % r["error"], {"kind": "small", "n": n})
            return 0
        rows += r["rows"]
    codes = []
    bad = 0
    for mask, row in zip(masks, rows):
        err = wellformed(nameset, row["c"])
        if err is None:
            if row["t"][0] != len(row["c"]):
                err = "TotalCycles %d but %d cycles listed" % (row["t"][0], len(row["c"]))
            elif row["t"][1] != sum(len(c) for c in row["c"]):
                err = "TotalModulesInCycles %d but the listed cycles have %d modules" % (row["t"][1], sum(len(c) for c in row["c"]))
            else:
                for c, s in zip(row["c"], row["s"]):
                    if s != size_severity(len(c)):
                        err = "cycle of %d modules has severity %s, documented %s" % (len(c), s, size_severity(len(c)))
        if err:
            bad += 1
            if bad <= 2:
                ck.violation(err, {"kind": "small", "n": n, "mask": mask, "edges": mask_edges(n, mask), "impl": row}, independent=True)
            codes.append(ERR)
        else:
            codes.append(label_code(n, [[idx[m] for m in c] for c in row["c"]]))
    # spec / model / checker in Coq
    jobs = []
    SH = 4096 if contiguous_lo is not None else (3000 if len(masks) > 20000 else 750)
    for off in range(0, len(masks), SH):
        cm, cc = masks[off:off + SH], codes[off:off + SH]
        cc = [0 if c == ERR else c for c in cc]
        if contiguous_lo is not None:
            body = "Definition codes : list N := %s%%N.\nEval vm_compute in run_range %d %d%%N codes.\n" % (
                clist([str(c) for c in cc]), n, cm[0])
        else:
            body = "Definition cases : list (N * N) := %s%%N.\nEval vm_compute in run_masks %d cases.\n" % (
                clist(["(%d,%d)" % (m, c) for m, c in zip(cm, cc)]), n)
        jobs.append(("C11_small_%s%d_%d" % (tag, n, off), REQ, body))
    try:
        outs = lib.coq_eval_many(jobs, workers=16)
    except Exception as e:
        ck.broken_ties.append("model/spec evaluation failed on small graphs: %s" % str(e)[-600:])
        return len(masks)
    res = []
    for out in outs:
        v = lib.parse_coq_values(out)
        res += v[-1]
    if len(res) != len(masks):
        ck.broken_ties.append("small graphs: %d Coq rows for %d cases" % (len(res), len(masks)))
        return len(masks)
    nbad = ntie = 0
    for mask, code, row, (spec, model, chk) in zip(masks, codes, rows, res):
        if code == ERR:
            continue
        if code != spec or chk != 1:
            nbad += 1
            if nbad <= 3:
                ck.violation("reported cycles %s differ from the strongly connected components with >= 2 modules %s "
                             "(graph on %d modules, imports %s; proved checker says %s)"
                             % (row["c"], [["m%d" % v for v in c] for c in decode_code(n, spec)], n, mask_edges(n, mask),
                                "accept" if chk == 1 else "reject"),
                             {"kind": "small", "n": n, "mask": mask, "edges": mask_edges(n, mask), "impl": row,
                              "spec": decode_code(n, spec), "model": decode_code(n, model) if model < ERR else "error"}, independent=True)
        elif model != code:
            ntie += 1
            if ntie <= 2:
                ck.broken_ties.append("Tarjan model differs from the implementation on n=%d mask=%d: model code %d impl code %d"
                                      % (n, mask, model, code))
    ck.stats["small_nontrivial"] += sum(1 for c in codes if c not in (0, ERR))
    ck.stats["distinct_codes"].update((n, c) for c in codes)
    return len(masks)


# ----------------------------------------------------------------------------------------
# larger graphs
# ----------------------------------------------------------------------------------------
def planted_graph(rng, n):
    """Random digraph on n modules: planted cycles (nested, sharing structure), chains between them,
    cross edges into components that are still open during the search, self-imports, duplicates, external imports."""
    edges = []
    vs = list(range(n))
    rng.shuffle(vs)
    pos = 0
    groups = []
    while pos < n:
        k = rng.choice([1, 1, 1, 2, 2, 3, 3, 4, 5, 6, 7, 9, 10, 11, 14])
        g = vs[pos:pos + k]
        pos += k
        groups.append(g)
        if len(g) >= 2 and rng.random() < 0.8:
            for i in range(len(g)):
                edges.append((g[i], g[(i + 1) % len(g)]))
            # nested smaller cycles and chords
            for _ in range(rng.randint(0, len(g))):
                a, b = rng.choice(g), rng.choice(g)
                edges.append((a, b))
        elif len(g) >= 2:
            for i in range(len(g) - 1):  # a chain, no cycle
                edges.append((g[i], g[i + 1]))
    # edges between groups: mostly forward (acyclic between groups), sometimes backward (merges components)
    for _ in range(rng.randint(0, 2 * len(groups))):
        i, j = rng.randrange(len(groups)), rng.randrange(len(groups))
        if i > j and rng.random() < 0.85:
            i, j = j, i
        edges.append((rng.choice(groups[i]), rng.choice(groups[j])))
    for _ in range(rng.randint(0, 3)):
        v = rng.randrange(n)
        edges.append((v, v))  # self-import
    for _ in range(rng.randint(0, 3)):
        edges.append((rng.randrange(n), 1000 + rng.randrange(5)))  # import of something outside the project
    if edges and rng.random() < 0.5:
        edges += [rng.choice(edges) for _ in range(3)]  # duplicates
    rng.shuffle(edges)
    return n, edges


def uniform_graph(rng, n):
    p = rng.choice([0.5, 1.0, 1.5, 2.5]) / max(1, n)
    return n, [(a, b) for a in range(n) for b in range(n) if rng.random() < p]


def boundary_graphs():
    """One cycle of every size around the severity thresholds; a 2-cycle whose member has fan-in 10 / 11."""
    out = []
    for k in (2, 3, 5, 6, 9, 10, 11, 12):
        out.append((k + 2, [(i, (i + 1) % k) for i in range(k)] + [(k, 0), (1, k + 1)]))
    for fan in (9, 10, 11, 12):
        n = fan + 3
        e = [(0, 1), (1, 0)] + [(2 + i, 0) for i in range(fan - 1)]  # fan-in of 0 is (fan-1)+1 = fan
        out.append((n, e))
    # two disjoint cycles + nested cycle inside a bigger one
    out.append((8, [(0, 1), (1, 0), (2, 3), (3, 4), (4, 2), (5, 6), (6, 7)]))
    out.append((6, [(0, 1), (1, 2), (2, 3), (3, 4), (4, 5), (5, 0), (2, 1), (4, 3)]))
    # cross edge into an open component: 0->1->2->0, 0->3->2
    out.append((4, [(0, 1), (1, 2), (2, 0), (0, 3), (3, 2)]))
    # the classic counterexample for "lowlink via lowlink": 0->1,1->2,2->1? plus back edges
    out.append((5, [(0, 1), (1, 2), (2, 0), (1, 3), (3, 4), (4, 3), (4, 1)]))
    out.append((0, []))
    out.append((1, [(0, 0)]))
    return out


def name_table(rng, n, scramble):
    names = ["m%03d" % i for i in range(n)]
    if scramble:
        alt = ["pkg%d.mod_%s" % (i % 3, "abcdefghij"[i % 10] * (1 + i // 10)) + str(rng.randrange(100)) + "_%d" % i for i in range(n)]
        names = alt
    return names


def coq_graph(n, edges):
    return "(Build_digraph %s%%N %s%%N)" % (clist([str(i) for i in range(n)]), clist(["(%d,%d)" % e for e in edges]))


def big_graphs(ck, graphs, e2e_results=None):
    """graphs: list of dict(kind, n, edges, names). e2e entries carry 'impl' already."""
    reqs, owners = [], []
    for gi, g in enumerate(graphs):
        if "impl" in g:
            continue
        nm = g["names"]
        reqs.append({"op": "scc", "modules": nm, "reps": 3,
                     "edges": [[nm[a] if a < 1000 else "ext%d" % a, nm[b] if b < 1000 else "ext%d" % b] for a, b in g["edges"]]})
        owners.append(gi)
    for gi, r in zip(owners, lib.driver(reqs) if reqs else []):
        g = graphs[gi]
        if "error" in r:
            ck.violation("detector crashed: %s" % r["error"], {"kind": g["kind"], "modules": g["names"], "edges": g["edges"]})
            g["impl"] = None
            continue
        g["impl"] = r["runs"]
    # well-formedness + encode for the checker
    jobs, jobmap = [], []
    SH = 12
    todo = [gi for gi, g in enumerate(graphs) if g.get("impl")]
    for off in range(0, len(todo), SH):
        items = []
        for gi in todo[off:off + SH]:
            g = graphs[gi]
            idx = {m: i for i, m in enumerate(g["names"])}
            run0 = g["impl"][0]
            cyc = [c["modules"] for c in run0["cycles"]]
            err = wellformed(set(g["names"]), cyc)
            g["wf_err"] = err
            out = [] if err else [[idx[m] for m in c] for c in cyc]
            g["impl_codes"] = out
            items.append("run_graph %s %s%%N" % (coq_graph(g["n"], g["edges"]), clist([clist([str(v) for v in c]) for c in out])))
        jobs.append(("C11_big_%d" % off, REQ, "".join("Eval vm_compute in %s.\n" % it for it in items)))
        jobmap.append(todo[off:off + SH])
    try:
        outs = lib.coq_eval_many(jobs, workers=16)
    except Exception as e:
        ck.broken_ties.append("model/spec evaluation failed on larger graphs: %s" % str(e)[-600:])
        return 0
    nviol = ntie = 0
    for out, gis in zip(outs, jobmap):
        vals = lib.parse_coq_values(out)
        if len(vals) != len(gis):
            ck.broken_ties.append("larger graphs: %d Coq values for %d cases" % (len(vals), len(gis)))
            continue
        for gi, val in zip(gis, vals):
            g = graphs[gi]
            nm = g["names"]
            spec_rows, (scount, smods), models, chk = val
            spec = {frozenset(nm[v] for v in c): sev for c, sev in spec_rows}
            replay = {"kind": g["kind"], "modules": nm, "edges": [[a, b] for a, b in g["edges"]],
                      "spec_cycles": [sorted(c) for c in spec]}
            replay.update({key: g[key] for key in ("dir", "layout", "files") if key in g})
            if any(len(c) >= 2 for c, _ in spec_rows):
                ck.stats["big_nontrivial"] += 1
            ck.stats["max_cycle"] = max([ck.stats["max_cycle"]] + [len(c) for c, _ in spec_rows])
            for sev in spec.values():
                ck.stats["sev_seen"].add(sev)
            problems = []
            if g["wf_err"]:
                problems.append(g["wf_err"])
            for run in g["impl"]:
                cyc = {frozenset(c["modules"]): c for c in run["cycles"]}
                if len(cyc) != len(run["cycles"]):
                    problems.append("the same cycle is reported twice")
                if set(cyc) != set(spec):
                    extra = [sorted(c) for c in set(cyc) - set(spec)]
                    missing = [sorted(c) for c in set(spec) - set(cyc)]
                    problems.append("reported cycles are not the strongly connected components with >= 2 modules: "
                                    "reported but not a component %s, component not reported %s" % (extra[:3], missing[:3]))
                else:
                    for c, info in cyc.items():
                        if info["size"] != len(c):
                            problems.append("cycle %s has Size %d" % (sorted(c), info["size"]))
                        if SEV.get(info["severity"]) != spec[c]:
                            problems.append("cycle of %d modules has severity %s, documented table gives code %d (1 low .. 4 critical)"
                                            % (len(c), info["severity"], spec[c]))
                if run["total_cycles"] != scount:
                    problems.append("TotalCycles %d, the graph has %d non-trivial components" % (run["total_cycles"], scount))
                if run["total_modules"] != smods:
                    problems.append("TotalModulesInCycles %d, the components have %d modules" % (run["total_modules"], smods))
                if run["has"] != (scount > 0) or (g["kind"] != "e2e" and run["has_quick"] != (scount > 0)):
                    problems.append("HasCircularDependencies %s with %d components" % (run["has"], scount))
                if g["kind"] != "e2e":
                    if run["low"] + run["medium"] + run["high"] + run["critical"] != scount:
                        problems.append("severity counters do not add up to the cycle count")
                    want = [sum(1 for s in spec.values() if s == k) for k in (1, 2, 3, 4)]
                    if [run["low"], run["medium"], run["high"], run["critical"]] != want and set(cyc) == set(spec):
                        problems.append("severity counters %s, expected %s" % ([run["low"], run["medium"], run["high"], run["critical"]], want))
                    if run["largest"] != max([0] + [len(c) for c in spec]):
                        problems.append("largest cycle size %d, expected %d" % (run["largest"], max([0] + [len(c) for c in spec])))
                    if {frozenset(x) for x in (run["groups"] or [])} != set(cyc):
                        problems.append("graph.CyclicGroups differs from the reported cycles")
                    if run.get("core"):
                        problems.append("CoreInfrastructure %s: no module can lie in two strongly connected components" % run["core"])
                    # Dependencies of a cycle: one chain per import between two of its modules (findDependencyChains)
                    inner = {}
                    for a, b in {(a, b) for a, b in g["edges"] if a < 1000 and b < 1000 and a != b}:
                        for c in cyc:
                            if nm[a] in c and nm[b] in c:
                                inner[c] = inner.get(c, 0) + 1
                    for c, info in cyc.items():
                        if set(cyc) == set(spec) and info.get("chains") != inner.get(c, 0):
                            problems.append("cycle %s lists %s dependency chains, it has %d imports between its modules"
                                            % (sorted(c), info.get("chains"), inner.get(c, 0)))
            if not problems and chk is not True:
                problems.append("the proved checker check_sccs rejects the reported cycles")
            if problems:
                nviol += 1
                if nviol <= 3:
                    replay["impl"] = g["impl"]
                    ent = ck.match_known({"kind": g["kind"]})
                    if ent:
                        ck.known_finding(ent)
                    else:
                        ck.violation("; ".join(problems[:4]), replay, independent=True)
                continue
            # tie: implementation vs code model (every order of the model gives the same sets / statistics)
            if g["kind"] == "e2e":
                continue
            run = g["impl"][0]
            isets = sorted((sorted(nm.index(m) for m in c["modules"]), c["size"], SEV[c["severity"]]) for c in run["cycles"])
            istats = [1 if run["has"] else 0, run["total_cycles"], run["total_modules"], run["low"], run["medium"], run["high"],
                      run["critical"], run["largest"]]
            for k, mv in enumerate(models):
                if mv is None:
                    ntie += 1
                    ck.broken_ties.append("Tarjan model ran out of fuel / would panic on %s (order %d)" % (replay["edges"][:40], k))
                    break
                mc, ms = mv[1]
                msets = sorted((sorted(c[0]), c[1], c[2]) for c in mc)
                if msets != isets or list(ms) != istats:
                    ntie += 1
                    if ntie <= 2:
                        ck.broken_ties.append("code model differs from the implementation (order %d): model %s %s, impl %s %s on modules %d edges %s"
                                              % (k, msets[:6], ms, isets[:6], istats, g["n"], replay["edges"][:60]))
                    break
    return len(todo)


# ----------------------------------------------------------------------------------------
# end to end: generated Python projects through the command line
# ----------------------------------------------------------------------------------------
S_FIRST = "Consider introducing interfaces or abstract base classes to invert dependencies"
S_LAST = ["Review your architecture to ensure proper layer separation (e.g., presentation \u2192 application \u2192 domain \u2192 infrastructure)",
          "Consider using event-driven patterns to decouple tightly coupled modules"]


def expected_suggestions(cycles):
    """generateCycleBreakingSuggestions (system_analysis_service.go): a general hint, one line for each of the first three
    cycles with at most four modules, two closing hints; nothing without cycles"""
    if not cycles:
        return []
    out = [S_FIRST]
    for c in cycles[:3]:
        if c["size"] == 2:
            out.append("Break cycle between %s and %s by introducing a third module or using dependency injection" % tuple(c["full"]))
        elif c["size"] <= 4:
            out.append("Cycle involving [%s] - identify the least coupled module and extract its dependencies" % " ".join(c["full"]))
    return out + S_LAST


def cli_project(ck, d, n, edges, names, k, replay_extra=None):
    """One generated project in directory d through the command line; `names` are the module names the report must use
    (compared after `short`: a project without marker file gets the directory name as prefix).  Returns the graph entry for
    big_graphs (spec: strongly connected components of `edges`), None if no report came back."""
    rx = dict({"kind": "e2e", "dir": d, "edges": edges}, **(replay_extra or {}))
    rc, data, err = lib.analyze_json(d, ["--select", "deps"])
    if data is None:
        ck.broken_ties.append("e2e: pyscn analyze --select deps produced no report (rc=%s): %s" % (rc, err[-300:]))
        return None
    try:
        da = data["system"]["DependencyAnalysis"]
        cd = da["CircularDependencies"] or {}
        total = da["TotalModules"]
    except Exception as e:
        ck.broken_ties.append("e2e: unexpected report shape: %s" % e)
        return None
    if total != n:
        ck.broken_ties.append("e2e: %d modules generated, report has TotalModules=%s" % (n, total))
        return None
    known = set(names)

    def short(m):
        while m not in known and "." in m:
            m = m.split(".", 1)[1]
        return m
    cycles = [{"modules": [short(m) for m in c["Modules"]], "size": c["Size"], "severity": c["Severity"], "full": c["Modules"]}
              for c in (cd.get("CircularDependencies") or [])]
    sugg = cd.get("CycleBreakingSuggestions") or []
    if sugg != expected_suggestions(cycles):
        ck.violation("CycleBreakingSuggestions %s do not follow from the reported cycles (expected %s)" % (sugg, expected_suggestions(cycles)), rx)
    if cd.get("CoreInfrastructure"):
        ck.violation("CoreInfrastructure %s: no module can lie in two cycles" % cd.get("CoreInfrastructure"), rx)
    rank = {"critical": 4, "high": 3, "medium": 2, "low": 1}
    keys = [(-rank.get(c["severity"], 0), -c["size"], c["full"][0] if c["full"] else "") for c in cycles]
    if keys != sorted(keys):
        ck.violation("cycles are not listed by severity, size and first module: %s" % [(c["severity"], c["size"], c["full"][:1]) for c in cycles], rx)
    run = {"cycles": cycles, "total_cycles": cd.get("TotalCycles", 0), "total_modules": cd.get("TotalModulesInCycles", 0),
           "has": cd.get("HasCircularDependencies", False)}
    summ = data.get("summary", {})
    if summ.get("deps_modules_in_cycles") != run["total_modules"]:
        ck.violation("summary.deps_modules_in_cycles %s differs from TotalModulesInCycles %s"
                     % (summ.get("deps_modules_in_cycles"), run["total_modules"]), rx, independent=True)
    # `pyscn check --select deps`: one line per cycle
    rc2, out2, err2 = lib.pyscn(["check", "--select", "deps", "."], d)
    lines = re.findall(r"circular dependency detected: (.*)", out2 + err2)
    chk_cycles = sorted(sorted(short(x.strip()) for x in l.split("->")) for l in lines)
    if chk_cycles != sorted(sorted(c["modules"]) for c in cycles):
        ck.violation("`pyscn check --select deps` lists cycles %s, `pyscn analyze` lists %s" % (chk_cycles, sorted(sorted(c["modules"]) for c in cycles)), rx, independent=True)
    if (rc2 != 0) != (len(cycles) > 0):
        ck.violation("`pyscn check --select deps` exit code %d with %d cycles" % (rc2, len(cycles)), rx, independent=True)
    # --max-cycles: the check fails iff there are more cycles than allowed; --allow-circular-deps never fails
    if cycles and (k < 4 or k % 3 == 0):
        nc = len(cycles)
        for limit in (nc - 1, nc, nc + 1):
            rc3, out3, err3 = lib.pyscn(["check", "--select", "deps", "--max-cycles", str(limit), "."], d)
            if (rc3 != 0) != (nc > limit):
                ck.violation("`pyscn check --select deps --max-cycles %d` exit code %d with %d cycles" % (limit, rc3, nc), rx, independent=True)
        rc4, out4, err4 = lib.pyscn(["check", "--select", "deps", "--allow-circular-deps", "."], d)
        if rc4 != 0:
            ck.violation("`pyscn check --select deps --allow-circular-deps` exit code %d" % rc4, rx, independent=True)
    # the dependency part of a full `pyscn analyze` is the one of `--select deps`
    if k in (1, 2):
        rcf, full, errf = lib.analyze_json(d, [])
        cdf = (((full or {}).get("system") or {}).get("DependencyAnalysis") or {}).get("CircularDependencies") if full else None
        if cdf != cd and not (not cdf and not cd):
            ck.violation("CircularDependencies of a full `pyscn analyze --json` differ from `--select deps`",
                         dict(rx, full=cdf, select_deps=cd), independent=True)
    return dict({"kind": "e2e", "n": n, "edges": edges, "names": names, "impl": [run], "dir": d}, **(replay_extra or {}))


def e2e_projects(ck, rng, count):
    graphs = []
    for k in range(count):
        n = rng.choice([3, 4, 5, 6, 8, 12])
        if k == 0:
            n, edges = 13, [(i, (i + 1) % 10) for i in range(10)] + [(10, 11), (11, 10), (12, 0), (3, 3)]
        elif k == 1:
            # five separate cycles of 2, 2, 3, 4 and 5 modules: more cycles than the suggestions go into
            n, edges, pos = 17, [(16, 0)], 0
            for size in (2, 2, 3, 4, 5):
                edges += [(pos + i, pos + (i + 1) % size) for i in range(size)]
                pos += size
        elif k % 2:
            n, edges = planted_graph(rng, n)
        else:
            n, edges = uniform_graph(rng, n)
        edges = [(a, b) for a, b in edges]
        names = ["mod%02d" % i for i in range(n)]
        d = lib.fresh_dir("c11_e2e_%d" % k)
        for i in range(n):
            lines = []
            for j, (a, b) in enumerate(edges):
                if a != i:
                    continue
                tgt = names[b] if b < 1000 else "extlib%d" % b
                lines.append("import %s" % tgt if (i + j) % 2 == 0 else "from %s import value" % tgt)
            lines.append("value = %d" % i)
            with open(os.path.join(d, names[i] + ".py"), "w") as f:
                f.write("\n".join(lines) + "\n")
        g = cli_project(ck, d, n, edges, names, k)
        if g:
            graphs.append(g)
    return graphs


# names that are string prefixes of one another without one module lying below the other
PFX_STEMS = ["core", "api", "app", "data", "db"]
PFX_TAILS = ["_utils", "lib", "2", "s", "_client", "x"]


def prefix_layout(rng):
    """Module names and files: package S (S/__init__.py) with the submodule S.engine, next to it the plain modules S<t1>.py and
    S<t3>.py, the package S<t2>/ with S<t2>.x, the module named by S without its last letter; one level down the package S.net/
    with S.net.v1 next to the module S.net_client.py and the package S.netx/; two unrelated controls (package ctl/, module side.py)."""
    S = rng.choice(PFX_STEMS)
    t1, t2, t3 = rng.sample(PFX_TAILS, 3)
    inner = rng.choice(["net", "rpc", "web"])
    mods = [((S,), True), ((S, "engine"), False), ((S + t1,), False), ((S + t2,), True), ((S + t2, "x"), False), ((S + t3,), False),
            ((S[:-1],), False), ((S, inner), True), ((S, inner, "v1"), False), ((S, inner + "_client"), False), ((S, inner + "x"), True),
            (("ctl",), True), (("side",), False)]
    return mods


def forest_partition(pairs):
    """split the pairs into groups in which they form a forest (union-find, first fit): in the graph that has the two imports
    a -> b and b -> a for every pair of a group, every import is a bridge of its strongly connected component"""
    groups = []
    for a, b in pairs:
        for g in groups:
            ra, rb = g["find"](a), g["find"](b)
            if ra != rb:
                g["parent"][ra] = rb
                g["pairs"].append((a, b))
                break
        else:
            parent = {}

            def find(x, parent=parent):
                while parent.setdefault(x, x) != x:
                    x = parent[x]
                return x
            parent[find(a)] = find(b)
            groups.append({"parent": parent, "find": find, "pairs": [(a, b)]})
    return [g["pairs"] for g in groups]


def prefix_named_projects(ck, rng, count):
    """Projects whose import graph runs over prefix-related module names, written the way Python defines the graph:
    module a imports module b iff a's file (the __init__.py for a package) contains `import b` / `from b import value`
    (absolute, from the project root; every file defines `value`).  An __init__.py never imports a module below its own
    package (pyscn leaves those edges out on purpose, C12 F32) and reaches other modules by `import b` only (a from-import
    in an __init__ re-exports the name, C12 F34).
    Graphs: (1) systematic — for every pair (a, b) of modules whose names are related as strings (a's name a proper string
    prefix of b's) and not as package/submodule, the imports a -> b and b -> a; the pairs are spread over as few projects as
    keep every such import a bridge of its component (losing any single one changes the components), next to a control cycle;
    (2) random — rings a -> b -> v1 .. vk -> a through a related pair in a random direction on disjoint module sets, sparse
    acyclic imports between the rest; (3) a planted random graph with all related imports added."""
    graphs = []
    layout = prefix_layout(rng)
    names = [".".join(p) for p, _ in layout]
    n = len(names)

    def below(a, b):           # b lies below package a
        return layout[a][1] and layout[b][0][:len(layout[a][0])] == layout[a][0] and a != b

    related = [(a, b) for a in range(n) for b in range(n)
               if a != b and names[b].startswith(names[a]) and not below(a, b)]
    ctl = (names.index("ctl"), names.index("side"))
    plans = []
    for pairs in forest_partition(related):
        plans.append(("two-cycles", [(a, b) for a, b in pairs] + [(b, a) for a, b in pairs] + [ctl, ctl[::-1]]))
    k = 0
    while len(plans) < count:
        k += 1
        if k % 4 == 0:
            _, edges = planted_graph(rng, n)
            plans.append(("planted+related", edges + related + [(b, a) for a, b in related if rng.random() < 0.5]))
            continue
        free = list(range(n))
        rng.shuffle(free)
        edges = []
        for _ in range(rng.choice([1, 2, 3])):
            cand = [(a, b) for a, b in related if a in free and b in free]
            if not cand:
                break
            a, b = rng.choice(cand)
            if rng.random() < 0.5:
                a, b = b, a
            free.remove(a)
            free.remove(b)
            ring = [a, b] + [free.pop() for _ in range(min(len(free), rng.choice([0, 0, 1, 2, 3])))]
            edges += [(ring[i], ring[(i + 1) % len(ring)]) for i in range(len(ring))]
        order = list(range(n))
        rng.shuffle(order)
        for _ in range(rng.randint(0, 6)):                       # acyclic extras: along a fixed order, leaving the rings alone
            i, j = sorted(rng.sample(range(n), 2))
            if order[i] in free and order[j] in free:
                edges.append((order[i], order[j]))
        edges.append((rng.randrange(n), 1000 + rng.randrange(5)))
        plans.append(("rings", edges))
    for k, (plan, edges) in enumerate(plans):
        edges = [(a, b) for a, b in edges if a >= 1000 or b >= 1000 or not (below(a, b) and layout[a][1])]
        d = lib.fresh_dir("c11_e2e_pfx_%d" % k)
        open(os.path.join(d, "requirements.txt"), "w").close()
        files = {}
        for i, (p, is_pkg) in enumerate(layout):
            lines = []
            for j, (a, b) in enumerate(edges):
                if a != i:
                    continue
                tgt = names[b] if b < 1000 else "extlib%d" % b
                lines.append("import %s" % tgt if (is_pkg or (i + j) % 2 == 0) else "from %s import value" % tgt)
            lines.append("value = %d" % i)
            rel = os.path.join(*p, "__init__.py") if is_pkg else os.path.join(*p[:-1], p[-1] + ".py")
            os.makedirs(os.path.dirname(os.path.join(d, rel)), exist_ok=True)
            files[rel] = "\n".join(lines) + "\n"
            with open(os.path.join(d, rel), "w") as f:
                f.write(files[rel])
        g = cli_project(ck, d, n, edges, names, k + 3, {"layout": "prefix-related names: " + plan, "files": files})
        if g:
            graphs.append(g)
    return graphs


# ----------------------------------------------------------------------------------------
# end to end: module NAMES — the graph must not depend on what a project module is called
# ----------------------------------------------------------------------------------------
# Python's own importer, without executing anything: the finders of a fresh interpreter (built-in, frozen, then the path
# finder with the project root first on sys.path, the way `python root/script.py` sets it up) decide which file a dotted name
# denotes; the statements come from `ast`.  Prints the modules Python can import from the project and the imports between them.
NAME_ORACLE = r'''
import sys, os, ast, json
import importlib.machinery as M
root = os.path.realpath(sys.argv[1])
search = [root] + [p for p in sys.path if p]

def find(name, path):
    if path is None:
        for f in (M.BuiltinImporter, M.FrozenImporter):
            s = f.find_spec(name)
            if s:
                return s
        return M.PathFinder.find_spec(name, search)
    return M.PathFinder.find_spec(name, path)

def origin(dotted):
    """the project file Python loads for `import dotted`, None if the name denotes nothing in the project"""
    parts, path, spec = dotted.split("."), None, None
    for i in range(len(parts)):
        spec = find(".".join(parts[:i + 1]), path)
        if spec is None:
            return None
        path = spec.submodule_search_locations
        if path is None and i < len(parts) - 1:
            return None
    o = spec.origin
    if not o or o in ("built-in", "frozen"):
        return None
    o = os.path.realpath(o)
    return o if o.startswith(root + os.sep) else None

files = {}
for dp, dns, fns in os.walk(root):
    dns[:] = sorted(d for d in dns if not d.startswith("."))
    for fn in sorted(fns):
        if fn.endswith(".py"):
            full = os.path.realpath(os.path.join(dp, fn))
            rel = os.path.relpath(full, root)[:-3].split(os.sep)
            pkg = rel[-1] == "__init__"
            files[full] = (".".join(rel[:-1] if pkg else rel), pkg)
live = {f: nm for f, nm in files.items() if nm[0] and origin(nm[0]) == f}
dead = sorted(os.path.relpath(f, root) for f in files if f not in live)
trees = {f: ast.parse(open(f).read()) for f in live}

def bound(f):
    """names the module's own top-level code binds"""
    out = set()
    for s in trees[f].body:
        if isinstance(s, ast.Assign):
            out |= {t.id for t in s.targets if isinstance(t, ast.Name)}
        elif isinstance(s, (ast.FunctionDef, ast.ClassDef)):
            out.add(s.name)
        elif isinstance(s, (ast.Import, ast.ImportFrom)):
            out |= {(a.asname or a.name).split(".")[0] for a in s.names}
    return out

edges = set()
for f, (name, pkg) in live.items():
    for s in ast.walk(trees[f]):
        targets = []
        if isinstance(s, ast.Import):
            targets = [a.name for a in s.names]
        elif isinstance(s, ast.ImportFrom):
            base = s.module or ""
            if s.level:
                here = name.split(".") if pkg else name.split(".")[:-1]
                if s.level - 1 > len(here) or not here:
                    continue
                here = here[:len(here) - (s.level - 1)]
                base = ".".join(here + ([s.module] if s.module else []))
            bf = origin(base)
            for a in s.names:
                if a.name != "*" and not (bf in live and a.name in bound(bf)) and origin(base + "." + a.name):
                    targets.append(base + "." + a.name)
                else:
                    targets.append(base)
        for t in targets:
            o = origin(t)
            if o in live:
                edges.add((name, live[o][0]))
json.dump({"modules": sorted(nm for nm, _ in live.values()), "dead": dead, "edges": sorted(edges)}, sys.stdout)
'''

THIRD_PARTY_NAMES = ["numpy", "requests", "yaml", "django", "flask", "six", "attr", "pytest", "setuptools", "pkg_resources",
                     "typing_extensions", "click"]
UNDERSCORE_NAMES = ["_private", "__about__", "__version__", "_", "__", "_compat", "__helpers__", "_json", "_1", "__x", "x__", "_a_"]
ORDINARY_NAMES = ["app", "store", "views", "models", "service", "handlers", "tasks", "schema"]
GENUINE_STDLIB = ["import os", "import sys", "from collections import OrderedDict", "import os.path", "from typing import List",
                  "import json.decoder", "from email import message", "import xml.dom.minidom as md", "import logging.handlers"]


def read_stdlib_table():
    """the names isStandardLibrary (internal/analyzer/module_analyzer.go) takes for the standard library, from the source"""
    src = open(os.path.join(lib.REPO, "internal", "analyzer", "module_analyzer.go")).read()
    m = re.search(r"func \(ma \*ModuleAnalyzer\) isStandardLibrary.*?map\[string\]bool\{(.*?)\}", src, re.S)
    return re.findall(r'"([A-Za-z0-9_]+)"\s*:\s*true', m.group(1)) if m else []


def python_never_loads(name):
    """a top-level project module of that name can never be imported: the built-in and the frozen importer come before sys.path"""
    import sys
    import importlib.machinery as M
    return name in sys.builtin_module_names or M.FrozenImporter.find_spec(name) is not None or name == "__main__"


def name_oracle(d):
    import subprocess
    import sys
    import json
    p = subprocess.run([sys.executable, "-I", "-S", "-c", NAME_ORACLE, d], stdout=subprocess.PIPE, stderr=subprocess.PIPE, text=True,
                       timeout=120, cwd="/")
    if p.returncode != 0:
        raise RuntimeError("python importer oracle failed: " + p.stderr[-500:])
    return json.loads(p.stdout)


def import_forms(A, a_pkg, B):
    """every way module A (path tuple; a_pkg: it is an __init__.py) can import module B so that Python's graph has exactly the
    import A -> B: (form name, statement).  An __init__.py uses `import B` only (a from-import there re-exports a name, C12 F34)."""
    dotted = ".".join(B)
    forms = [("import", "import %s" % dotted), ("import-as", "import %s as alias_%d" % (dotted, len(dotted)))]
    if a_pkg:
        return forms[:1]
    forms.append(("from-value", "from %s import value" % dotted))
    if len(B) >= 2:
        forms.append(("from-parent", "from %s import %s" % (".".join(B[:-1]), B[-1])))
    here = A[:-1]
    common = 0
    while common < len(here) and common < len(B) and here[common] == B[common]:
        common += 1
    if common >= 1:
        dots = "." * (len(here) - common + 1)
        rest = B[common:]
        if not rest:
            forms.append(("relative-package-value", "from %s import value" % dots))
        else:
            forms.append(("relative-value", "from %s%s import value" % (dots, ".".join(rest))))
            forms.append(("relative-module", "from %s%s import %s" % (dots, ".".join(rest[:-1]), rest[-1])))
    return forms


def names_layouts(rng, stdlib, count):
    """Layouts [(family, [(path, is_pkg, special)], shadowed files)] — `special` marks the modules whose NAME is the point.
    Component names are unique within a layout (no module of one directory is called like a module of the directory above or
    of the root: that is the implicit relative import of C12 F31).  The stdlib table is dealt out over the stdlib families so
    that every name of it (that Python can load from a project at all) is a project module in every run."""
    table = [s for s in stdlib if not python_never_loads(s)]
    rng.shuffle(table)
    deal = {"i": 0}

    def std(k):
        out = [table[(deal["i"] + j) % len(table)] for j in range(k)]
        deal["i"] += k
        return out
    ordinary = lambda k: rng.sample(ORDINARY_NAMES, k)
    layouts = []
    n_std_top = max(2, -(-len(table) // 8))          # enough projects of the first family to go through the whole table
    fams = ["stdlib-top"] * n_std_top + ["stdlib-nested", "stdlib-affix", "third-party", "underscore", "file-next-to-package"]
    while len(fams) < count:
        fams.append(rng.choice(fams[:]))
    for fam in fams:
        mods, shadow = [], []
        o = ordinary(4)
        if fam == "stdlib-top":
            s = std(8)
            # plain modules, packages with an ordinary submodule, a package with a stdlib-named submodule
            mods = [((s[0],), False, True), ((s[1],), False, True), ((s[2],), False, True), ((s[3],), False, True), ((s[4],), False, True),
                    ((s[5],), True, True), ((s[5], "render"), False, True), ((s[5], "model"), False, True), ((s[6],), True, True),
                    ((s[6], "inner"), True, True), ((s[6], "inner", "leaf"), False, True), ((s[6], "outer"), False, True),
                    ((s[7],), True, True), ((s[7], "codec"), False, True),
                    ((o[0],), False, False), ((o[1],), False, False), ((o[2],), True, False), ((o[2], "util"), False, False)]
        elif fam == "stdlib-nested":
            s = std(7)
            mods = [((o[0],), True, False), ((o[0], s[0]), False, True), ((o[0], s[1]), False, True), ((o[0], s[2]), True, True),
                    ((o[0], s[2], "part"), False, True), ((o[0], "sub"), True, False), ((o[0], "sub", s[3]), False, True),
                    ((o[0], "sub", s[5]), False, True), ((o[0], s[6]), False, True),
                    ((o[0], "sub", "plain"), False, False), ((o[0], "peer"), False, False), ((o[1],), False, False),
                    ((o[2],), False, False), ((s[4],), False, True)]
        elif fam == "stdlib-affix":
            s = std(3)
            for x in s:
                tails = rng.sample(["x", "_utils", "2", "s", "lib", "_"], 2)
                mods += [((x,), False, True), ((x + tails[0],), False, True), ((x + tails[1],), True, True),
                         ((x + tails[1], "part"), False, True), ((rng.choice(["my", "py", "_", "a"]) + x,), False, True)]
                if len(x) > 2 and not python_never_loads(x[:-1]):
                    mods.append(((x[:-1],), False, True))
                mods.append(((x.upper() if rng.random() < 0.5 else x.capitalize(),), False, True))
            mods += [((o[0],), False, False), ((o[1],), False, False)]
        elif fam == "third-party":
            t = rng.sample(THIRD_PARTY_NAMES, 6)
            mods = [((t[0],), False, True), ((t[1],), False, True), ((t[2],), True, True), ((t[2], "core"), False, True),
                    ((t[3],), True, True), ((t[3], t[4]), False, True), ((o[0],), True, False), ((o[0], t[5]), False, True),
                    ((o[1],), False, False), ((o[2],), False, False)]
        elif fam == "underscore":
            u = rng.sample(UNDERSCORE_NAMES, 7)
            mods = [((u[0],), False, True), ((u[1],), False, True), ((u[2],), True, True), ((u[2], "impl"), False, True),
                    ((o[0],), True, False), ((o[0], u[3]), False, True), ((o[0], "__main__"), False, True), ((o[0], u[4]), True, True),
                    ((o[0], u[4], u[5]), False, True), ((u[6],), False, True), ((o[1],), False, False), ((o[2],), False, False)]
        else:
            # m.py next to m/__init__.py: Python loads the package, the file is never imported (its imports count for nothing)
            s = std(2)
            a, b = s[0], o[3]
            mods = [((a,), True, True), ((a, "part"), False, True), ((b,), True, True), ((b, "part"), False, True),
                    ((o[0],), True, False), ((o[0], "dup"), True, True), ((o[0], "dup", "leaf"), False, True),
                    ((o[1],), False, False), ((o[2],), False, False), ((s[1],), False, True)]
            shadow = [(a,), (b,), (o[0], "dup")]
        seen, keep = set(), []
        for p, is_pkg, sp in mods:                    # a derived name Python cannot load from a project (_io, _functools ..) or a repeat
            if p in seen or python_never_loads(p[0]) or (len(p) > 1 and p[:-1] not in seen):
                continue
            seen.add(p)
            keep.append((p, is_pkg, sp))
        layouts.append((fam, keep, [p for p in shadow if p in seen]))
    return layouts


def component_of(n, edges, v):
    """the strongly connected component of v, by reachability in both directions"""
    def reach(pairs):
        seen, todo = {v}, [v]
        while todo:
            x = todo.pop()
            for a, b in pairs:
                if a == x and b not in seen:
                    seen.add(b)
                    todo.append(b)
        return seen
    return reach(edges) & reach([(b, a) for a, b in edges])


def names_plan(rng, mods, big):
    """Imports (a, b): the modules are dealt into rings a0 -> a1 -> .. -> a0, every ring goes through a specially named module
    and every import of a ring is a bridge of its component (losing a single one takes modules out of the cycle); acyclic
    imports between the rings and the remaining modules; no import from an __init__.py to a module below it (C12 F32)."""
    n = len(mods)

    def below(a, b):
        return mods[a][1] and a != b and mods[b][0][:len(mods[a][0])] == mods[a][0]
    special = [i for i in range(n) if mods[i][2]]
    plain = [i for i in range(n) if not mods[i][2]]
    rng.shuffle(special)
    rng.shuffle(plain)
    if rng.random() < 0.6:                            # rings inside one top-level package: its modules can import each other relatively
        key = {t: rng.random() for t in {mods[i][0][0] for i in special}}
        special.sort(key=lambda i: (key[mods[i][0][0]], rng.random()))
    rings = []
    while special:
        k = min(len(special), rng.choice([1, 1, 2, 2, 3]))
        ring = [special.pop() for _ in range(k)]
        while plain and len(ring) < 2 or (plain and rng.random() < 0.3):
            ring.append(plain.pop())
        if len(ring) < 2:
            if rings:
                rings[-1] += ring
            continue
        rings.append(ring)
    if big and len(rings) >= 3:                       # one component of >= 6 modules: join rings into one ring
        while len(rings) >= 2 and len(rings[0]) < 6:
            rings[0] += rings.pop()
    edges = []
    for ring in rings:
        for _ in range(20):                           # an order in which no __init__ imports a module below it
            rng.shuffle(ring)
            if not any(below(ring[i], ring[(i + 1) % len(ring)]) for i in range(len(ring))):
                break
        edges += [(ring[i], ring[(i + 1) % len(ring)]) for i in range(len(ring))]
    groups = rings + [[p] for p in plain]
    rng.shuffle(groups)
    for _ in range(rng.randint(2, 6)):
        i, j = sorted(rng.sample(range(len(groups)), 2)) if len(groups) >= 2 else (0, 0)
        if i != j:
            edges.append((rng.choice(groups[i]), rng.choice(groups[j])))
    edges = [(a, b) for a, b in edges if not below(a, b)]
    # a specially named module that ended up on no cycle (a ring of a package and modules below it only) gets a cycle of two
    # with a module that lies neither below nor above it
    for i in range(n):
        if mods[i][2] and len(component_of(n, edges, i)) < 2:
            cand = [j for j in range(n) if j != i and not below(i, j) and not below(j, i)]
            if cand:
                j = rng.choice([c for c in cand if not mods[c][2]] or cand)
                edges += [(i, j), (j, i)]
    return edges, rings


def named_module_projects(ck, rng, count):
    """Projects whose modules are called like standard-library modules (every name of the analyser's own table), like names that
    extend / shorten / re-case these, like well-known third-party distributions, with leading / trailing underscores and
    dunders, and packages next to a file of the same name — at the top level, as packages, below an ordinary package.  Every
    such module lies on a cycle; each import is written in a form rotated over all forms Python offers for it (import, import
    as, from M import value, from P import m, relative with one or more dots).  The expected graph is what Python's finders
    and `ast` make of the files on disk (NAME_ORACLE), which must also be the generator's own import list; its strongly
    connected components (Coq specification, big_graphs) decide cycles, counts, sizes, severities and the `check` exit codes.
    Each project runs with the default options and with include_stdlib = true in .pyscn.toml."""
    graphs = []
    stdlib = read_stdlib_table()
    if len(stdlib) < 10:
        ck.broken_ties.append("e2e names: cannot read the standard-library table of isStandardLibrary (%d names)" % len(stdlib))
        return graphs
    st = ck.stats.setdefault("names", {"forms": {}, "families": {}, "stdlib_names_used": set(), "special_in_cycle": 0})
    rot = rng.randrange(100)
    for k, (fam, mods, shadow) in enumerate(names_layouts(rng, stdlib, count)):
        names = [".".join(p) for p, _, _ in mods]
        n = len(names)
        edges, rings = names_plan(rng, mods, big=(k % 4 == 1))
        d = lib.fresh_dir("c11_e2e_names_%d" % k)
        # the marker file that makes the directory the project root (without one the module names get a prefix: C12 F64)
        files = {["pyproject.toml", "requirements.txt", "setup.cfg"][k % 3]: "[project]\nname = \"demo\"\n" if k % 3 == 0 else ""}
        for i, (p, is_pkg, _) in enumerate(mods):
            lines = []
            if (i + k) % 4 == 0:
                # an import of the real standard library (of a name that is not a module of this project) / of something unknown
                tops = {q[0] for q, _, _ in mods}
                real = [t for t in GENUINE_STDLIB if t.split()[1].split(".")[0] not in tops and (t.startswith("import ") or not is_pkg)]
                lines.append(real[(i + k + rot) % len(real)] if (i + k) % 8 and real else "import extlib%d" % i)
            for j, (a, b) in enumerate(edges):
                if a != i:
                    continue
                forms = import_forms(p, is_pkg, mods[b][0])
                rel_forms = [f for f in forms if f[0].startswith("relative")]
                if rel_forms and (rot + j) % 3:       # two of three imports inside a package are relative
                    forms = rel_forms
                form, text = forms[(rot + j + k) % len(forms)]
                st["forms"][form] = st["forms"].get(form, 0) + 1
                lines.append(text)
            lines.append("value = %d" % i)
            rel = os.path.join(*p, "__init__.py") if is_pkg else os.path.join(*p[:-1], p[-1] + ".py")
            files[rel] = "\n".join(lines) + "\n"
        for j, p in enumerate(shadow):
            # the dead file imports modules that import the package: counted, it would close a cycle of its own
            importers = [names[a] for a, b in edges if mods[b][0] == p] + [names[(j + 1) % n]]
            files[os.path.join(*p[:-1], p[-1] + ".py")] = "".join("import %s\n" % m for m in importers) + "value = -1\n"
        for rel, text in files.items():
            os.makedirs(os.path.dirname(os.path.join(d, rel)), exist_ok=True)
            with open(os.path.join(d, rel), "w") as f:
                f.write(text)
        try:
            orc = name_oracle(d)
        except Exception as e:
            ck.broken_ties.append("e2e names: %s" % str(e)[-400:])
            continue
        want_edges = sorted({(names[a], names[b]) for a, b in edges})
        if orc["modules"] != sorted(names) or [tuple(e) for e in orc["edges"]] != want_edges or \
                orc["dead"] != sorted(os.path.join(*p[:-1], p[-1] + ".py") for p in shadow):
            ck.broken_ties.append("e2e names (%s): Python's importer reads the generated files differently from the generator: modules %s "
                                  "dead %s imports %s, generator %s %s" % (fam, orc["modules"], orc["dead"], orc["edges"], names, want_edges))
            continue
        idx = {m: i for i, m in enumerate(names)}
        oedges = [(idx[a], idx[b]) for a, b in orc["edges"]]
        st["special_in_cycle"] += sum(1 for i in range(n) if mods[i][2] and len(component_of(n, oedges, i)) >= 2)
        st["special_modules"] = st.get("special_modules", 0) + sum(1 for m in mods if m[2])
        st["families"][fam] = st["families"].get(fam, 0) + 1
        st["stdlib_names_used"].update(c for p, _, sp in mods if sp for c in p if c in stdlib)
        for variant in ("default", "include_stdlib"):
            dv = d
            if variant == "include_stdlib":
                dv = lib.fresh_dir("c11_e2e_names_%d_std" % k)
                for rel, text in files.items():
                    os.makedirs(os.path.dirname(os.path.join(dv, rel)), exist_ok=True)
                    with open(os.path.join(dv, rel), "w") as f:
                        f.write(text)
                with open(os.path.join(dv, ".pyscn.toml"), "w") as f:
                    f.write("[dependencies]\ninclude_stdlib = true\n")
                files = dict(files, **{".pyscn.toml": "[dependencies]\ninclude_stdlib = true\n"})
            # default options: also --max-cycles around the number of cycles and --allow-circular-deps (k a multiple of 3)
            g = cli_project(ck, dv, n, oedges, names, 3 * (k + 1) if variant == "default" else 3 * k + 4,
                            {"layout": "module names: %s, %s" % (fam, variant), "files": files})
            if g:
                graphs.append(g)
    return graphs


def namespace_cycle(ck):
    """cycles between modules of directories without __init__.py (PEP 420), imported with `from nsdir import m`: `pyscn analyze`
    and `pyscn check --select deps` (which builds its graph with include_third_party = false) must list the same cycles
    (they did not before fix 8ba1334: F66)"""
    projects = [
        ("flat", {"nsdir/left.py": "from nsdir import right\nvalue = 1\n", "nsdir/right.py": "from nsdir import left\nvalue = 2\n",
                  "entry.py": "import nsdir.left\n"},
         [["nsdir.left", "nsdir.right"]]),
        ("nested", {"ns/deep/a.py": "from ns.deep import b\n", "ns/deep/b.py": "from ns.deep import c\n", "ns/deep/c.py": "from ns.deep import a\n",
                    "ns/x.py": "from ns import y\n", "ns/y.py": "from ns import x\nfrom ns.deep import a\n",
                    "reg/__init__.py": "", "reg/m.py": "from ns import x\n", "entry.py": "from reg import m\n"},
         [["ns.deep.a", "ns.deep.b", "ns.deep.c"], ["ns.x", "ns.y"]]),
        ("mixed", {"ns/p.py": "from reg import q\n", "reg/__init__.py": "", "reg/q.py": "from ns import p\n",
                   "ns/lone.py": "from ns import nothing_here\nfrom nosuchdir import thing\n"},
         [["ns.p", "reg.q"]]),
    ]
    for name, files, want in projects:
        d = lib.fresh_dir("c11_e2e_ns_" + name)
        open(os.path.join(d, "requirements.txt"), "w").close()
        for rel, text in files.items():
            os.makedirs(os.path.dirname(os.path.join(d, rel)), exist_ok=True)
            with open(os.path.join(d, rel), "w") as f:
                f.write(text)
        rc, data, err = lib.analyze_json(d, ["--select", "deps"])
        try:
            cd = data["system"]["DependencyAnalysis"]["CircularDependencies"] or {}
        except Exception:
            ck.broken_ties.append("e2e namespace project %s: no report (rc=%s) %s" % (name, rc, err[-200:]))
            continue
        got = sorted(sorted(c["Modules"]) for c in (cd.get("CircularDependencies") or []))
        replay = {"kind": "e2e-namespace", "project": files, "analyze_cycles": got}
        if got != want:
            ck.violation("`pyscn analyze` reports cycles %s for modules of a namespace package that import each other (expected %s)" % (got, want), replay)
            continue
        rc2, out2, err2 = lib.pyscn(["check", "--select", "deps", "."], d)
        lines = re.findall(r"circular dependency detected: (.*)", out2 + err2)
        chk = sorted(sorted(x.strip() for x in l.split("->")) for l in lines)
        if chk != want or rc2 == 0:
            ck.violation("`pyscn check --select deps` lists cycles %s (exit %d), `pyscn analyze` lists %s (modules of a namespace package)"
                         % (chk, rc2, got), dict(replay, check_cycles=chk, check_exit=rc2), independent=True)


def main(tier):
    ck = lib.Check("C11", tier)
    ck.prepare("C11.v")
    rng = ck.rng
    thorough = tier == "thorough"
    ck.stats = {"small_nontrivial": 0, "distinct_codes": set(), "big_nontrivial": 0, "max_cycle": 0, "sev_seen": set()}
    dist = {}
    n_eval = 0
    model_ok = not any(("Deps/" in f and "Bounded" not in f and "Proofs" not in f) or "Gen/" in f for f in getattr(ck, "failed_files", []))
    if not ck.go_ok or not model_ok:
        if not model_ok:
            ck.broken_ties.append("the Coq model/spec (Deps/*.v) does not compile; no correspondence possible")
        ck.finish(assumptions=[])

    lib.log("C11: prepared in %.1fs" % (__import__("time").time() - ck.t0))
    # ---- part A: exhaustive small scope ------------------------------------------------
    for n in range(0, 5):
        cnt = 1 << (n * n)
        n_eval += small_graphs(ck, n, list(range(cnt)), contiguous_lo=0)
        dist["all_digraphs_n%d" % n] = cnt
    # five modules: 25 possible imports (self-imports included)
    n5 = 60000 if thorough else 4000
    masks5 = [rng.getrandbits(25) & rng.getrandbits(25) if rng.random() < 0.5 else rng.getrandbits(25) & rng.getrandbits(25) & rng.getrandbits(25)
              for _ in range(n5)]
    n_eval += small_graphs(ck, 5, masks5, tag="r")
    dist["random_digraphs_n5"] = n5
    if thorough:
        # every digraph on five modules without self-imports: 2^20
        def spread(m20):
            mask, k = 0, 0
            for a in range(5):
                for b in range(5):
                    if a != b:
                        if (m20 >> k) & 1:
                            mask |= 1 << (a * 5 + b)
                        k += 1
            return mask
        allm = [spread(m) for m in range(1 << 20)]
        for off in range(0, len(allm), 1 << 17):
            n_eval += small_graphs(ck, 5, allm[off:off + (1 << 17)], tag="x%d_" % off)
        dist["all_digraphs_n5_no_self_import"] = 1 << 20

    lib.log("C11: small scope done at %.1fs" % (__import__("time").time() - ck.t0))
    # ---- part B: larger graphs ------------------------------------------------------------
    graphs = []
    for n, e in boundary_graphs():
        graphs.append({"kind": "boundary", "n": n, "edges": e, "names": name_table(rng, n, False)})
    n_big = 1500 if thorough else 200
    for k in range(n_big):
        n = rng.choice([6, 8, 12, 20, 30, 45, 60]) if k % 4 else rng.randint(5, 60)
        n, e = planted_graph(rng, n) if k % 3 else uniform_graph(rng, n)
        if k % 10 == 9:  # a hub: many importers of one module that sits in a cycle
            hub = rng.randrange(n)
            e += [(v, hub) for v in rng.sample(range(n), min(n, rng.choice([10, 11, 12])))]
        graphs.append({"kind": "random", "n": n, "edges": e, "names": name_table(rng, n, k % 2 == 1)})
    # ---- part C: command line --------------------------------------------------------------
    e2e = e2e_projects(ck, rng, 24 if thorough else 8)
    pfx = prefix_named_projects(ck, rng, 16 if thorough else 5)
    nam = named_module_projects(ck, rng, 27 if thorough else 9)
    graphs += e2e + pfx + nam
    namespace_cycle(ck)
    lib.log("C11: cli projects done at %.1fs" % (__import__("time").time() - ck.t0))
    n_eval += big_graphs(ck, graphs)
    dist.update({"boundary_graphs": len(boundary_graphs()), "random_graphs_upto_60": n_big, "cli_projects": len(e2e), "cli_projects_prefix_related_names": len(pfx),
                 "cli_runs_special_module_names": len(nam)})
    nst = ck.stats.get("names") or {"forms": {}, "families": {}, "stdlib_names_used": set(), "special_in_cycle": 0}
    dist.update({"special_names_families": nst["families"], "special_names_import_forms": nst["forms"],
                 "stdlib_table_names_used_as_project_modules": len(nst["stdlib_names_used"]),
                 "specially_named_modules_on_a_cycle": nst["special_in_cycle"], "specially_named_modules": nst.get("special_modules", 0)})

    ck.samples = [{"n": 3, "mask": 106, "edges": mask_edges(3, 106)},
                  {"modules": graphs[0]["n"], "edges": graphs[0]["edges"][:12]},
                  {"modules": graphs[-1]["n"], "edges": graphs[-1]["edges"][:12], "kind": graphs[-1]["kind"]}]
    ck.cov.update({
        "evaluations": n_eval,
        "distinct_nontrivial": ck.stats["small_nontrivial"] + ck.stats["big_nontrivial"],
        "rule": "every digraph on <= 4 modules (2^(n*n) import sets, self-imports included), random digraphs on 5 modules"
                + (", every digraph on 5 modules without self-imports" if thorough else "") +
                ", planted/uniform random digraphs up to 60 modules (nested cycles, chords, back edges between components, "
                "self-imports, duplicate and external imports, hubs with fan-in 10..12), one cycle of each size 2..12 around the "
                "severity thresholds, generated Python projects through `pyscn analyze --json --select deps` and `pyscn check` (also --max-cycles at the "
                "number of cycles and next to it, --allow-circular-deps, a full analyze, the suggestions derived from the cycles, a cycle inside "
                "a namespace package; projects over module names that are string prefixes of one another without being package and "
                "submodule (package next to prefix-named modules and packages, also one level down): for every such pair the imports in both "
                "directions, from __init__ files and ordinary modules, arranged so that each is a bridge of its cycle, then rings "
                "through a related pair and planted graphs with all related imports — cycle set, counts, `check` lines and exit codes "
                "against the components of the graph the import statements define; projects whose modules are NAMED like "
                "standard-library modules (every name of isStandardLibrary's table that Python can load from a project, read from the "
                "source), like these names extended / shortened / re-cased, like third-party distributions, with underscores and dunders "
                "(pkg.__main__ too), and packages next to a file of the same name (the file is dead) — as top-level modules, as packages, "
                "below an ordinary package; every such module on a ring whose imports are all bridges, the import forms rotated over "
                "import / import as / from M import value / from P import m / relative with one or more dots; default options and "
                "include_stdlib = true; the expected graph is what Python's own finders and ast read from the files (must equal the "
                "generator's import list), its components decide cycles, TotalCycles, TotalModulesInCycles, sizes, severities, "
                "the `check` lines and the --max-cycles exit codes). "
                "distinct_nontrivial = graphs with at least one cycle",
        "input_distribution": dict(dist, distinct_small_partitions=len(ck.stats["distinct_codes"]), largest_cycle_seen=ck.stats["max_cycle"],
                                   severities_seen=sorted(ck.stats["sev_seen"])),
        "disagreements_checked": len(ck.violations) + len(ck.broken_ties),
    })
    ck.trusted += ["Coq 8.16.1 kernel, vm_compute for spec/model/checker evaluation and for C11_tarjan_exact_bounded",
                   "translator /verif/translator/gen_deps.go (size filter, severity chain, fan-in threshold of circular_detector.go)",
                   "hand-written model Deps/Tarjan.v of circular_detector.go and AddModule/AddDependency",
                   "hooks cmd/pyscn-verif/op_scc.go (graph built through AddModule/AddDependency, real DetectCircularDependencies)",
                   "module names chosen by the harness; cycles compared as sets of sets (order of cycles is not an observable: sort.Slice is unstable)",
                   "severity: documented table incl. 'a member has fan-in > 10 => critical' (docs/algorithms/dependency.md)"]
    ck.finish(assumptions=["module names are distinct strings", "graphs are finite; the detector's recursion depth is bounded by the number of modules"])
