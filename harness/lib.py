"""Shared machinery of the pyscn verification checks.

One check run = regenerate coq/Gen from /repo, re-check the proofs, rebuild the
Go binaries from /repo's working tree (hooks on), run the correspondence
between implementation, code model and spec, decide, write evidence.
"""
import fcntl
import hashlib
import json
import os
import random
import re
import shutil
import subprocess
import sys
import time

VERIF = os.path.dirname(os.path.dirname(os.path.abspath(__file__)))
REPO = os.environ.get("VERIF_REPO", "/repo")
COQ = os.path.join(VERIF, "coq")
BUILD = os.path.join(VERIF, "build")
BIN = os.path.join(BUILD, "bin")
WORK = os.path.join(BUILD, "work")
EVID = os.path.join(VERIF, "evidence")
REPLAYS = os.path.join(VERIF, "replays")
GOENV = dict(os.environ, GOFLAGS="-mod=mod", GOPROXY="off")
GOENV.pop("GOTOOLCHAIN", None)
GOENV.pop("GOSUMDB", None)
LOCALGO = dict(os.environ, GOFLAGS="-mod=mod", GOPROXY="off", GOTOOLCHAIN="local")

COQ_TIMEOUT = int(os.environ.get("VERIF_COQ_TIMEOUT", "1500"))


def log(*a):
    print(*a, file=sys.stderr, flush=True)


class Lock:
    """Serialises the shared build steps (Gen, make, go build) between checks."""

    def __init__(self, name="build"):
        os.makedirs(BUILD, exist_ok=True)
        self.path = os.path.join(BUILD, name + ".lock")

    def __enter__(self):
        self.f = open(self.path, "w")
        fcntl.flock(self.f, fcntl.LOCK_EX)
        return self

    def __exit__(self, *a):
        fcntl.flock(self.f, fcntl.LOCK_UN)
        self.f.close()


def run(cmd, cwd=None, env=None, timeout=None, inp=None):
    p = subprocess.run(cmd, cwd=cwd, env=env, input=inp, stdout=subprocess.PIPE, stderr=subprocess.PIPE,
                       timeout=timeout, text=True)
    return p.returncode, p.stdout, p.stderr


# --------------------------------------------------------------------------------------
# step 1: translator
# --------------------------------------------------------------------------------------
def regen():
    """Build and run the translator. Returns (ok, problems, digest)."""
    os.makedirs(BIN, exist_ok=True)
    exe = os.path.join(BIN, "verifgen")
    rc, out, err = run(["go", "build", "-o", exe, "."], cwd=os.path.join(VERIF, "translator"), env=LOCALGO, timeout=300)
    if rc != 0:
        return False, ["translator build failed: " + err[-2000:]], {}
    rc, out, err = run([exe, "-repo", REPO, "-out", os.path.join(COQ, "Gen")], timeout=120)
    problems = [l for l in out.splitlines() if l.startswith("TRANSLATOR-PROBLEM")]
    digest = {}
    try:
        digest = json.load(open(os.path.join(COQ, "Gen", "digest.json")))
    except Exception:
        pass
    if rc != 0 and not problems:
        problems = ["translator failed: " + (err or out)[-2000:]]
    return rc == 0, problems, digest


# --------------------------------------------------------------------------------------
# step 2: proofs
# --------------------------------------------------------------------------------------
def write_coqproject():
    """_CoqProject = every .v under coq/ except Cases/ (generated cases). Returns True if it changed."""
    files = []
    for root, dirs, fs in os.walk(COQ):
        dirs[:] = sorted(d for d in dirs if d not in ("Cases",) and not d.startswith("."))
        for f in sorted(fs):
            if f.endswith(".v"):
                files.append(os.path.relpath(os.path.join(root, f), COQ))
    content = ("-Q . PV\n-arg -w -arg -notation-overridden,-deprecated-hint-without-locality,"
               "-deprecated-instance-without-locality,-deprecated-hint-rewrite-without-locality,-ambiguous-paths\n" + "\n".join(sorted(files)) + "\n")
    path = os.path.join(COQ, "_CoqProject")
    try:
        if open(path).read() == content:
            return False
    except OSError:
        pass
    with open(path, "w") as f:
        f.write(content)
    return True


def coq_make(clean=False):
    """Full .vo build of coq/ (incremental unless clean). Returns (ok, log)."""
    changed = write_coqproject()
    if changed or clean or not os.path.exists(os.path.join(COQ, "Makefile")):
        rc, out, err = run(["coq_makefile", "-f", "_CoqProject", "-o", "Makefile"], cwd=COQ)
        if rc != 0:
            return False, err
    if clean:
        run(["make", "clean"], cwd=COQ, timeout=300)
    try:
        rc, out, err = run(["make", "-j16", "-k"], cwd=COQ, timeout=COQ_TIMEOUT)
    except subprocess.TimeoutExpired:
        return False, "coq build timed out"
    return rc == 0, out + err


def coq_deps(files):
    """Transitive dependencies (paths relative to coq/) of the given .v files, themselves included."""
    files = [f for f in files if os.path.exists(os.path.join(COQ, f))]
    if not files:
        return set()
    rc, out, err = run(["coqdep", "-Q", ".", "PV", "-sort"] + files, cwd=COQ, timeout=300)
    return set(out.split()) | set(files)


def generator_outputs():
    """translator source file -> Gen/*.v files it writes (read off the writeGen calls)."""
    res = {}
    tdir = os.path.join(VERIF, "translator")
    for f in os.listdir(tdir):
        if f.endswith(".go"):
            outs = re.findall(r'writeGen\("([A-Za-z0-9_]+\.v)"', open(os.path.join(tdir, f)).read())
            if outs:
                res[f] = ["Gen/" + o for o in outs]
    return res


def harness_run_files(prop):
    """Coq files the check's harness module evaluates (its `From PV Require Import` lines)."""
    path = os.path.join(VERIF, "harness", prop.lower() + ".py")
    mods = set()
    try:
        src = open(path).read()
        extra = [src]
        for m in re.findall(r"^(?:import|from)\s+([a-z0-9_]+)", src, re.M):
            p2 = os.path.join(VERIF, "harness", m + ".py")
            if m not in ("lib",) and os.path.exists(p2):
                extra.append(open(p2).read())
        for text in extra:
            for line in re.findall(r"From PV Require (?:Import|Export) ([^\\\n\"']+)", text):
                for m in line.replace(".\\n", " ").split():
                    m = m.strip(".").strip()
                    if re.fullmatch(r"[A-Za-z0-9_]+(\.[A-Za-z0-9_]+)+", m):
                        mods.add(m.replace(".", "/") + ".v")
    except OSError:
        pass
    return sorted(mods)


def coq_failed_files(mlog):
    """Names of .v files whose compilation failed, from the make log."""
    bad = set()
    for m in re.finditer(r'File "\./([^"]+\.v)", line (\d+)', mlog):
        bad.add(m.group(1))
    for m in re.finditer(r"\*\*\* \[[^\]]*?([A-Za-z0-9_/]+)\.vo[:\]]", mlog):
        bad.add(m.group(1) + ".v")
    return sorted(bad)


def check_props(prop_file):
    """Recompile Props/<file>.v (after make) capturing Print Assumptions output.

    Returns dict: ok, theorems [(name, assumptions)], log.
    """
    path = os.path.join(COQ, "Props", prop_file)
    src = open(path).read()
    names = re.findall(r"^\s*(?:Theorem|Lemma|Corollary|Example|Fact|Remark|Proposition)\s+([A-Za-z0-9_']+)", strip_comments(src), re.M)
    forbidden = re.findall(r"\b(Admitted|admit|Axiom|Parameter|Conjecture|Abort All)\b", strip_comments(src))
    try:
        rc, out, err = run(["coqc", "-Q", ".", "PV", "-w", "-notation-overridden", "Props/" + prop_file], cwd=COQ,
                           timeout=COQ_TIMEOUT)
    except subprocess.TimeoutExpired:
        return {"ok": False, "theorems": [], "log": "timeout", "names": names}
    # Print Assumptions blocks appear in order of the Print commands
    printed = re.findall(r"^\s*Print Assumptions\s+([A-Za-z0-9_']+)\.", src, re.M)
    blocks = split_assumptions(out)
    thms = []
    for i, n in enumerate(printed):
        thms.append((n, blocks[i] if i < len(blocks) else "?"))
    thm_names = re.findall(r"^\s*(?:Theorem|Lemma|Corollary)\s+([A-Za-z0-9_']+)", strip_comments(src), re.M)
    ok = rc == 0 and not forbidden and len(blocks) == len(printed) and set(thm_names) <= set(printed)
    return {"ok": ok, "theorems": thms, "log": (out + err)[-4000:], "names": names, "forbidden": forbidden}


def strip_comments(s):
    out, depth, i = [], 0, 0
    while i < len(s):
        if s.startswith("(*", i):
            depth += 1
            i += 2
        elif s.startswith("*)", i) and depth > 0:
            depth -= 1
            i += 2
        else:
            if depth == 0:
                out.append(s[i])
            i += 1
    return "".join(out)


def split_assumptions(out):
    blocks, cur = [], None
    for line in out.splitlines():
        if line.startswith("Closed under the global context"):
            if cur is not None:
                blocks.append(cur)
                cur = None
            blocks.append("closed under the global context")
        elif line.startswith("Axioms:") or line.startswith("Section Variables:"):
            if cur is not None:
                blocks.append(cur)
            cur = line.strip()
        elif cur is not None:
            if line.strip() == "":
                continue
            cur += " " + line.strip()
    if cur is not None:
        blocks.append(cur)
    # merge "Section Variables:" block followed by "Axioms:" block of the same theorem
    merged = []
    for b in blocks:
        if merged and merged[-1].startswith("Section Variables:") and b.startswith("Axioms:"):
            merged[-1] += " " + b
        else:
            merged.append(b)
    return merged


def grep_forbidden():
    """No Admitted/admit/Axiom/... anywhere in the hand-written development."""
    hits = []
    for root, _, files in os.walk(COQ):
        if os.path.basename(root) in ("Cases",):
            continue
        for f in files:
            if not f.endswith(".v"):
                continue
            src = strip_comments(open(os.path.join(root, f)).read())
            for m in re.finditer(r"\b(Admitted|admit|Axiom|Axioms|Parameter|Parameters|Conjecture|Admit Obligations|"
                                 r"Unset Guard Checking|Unset Positivity Checking|Unset Universe Checking|bypass_check)\b",
                                 src):
                hits.append("%s: %s" % (os.path.relpath(os.path.join(root, f), COQ), m.group(1)))
    return hits


# --------------------------------------------------------------------------------------
# step 3: Go binaries from /repo's working tree
# --------------------------------------------------------------------------------------
def build_go():
    os.makedirs(BIN, exist_ok=True)
    errs = []
    # VERIF_COVER=1 (with GOCOVERDIR set) builds instrumented binaries: harness/coverage_gaps.py lists the blocks of the anchored
    # files that no check input reaches (generator gaps). Not used by the registered commands.
    cover = ["-cover", "-coverpkg=github.com/ludo-technologies/pyscn/..."] if os.environ.get("VERIF_COVER") else []
    for pkg, exe, tags in (("./cmd/pyscn-verif", "pyscn-verif", ["-tags", "verif"]), ("./cmd/pyscn", "pyscn", [])):
        try:
            rc, out, err = run(["go", "build"] + cover + tags + ["-o", os.path.join(BIN, exe), pkg], cwd=REPO, env=GOENV, timeout=900)
        except subprocess.TimeoutExpired:
            rc, err = 1, "timeout"
        if rc != 0:
            errs.append("%s: %s" % (pkg, err[-3000:]))
    return not errs, errs


def driver(requests, timeout=900, extra_env=None):
    """Send JSON requests to pyscn-verif, return parsed responses (same order)."""
    inp = "".join(json.dumps(r) + "\n" for r in requests)
    env = dict(os.environ)
    if extra_env:
        env.update(extra_env)
    rc, out, err = run([os.path.join(BIN, "pyscn-verif")], inp=inp, timeout=timeout, env=env)
    res = []
    for line in out.splitlines():
        line = line.strip()
        if line:
            try:
                res.append(json.loads(line))
            except Exception:
                res.append({"error": "unparsable: " + line[:200]})
    if len(res) != len(requests):
        raise RuntimeError("driver returned %d results for %d requests (rc=%s): %s" % (len(res), len(requests), rc, err[-2000:]))
    return res


def pyscn(args, cwd, timeout=300, env=None):
    e = dict(os.environ)
    if env:
        e.update(env)
    try:
        p = subprocess.run([os.path.join(BIN, "pyscn")] + args, cwd=cwd, stdout=subprocess.PIPE, stderr=subprocess.PIPE,
                           timeout=timeout, text=True, env=e)
        return p.returncode, p.stdout, p.stderr
    except subprocess.TimeoutExpired:
        return -9, "", "timeout"


def analyze_json(cwd, extra, target=".", timeout=300, env=None):
    """Run `pyscn analyze --json` and load the report it writes."""
    rep = os.path.join(cwd, ".pyscn", "reports")
    shutil.rmtree(rep, ignore_errors=True)
    rc, out, err = pyscn(["analyze", "--json", "--no-open"] + extra + [target], cwd, timeout, env)
    data = None
    if os.path.isdir(rep):
        fs = sorted(f for f in os.listdir(rep) if f.endswith(".json"))
        if fs:
            try:
                data = json.load(open(os.path.join(rep, fs[-1])))
            except Exception:
                data = None
    return rc, data, err


# --------------------------------------------------------------------------------------
# step 4: evaluating the Coq model on concrete cases
# --------------------------------------------------------------------------------------
def coq_eval(name, requires, defs_and_evals, timeout=None):
    """Write coq/Cases/<name>.v and run coqc; returns stdout.

    The file must print with [Eval vm_compute in ...]; use parse_coq_values.
    """
    d = os.path.join(COQ, "Cases")
    os.makedirs(d, exist_ok=True)
    path = os.path.join(d, name + ".v")
    with open(path, "w") as f:
        f.write("(* written by the harness: cases the implementation also ran *)\n")
        f.write(requires + "\nSet Printing Width 100000000.\nSet Printing Depth 100000000.\n")
        f.write(defs_and_evals)
    rc, out, err = run(["coqc", "-Q", ".", "PV", "-w", "none", "Cases/" + name + ".v"], cwd=COQ,
                       timeout=timeout or COQ_TIMEOUT)
    for ext in (".vo", ".glob", ".vok", ".vos"):
        try:
            os.remove(os.path.join(d, name + ext))
        except OSError:
            pass
    try:
        os.remove(os.path.join(d, "." + name + ".aux"))
    except OSError:
        pass
    if rc != 0:
        raise RuntimeError("coqc failed on cases file %s: %s" % (path, (err or out)[-3000:]))
    return out


def coq_eval_many(jobs, workers=8, timeout=None):
    """jobs: list of (name, requires, body). Runs coq_eval concurrently; returns outputs in order."""
    from concurrent.futures import ThreadPoolExecutor
    with ThreadPoolExecutor(max_workers=workers) as ex:
        futs = [ex.submit(coq_eval, n, r, b, timeout) for (n, r, b) in jobs]
        return [f.result() for f in futs]


_tok = re.compile(r"\[|\]|\(|\)|;|,|-?\d+|[A-Za-z_][A-Za-z0-9_']*|%[A-Za-z]+|#")


def parse_coq_values(out):
    """Parse every '= <value> : type' block printed by Eval into Python values.

    Lists -> list, tuples -> tuple, numbers -> int, true/false -> bool,
    Some x -> ('Some', x), None -> None, other identifiers -> str.
    """
    vals = []
    for m in re.finditer(r"^\s*= (.*?)\n\s*: ", out, re.S | re.M):
        vals.append(_parse_value(m.group(1)))
    return vals


def _parse_value(s):
    toks = [t for t in _tok.findall(s) if not t.startswith("%")]
    pos = [0]

    def atom():
        t = toks[pos[0]]
        if t == "[":
            pos[0] += 1
            items = []
            while toks[pos[0]] != "]":
                items.append(expr())
                if toks[pos[0]] == ";":
                    pos[0] += 1
            pos[0] += 1
            return items
        if t == "(":
            pos[0] += 1
            items = [expr()]
            while toks[pos[0]] == ",":
                pos[0] += 1
                items.append(expr())
            assert toks[pos[0]] == ")", toks[pos[0]:pos[0] + 5]
            pos[0] += 1
            return items[0] if len(items) == 1 else tuple(items)
        pos[0] += 1
        if re.fullmatch(r"-?\d+", t):
            return int(t)
        if t == "true":
            return True
        if t == "false":
            return False
        if t == "None":
            return None
        return t

    def expr():
        a = atom()
        # application: constructor followed by atoms; or q # d
        if isinstance(a, str) and a not in ("nil",):
            args = []
            while pos[0] < len(toks) and toks[pos[0]] not in ("]", ")", ";", ",", "#"):
                args.append(atom())
            if args:
                a = (a,) + tuple(args)
        if pos[0] < len(toks) and toks[pos[0]] == "#":
            pos[0] += 1
            d = atom()
            return ("Q", a, d)
        if a == "nil":
            return []
        return a

    v = expr()
    return v


# Coq term printers ---------------------------------------------------------------------
def cZ(n):
    return "(%d)%%Z" % n


def cN(n):
    return "(%d)%%N" % n


def cnat(n):
    return "(%d)%%nat" % n


def cbool(b):
    return "true" if b else "false"


def cQ(fr):
    from fractions import Fraction
    fr = Fraction(fr)
    return "((%d) # %d)%%Q" % (fr.numerator, fr.denominator)


def clist(items):
    return "[" + "; ".join(items) + "]"


def copt(x):
    return "None" if x is None else "(Some %s)" % x


# --------------------------------------------------------------------------------------
# known findings, violations, evidence
# --------------------------------------------------------------------------------------
def load_known(prop):
    """Open known findings for a property: known_findings.json plus known_findings.d/*.json."""
    paths = [os.path.join(VERIF, "known_findings.json")]
    kd = os.path.join(VERIF, "known_findings.d")
    if os.path.isdir(kd):
        paths += [os.path.join(kd, f) for f in sorted(os.listdir(kd)) if f.endswith(".json")]
    res = []
    for path in paths:
        try:
            d = json.load(open(path))
        except Exception:
            continue
        res += [e for e in d.get("findings", []) if e.get("property") == prop and e.get("status", "open") == "open"]
    return res


class Check:
    """Bookkeeping for one check run of one property."""

    def __init__(self, prop, tier):
        self.prop = prop
        self.tier = tier
        self.seed = int(os.environ.get("VERIF_SEED", "20261001"))
        self.rng = random.Random(self.seed * 1000003 + int(hashlib.sha256(prop.encode()).hexdigest()[:8], 16))
        self.t0 = time.time()
        self.violations = []       # (what, replay_path)
        self.known_hits = {}       # finding id -> description
        self.obligations = []      # theorem names
        self.discharged = []
        self.assumptions_printed = []
        self.trusted = []
        self.cov = {}
        self.samples = []
        self.notes = []
        self.n_replay = 0
        self.unconfirmed = []
        self.broken_ties = []      # descriptions of proof/translator/correspondence breakage
        self.known = load_known(prop)
        os.makedirs(EVID, exist_ok=True)
        os.makedirs(REPLAYS, exist_ok=True)
        os.makedirs(WORK, exist_ok=True)

    # --- shared preparation ----------------------------------------------------------
    def prepare(self, prop_file, need_go=True, clean=False):
        """Translator, proofs, Go build. Records broken ties; returns False if the
        model cannot be evaluated at all (Coq build of needed files failed)."""
        with Lock():
            ok, problems, digest = regen()
            self.digest = digest
            ok2, mlog = coq_make(clean=clean)
            self.make_log = mlog
            all_failed = coq_failed_files(mlog) if not ok2 else []
            # only what this property's theorems and evaluated models depend on counts for this property
            deps = coq_deps(["Props/" + prop_file] + harness_run_files(self.prop))
            self.deps = sorted(deps)
            self.failed_files = [f for f in all_failed if f in deps]
            self.unrelated_failed_files = [f for f in all_failed if f not in deps]
            self.make_ok = ok2 or not self.failed_files
            if not ok:
                gens = generator_outputs()
                for p in problems:
                    m = re.match(r"TRANSLATOR-PROBLEM: \[([^\]]+)\]", p)
                    outs = gens.get(m.group(1), None) if m else None
                    if outs is None or any(o in deps for o in outs):
                        self.broken_ties.append("translator: " + p)
                    else:
                        self.notes.append("translator problem outside this property's dependencies: " + p[:200])
            hits = grep_forbidden()
            if hits:
                self.broken_ties.append("forbidden constructs in development: " + "; ".join(hits[:5]))
            pr = check_props(prop_file)
            self.props_result = pr
            self.obligations = pr["names"]
            if pr["ok"]:
                # coqc accepted the whole file: every stated theorem/example is discharged
                self.discharged = list(pr["names"])
                self.assumptions_printed = ["%s: %s" % (n, a) for n, a in pr["theorems"]]
            else:
                self.discharged = []
                self.broken_ties.append("proof: Props/%s does not check: %s" % (prop_file, pr["log"][-1500:]))
            if self.tier == "thorough" and pr["ok"] and os.environ.get("VERIF_SKIP_COQCHK") != "1":
                # independent re-check of the compiled property file and everything it depends on
                try:
                    rc, out, err = run(["coqchk", "-silent", "-o", "-Q", ".", "PV", "PV.Props." + prop_file[:-2]], cwd=COQ, timeout=3000)
                    summary = out[out.find("CONTEXT SUMMARY"):] if "CONTEXT SUMMARY" in out else (out + err)[-800:]
                    self.coqchk = " ".join(summary.split())
                    if rc != 0:
                        self.broken_ties.append("coqchk rejected Props/%s: %s" % (prop_file, (out + err)[-800:]))
                except subprocess.TimeoutExpired:
                    self.coqchk = "coqchk timed out"
            if need_go:
                ok, errs = build_go()
                self.go_ok = ok
                if not ok:
                    self.broken_ties.append("go build failed: " + "; ".join(errs)[:1500])
        return True

    # --- reporting -------------------------------------------------------------------
    def match_known(self, tags):
        """Return the known-finding entry whose 'match' tags are all present, else None."""
        for e in self.known:
            m = e.get("match", {})
            if all(tags.get(k) == v for k, v in m.items()):
                return e
        return None

    def known_finding(self, entry, detail=""):
        if entry["id"] not in self.known_hits:
            self.known_hits[entry["id"]] = entry["what"]
            print("KNOWN-FINDING: property=%s %s [%s]" % (self.prop, entry["what"], entry["id"]), flush=True)

    def violation(self, what, replay, no_input=False, independent=False):
        """independent=True: the decision used only the implementation's output and an oracle that owes nothing to the regenerated
        model (CPython, the property text re-read in Python, another output of the same run), so it stays a confirmed failing input
        even when the translator could not regenerate this property's constants."""
        if not no_input and not independent and any(b.startswith("translator: ") for b in self.broken_ties):
            # the constants/tables this property's model is regenerated from could not be read off the source: a disagreement
            # between the implementation and such a model is not a confirmed failing input (the rewrite may be harmless);
            # it goes into the replay of the no-failing-input-found report instead
            self.unconfirmed.append({"what": what, "replay": replay})
            log("  (unconfirmed, the model could not be regenerated) " + what[:300])
            return
        self.n_replay += 1
        path = os.path.join(REPLAYS, "%s-%s-%d.json" % (self.prop, self.tier, self.n_replay))
        replay = dict(replay)
        replay["property"] = self.prop
        replay["what"] = what
        replay["seed"] = self.seed
        replay["how_to_rerun"] = "cd /verif && VERIF_SEED=%d python3 harness/run_check.py %s %s" % (self.seed, self.prop, self.tier)
        with open(path, "w") as f:
            json.dump(replay, f, indent=1, default=str)
        self.violations.append((what, path))
        line = "VIOLATION property=%s replay=%s" % (self.prop, path)
        if no_input:
            line += " no-failing-input-found"
        print(line, flush=True)
        log("  -> " + what[:600])

    def finish(self, level="proof", checker_cmd=None, extra_cov=None, assumptions=None):
        """Write evidence; handle 'broken tie without failing input'; exit."""
        if self.broken_ties and not self.violations:
            self.violation("proof or tie to the code no longer checks and no failing input was found: " +
                           " | ".join(self.broken_ties)[:3000],
                           {"broken": self.broken_ties, "kind": "broken-proof-or-tie",
                            "unconfirmed_disagreements": self.unconfirmed[:20]}, no_input=True)
        cov = {
            "obligations": max(1, len(self.obligations)),
            "discharged": len(self.discharged) if self.obligations else 0,
            "checker_cmd": checker_cmd or "make -C /verif/coq -j16 (coqc 8.16.1, full .vo build) + coqc Props/%s.v" % self.prop,
            "trusted_base": self.trusted + ["Print Assumptions: " + a for a in self.assumptions_printed],
            "theorems": self.obligations,
            "samples": self.samples[:8] if self.samples else ["(no case sampled)"],
            "known_findings_hit": sorted(self.known_hits),
            "translator_digest": getattr(self, "digest", {}).get("functions", {}),
            "broken_ties": self.broken_ties,
            "notes": self.notes,
            "coqchk": getattr(self, "coqchk", "not run in this tier (thorough only)"),
        }
        cov.update(self.cov)
        if extra_cov:
            cov.update(extra_cov)
        ev = {
            "property_id": self.prop, "tier": self.tier, "seed": self.seed, "level": level,
            "coverage": cov,
            "assumptions": assumptions or [],
            "wall_s": round(time.time() - self.t0, 2),
            "violations": len(self.violations),
        }
        with open(os.path.join(EVID, self.prop + ".json"), "w") as f:
            json.dump(ev, f, indent=1, default=str)
        log("%s %s: %d violations, %d known findings, %.1fs" % (self.prop, self.tier, len(self.violations),
                                                               len(self.known_hits), time.time() - self.t0))
        sys.exit(1 if self.violations else 0)


def fresh_dir(name):
    d = os.path.join(WORK, name)
    shutil.rmtree(d, ignore_errors=True)
    os.makedirs(d)
    return d
