"""C20, last sentence: "The MCP tools return the same findings as the command line for the same path and options."

All seven MCP tools are called on the REAL server binary (cmd/pyscn-mcp, JSON-RPC over stdio, started in a chosen working directory with
a chosen PYSCN_CONFIG, exactly as an MCP client starts it) and compared with `pyscn analyze --json` / `pyscn check` run with the same
path and the same options.  Only projected findings are compared (rows sorted, paths relative to the project, no timestamps/durations):

  check_complexity  (file, function, start, end, complexity, risk)                     <-> analyze --select complexity --min-complexity K
  find_dead_code    (file, function, start, end, severity, reason)                     <-> analyze --select deadcode --min-severity S
  detect_clones     ({(file,start,end),(file,start,end)}, similarity (6 digits), type) <-> analyze --select clones --clone-threshold T
  check_coupling    (file, class, start, end, CBO, risk)                               <-> analyze --select cbo
  check_cohesion    (file, class, start, end, LCOM4, risk)                             <-> analyze --select lcom
  get_health_score  health score, grade, the seven category scores, the counters       <-> analyze (all analyses), summary section
  analyze_code      all of the above rows + health score, per selected analyses        <-> analyze --select ...

Histories (sequences of calls on ONE server process across projects with different configurations; the answer to a call must not depend on
the calls made before it) are in harness/c20hist.py, started from run() below and sharing its cache of command line runs.

The "summary" and "detailed" output modes of the tools (issue lists cut by a threshold) are compared with the CLI rows cut by the same
threshold, and with the lines `pyscn check` prints for the same threshold.
"""
import json
import os
import random
import re
import shutil
import subprocess
import threading
import time
from concurrent.futures import ThreadPoolExecutor

import lib
import cfgcommon as cc
from c06 import CLASS_FILE, latest_json

TOOLS = ["analyze_code", "check_complexity", "detect_clones", "check_coupling", "find_dead_code", "check_cohesion", "get_health_score"]
MCP_BIN = os.path.join(lib.BIN, "pyscn-mcp")

# ----------------------------------------------------------------------------------------------------------------------------------
# project
# ----------------------------------------------------------------------------------------------------------------------------------
DUP_A = '''def tally_orders(orders, limit):
    total = 0
    count = 0
    skipped = 0
    largest = None
    for order in orders:
        if order.amount > limit:
            total += order.amount
            count += 1
            if largest is None or order.amount > largest:
                largest = order.amount
        elif order.amount < 0:
            total -= 1
            skipped += 1
        else:
            skipped += 1
            continue
    if count == 0:
        print("no orders", skipped)
        return 0
    average = total / count
    spread = 0
    for order in orders:
        delta = order.amount - average
        if delta < 0:
            delta = -delta
        spread += delta
    spread = spread / count
    print("orders", count, average, spread, largest)
    if spread > average:
        return average - spread
    return average


def render_rows(rows, width):
    out = []
    widest = 0
    for row in rows:
        cells = []
        for cell in row:
            text = str(cell)
            if len(text) > width:
                text = text[:width]
            if len(text) > widest:
                widest = len(text)
            cells.append(text.ljust(width))
        line = " | ".join(cells)
        if not line.strip():
            continue
        out.append(line)
    header = "-" * (width * 3)
    out.insert(0, header)
    out.append(header)
    if widest < width:
        out.append("narrow %d" % widest)
    else:
        out.append("full %d" % widest)
    count = len(out)
    while count > 0 and not out[count - 1]:
        count -= 1
    return "\\n".join(out[:count])
'''
# exact copy with other identifiers (type-2), a copy with an inserted statement (type-3) and unrelated code
DUP_B = DUP_A.replace("orders", "invoices").replace("order", "invoice").replace("tally_", "sum_").replace("rows", "lines").replace("row", "line").replace("render_", "draw_")
DUP_C = DUP_A.replace("tally_orders", "tally_all").replace("        return 0\n", "        print(\"nothing\")\n        return 0\n").replace(
    "    spread = spread / count\n", "    spread = spread / count\n    spread = round(spread, 3)\n    average = round(average, 3)\n").replace(
    "render_rows", "render_table").replace("    header = \"-\" * (width * 3)\n", "    header = \"=\" * (width * 3)\n    width += 1\n    widest += 1\n")
# a heavily edited copy (similarity well below the near-copies)
DUP_E = DUP_A.replace("tally_orders", "tally_loose").replace("render_rows", "render_loose").replace(
    "    skipped = 0\n", "    skipped = 0\n    seen = {}\n    last = None\n").replace(
    "            count += 1\n", "            count += 1\n            seen[order.amount] = count\n            last = order\n").replace(
    "    average = total / count\n", "    average = total / count\n    if last is not None and seen:\n        average += 0\n    for k in sorted(seen):\n        print(k)\n").replace(
    "            cells.append(text.ljust(width))\n", "            cells.append(text.ljust(width))\n            if not text:\n                cells.pop()\n                widest -= 1\n").replace(
    "    out.insert(0, header)\n", "    out.insert(0, header)\n    for extra in (header, \"\"):\n        if extra:\n            out.append(extra)\n")
DUP_D = '''def unrelated(values):
    seen = set()
    result = []
    for v in values:
        key = (v.kind, v.size)
        if key in seen:
            continue
        seen.add(key)
        try:
            result.append(v.load())
        except OSError as exc:
            result.append(None)
            print(exc)
    while result and result[-1] is None:
        result.pop()
    return result
'''

# classes with CBO 0..12 (default risk thresholds 3/7, configured 2/5, "high coupling" of the tools: CBO > min_cbo, default 10) and
# LCOM4 1..7 (default thresholds 2/5, configured 1/3)
def hub_source():
    out = ["import os", "import json", "from collections import OrderedDict, deque", "", ""]
    for i in range(1, 13):
        out += ["class A%d:" % i, "    pass", "", ""]
    for name, n in (("Hub", 10), ("Mega", 12), ("Small", 3), ("Mid", 5), ("Edge", 7), ("Eight", 8), ("One", 1), ("Two", 2)):
        out += ["class %s(A1):" % name, "    def __init__(self):"]
        for j in range(2, n + 1):
            out.append("        self.f%d = A%d()" % (j, j))
        if n == 1:
            out.append("        self.f = 0")
        out += ["", "    def use(self):", "        return self.__dict__", "", ""]
    # LCOM4 = number of groups of methods that share no attribute (no __init__ touching everything)
    for name, groups in (("Cohesive", 1), ("Split2", 2), ("Split3", 3), ("Split4", 4), ("Split5", 5), ("Split6", 6), ("Split7", 7)):
        out.append("class %s:" % name)
        for g in range(groups):
            out += ["    def get%d(self):" % g, "        return self.v%d" % g, "", "    def set%d(self, x):" % g, "        self.v%d = x" % g, ""]
        out.append("")
    return "\n".join(out) + "\n"


HUB = hub_source()

# two 5-line functions (5 statement nodes each): reported as a clone pair only when min_lines <= 5 and min_nodes <= 5
TINY = '''def tiny_a(a, b, c):
    x = [a + b * c, a - b, (a, b, c), {a: b}, a % c, b ** 2, -a, not b]
    y = [x[0] + x[1], x[2][0], x[3].get(a), x[4] or x[5], x[6] and x[7]]
    z = {k: v for k, v in zip(x, y) if k or v}
    return sorted(z.items(), key=lambda kv: (kv[1], kv[0]))[0:3] if z and x else [len(x), len(y)]


def tiny_b(p, q, r):
    u = [p + q * r, p - q, (p, q, r), {p: q}, p % r, q ** 2, -p, not q]
    v = [u[0] + u[1], u[2][0], u[3].get(p), u[4] or u[5], u[6] and u[7]]
    w = {k: t for k, t in zip(u, v) if k or t}
    return sorted(w.items(), key=lambda kv: (kv[1], kv[0]))[0:3] if w and u else [len(u), len(v)]
'''

# several statements far below the return (warning: unreachable branch) and right below it (critical)
DEAD = '''def far_dead(x):
    return x






    y = x + 1
    return y


def near_dead(x):
    raise ValueError(x)
    return 1


def both(x):
    for i in range(x):
        if i:
            break
            x += 1
        continue
        x -= 1
    return x
    print("never")
'''

IMPORTS = {"alpha.py": "import beta\nimport gamma\n", "beta.py": "import gamma\n", "gamma.py": "import alpha\n", "delta.py": "import os\n"}

# Non-default values for every threshold a tool's findings depend on.  Deliberately NOT here: keys for which the command line has no
# way to state "the same option" ([complexity] min_complexity, [dead_code] min_severity and [clones] similarity_threshold are set by
# the separate variants below, together with the explicit value passed on both sides).
CONFIG_BASE = {
    "complexity": {"low_threshold": 3, "medium_threshold": 7, "max_complexity": 12},
    "cbo": {"low_threshold": 2, "medium_threshold": 5, "show_zeros": True},
    "lcom": {"low_threshold": 1, "medium_threshold": 3},
    "clones": {"min_lines": 6, "min_nodes": 12},
}


def toml(cfg):
    out = ["# generated by harness/c20mcp.py"]
    for sec in sorted(cfg):
        out.append("[%s]" % sec)
        for k, v in sorted(cfg[sec].items()):
            if isinstance(v, bool):
                v = "true" if v else "false"
            elif isinstance(v, str):
                v = '"%s"' % v
            elif isinstance(v, list):
                v = json.dumps(v)
            out.append("%s = %s" % (k, v))
        out.append("")
    return "\n".join(out) + "\n"


def make_sources(seed):
    rng = random.Random(seed)
    files = {}
    mods = cc.gen_modules(rng, 2, dict(max_depth=3, max_len=3, n_funcs=3))
    for i, m in enumerate(mods):
        files["gen%d.py" % i] = "\n".join(m["lines"]).replace("from rt import *", "import os") + "\n"
    files["classes.py"] = CLASS_FILE
    files["ledger.py"] = CLASS_FILE.replace("Account", "Ledger")
    files["hub.py"] = HUB
    files["dead.py"] = DEAD
    for fn, head in IMPORTS.items():
        files[fn] = head + "\n\ndef use_%s(x):\n    if x:\n        return 1\n    return 0\n" % fn[:-3]
    files["dups/orders.py"] = DUP_A
    files["dups/invoices.py"] = DUP_B
    files["dups/tables.py"] = DUP_C
    files["dups/other.py"] = DUP_D
    files["dups/loose.py"] = DUP_E
    return files


def write_project(d, files, cfg):
    os.makedirs(d)
    for fn, src in files.items():
        p = os.path.join(d, fn)
        os.makedirs(os.path.dirname(p), exist_ok=True)
        with open(p, "w") as f:
            f.write(src)
    with open(os.path.join(d, ".pyscn.toml"), "w") as f:
        f.write(toml(cfg))
    return d


# ----------------------------------------------------------------------------------------------------------------------------------
# the two front ends
# ----------------------------------------------------------------------------------------------------------------------------------
def build_server():
    cover = ["-cover", "-coverpkg=github.com/ludo-technologies/pyscn/..."] if os.environ.get("VERIF_COVER") else []
    with lib.Lock("mcp-build"):
        rc, out, err = lib.run(["go", "build"] + cover + ["-o", MCP_BIN, "./cmd/pyscn-mcp"], cwd=lib.REPO, env=lib.GOENV, timeout=900)
    return rc == 0, err[-1500:]


def serve(cwd, calls, config=None, timeout=600):
    """Start the real MCP server in `cwd` (PYSCN_CONFIG=config), send one tools/call per entry of `calls` [(tool, args)], close stdin.
    Returns one dict per call: {"is_error": bool, "text": str} | {"rpc_error": {...}} | {"dead": "<stderr tail>"} (no answer: the
    server died, e.g. a panic in a handler)."""
    msgs = [INIT, {"jsonrpc": "2.0", "method": "notifications/initialized"}]
    for i, (tool, args) in enumerate(calls):
        msgs.append({"jsonrpc": "2.0", "id": i + 1, "method": "tools/call", "params": {"name": tool, "arguments": args}})
    env = dict(os.environ)
    env.pop("PYSCN_CONFIG", None)
    if config:
        env["PYSCN_CONFIG"] = config
    try:
        p = subprocess.run([MCP_BIN], input="".join(json.dumps(m) + "\n" for m in msgs), cwd=cwd, stdout=subprocess.PIPE,
                           stderr=subprocess.PIPE, text=True, env=env, timeout=timeout)
        out, err, rc = p.stdout, p.stderr, p.returncode
    except subprocess.TimeoutExpired as e:
        out, err, rc = (e.stdout or b"").decode("utf-8", "replace") if isinstance(e.stdout, bytes) else (e.stdout or ""), "TIMEOUT", -9
    by_id = {}
    for line in out.splitlines():
        try:
            m = json.loads(line)
        except Exception:
            continue
        if isinstance(m, dict) and "id" in m:
            by_id[m["id"]] = m
    res = []
    for i in range(len(calls)):
        m = by_id.get(i + 1)
        if m is None:
            res.append({"dead": "exit status %s; stderr: %s" % (rc, err[-1500:])})
        elif "error" in m:
            res.append({"rpc_error": m["error"]})
        else:
            r = m.get("result") or {}
            text = "".join(c.get("text", "") for c in r.get("content") or [] if c.get("type") == "text")
            res.append({"is_error": bool(r.get("isError")), "text": text})
    return res


_scratch_n = [0]
_scratch_lock = threading.Lock()


def scratch(root):
    with _scratch_lock:
        _scratch_n[0] += 1
        d = os.path.join(root, "cli%04d" % _scratch_n[0])
    os.makedirs(d)
    with open(os.path.join(d, ".pyscn.toml"), "w") as f:     # nothing is ever discovered from the working directory of the CLI
        f.write("# empty\n")
    return d


def cli_analyze(root, flags, target, cwd=None):
    """`pyscn analyze --json <flags> <target>` in a private working directory; (rc, report, stderr)."""
    d = cwd or scratch(root)
    shutil.rmtree(os.path.join(d, ".pyscn"), ignore_errors=True)
    cmd = [os.path.join(lib.BIN, "pyscn"), "analyze", "--json", "--no-open"] + flags + ([target] if target is not None else [])
    try:
        p = subprocess.run(cmd, cwd=d, stdout=subprocess.PIPE, stderr=subprocess.PIPE, text=True, timeout=600)
        rc, err = p.returncode, p.stderr
    except subprocess.TimeoutExpired:
        rc, err = -9, "TIMEOUT"
    data = latest_json(d)
    shutil.rmtree(os.path.join(d, ".pyscn"), ignore_errors=True)
    if cwd is None:
        shutil.rmtree(d, ignore_errors=True)
    return rc, data, err, cmd


def cli_check(root, flags, target):
    d = scratch(root)
    cmd = [os.path.join(lib.BIN, "pyscn"), "check"] + flags + [target]
    try:
        p = subprocess.run(cmd, cwd=d, stdout=subprocess.PIPE, stderr=subprocess.PIPE, text=True, timeout=600)
        rc, err = p.returncode, p.stderr
    except subprocess.TimeoutExpired:
        rc, err = -9, "TIMEOUT"
    shutil.rmtree(d, ignore_errors=True)
    return rc, err, cmd


# ----------------------------------------------------------------------------------------------------------------------------------
# projections (the findings; everything else is presentation)
# ----------------------------------------------------------------------------------------------------------------------------------
def rel(path, proj, cwd=None):
    if not os.path.isabs(path):
        path = os.path.normpath(os.path.join(cwd or proj, path))
    path = os.path.realpath(path)
    proj = os.path.realpath(proj)
    return os.path.relpath(path, proj) if (path + os.sep).startswith(proj + os.sep) or path == proj else path


def rows_complexity(sec, proj):
    return sorted((rel(f["FilePath"], proj), f["Name"], f["StartLine"], f["EndLine"], f["Metrics"]["Complexity"], f["RiskLevel"])
                  for f in (sec or {}).get("Functions") or [])


def rows_dead(sec, proj):
    out = []
    for f in (sec or {}).get("files") or []:
        for fn in f.get("functions") or []:
            for x in fn.get("findings") or []:
                out.append((rel(x["location"]["file_path"] or f["file_path"], proj), fn["name"], x["location"]["start_line"],
                            x["location"]["end_line"], x["severity"], x["reason"]))
    return sorted(out)


def rows_class(sec, proj, key):
    return sorted((rel(c["FilePath"], proj), c["Name"], c["StartLine"], c["EndLine"], c["Metrics"].get(key), c["RiskLevel"])
                  for c in (sec or {}).get("Classes") or [])


def rows_clones(sec, proj):
    out = []
    for p in (sec or {}).get("clone_pairs") or []:
        ends = sorted((rel(c["location"]["file_path"], proj), c["location"]["start_line"], c["location"]["end_line"])
                      for c in (p["clone1"], p["clone2"]))
        out.append((ends[0], ends[1], round(p["similarity"], 6), p["type"]))
    return sorted(out)


SCORES = ["complexity_score", "dead_code_score", "duplication_score", "coupling_score", "cohesion_score", "dependency_score", "architecture_score"]
COUNTERS = ["total_files", "average_complexity", "high_complexity_count", "dead_code_count", "clone_pairs", "high_coupling_classes", "high_lcom_classes"]


def health_of_summary(s):
    s = s or {}
    h = {"health_score": s.get("health_score"), "grade": s.get("grade")}
    for k in SCORES + COUNTERS:
        v = s.get(k)
        h[k] = round(v, 6) if isinstance(v, float) else v
    return h


def health_of_tool(m):
    h = {"health_score": m.get("health_score"), "grade": m.get("grade")}
    for k in SCORES:
        h[k] = (m.get("category_scores") or {}).get(k)
    for k in COUNTERS:
        v = (m.get("summary") or {}).get(k)
        h[k] = round(v, 6) if isinstance(v, float) else v
    return h


def first_row_diff(a, b):
    sa, sb = set(a), set(b)
    only_a, only_b = sorted(sa - sb), sorted(sb - sa)
    return "only MCP: %s | only CLI: %s" % (str(only_a[:3])[:400], str(only_b[:3])[:400])


# ----------------------------------------------------------------------------------------------------------------------------------
# parsing of the "summary" / "detailed" issue lists and of the lines `pyscn check` prints
# ----------------------------------------------------------------------------------------------------------------------------------
RE_CX = re.compile(r"^(.*):(\d+):(\d+): (\S+) is too complex \((\d+) > (\d+)\)$")
RE_DC = re.compile(r"^(.*):(\d+):(\d+): (\S+) \((\w+)\)$")
RE_CL = re.compile(r"^(.*):(\d+):(\d+): clone of (.*):(\d+):(\d+) \(([\d.]+)%\)$")
RE_CBO = re.compile(r"^(.*):(\d+): (\S+) has high coupling \(CBO=(\d+)\)$")
RE_LCOM = re.compile(r"^(.*):(\d+): (\S+) has low cohesion \(LCOM4=(\d+)\)$")


def issues_of(tool, mode, m, proj):
    """Issue list of a summary/detailed answer as sorted tuples; None when a line does not parse."""
    out = []
    for it in m.get("issues") or []:
        if mode == "summary":
            rx = {"check_complexity": RE_CX, "find_dead_code": RE_DC, "detect_clones": RE_CL, "check_coupling": RE_CBO, "check_cohesion": RE_LCOM}[tool]
            g = rx.match(it)
            if not g:
                return None
            g = g.groups()
            if tool == "check_complexity":
                out.append((rel(g[0], proj), int(g[1]), g[3], int(g[4]), int(g[5])))
            elif tool == "find_dead_code":
                out.append((rel(g[0], proj), int(g[1]), g[3], g[4]))
            elif tool == "detect_clones":
                out.append((rel(g[0], proj), int(g[1]), rel(g[3], proj), int(g[4]), g[6]))
            else:
                out.append((rel(g[0], proj), int(g[1]), g[2], int(g[3])))
        else:
            if tool == "check_complexity":
                out.append((rel(it["file"], proj), it["line"], it["function"], it["complexity"], it["threshold"]))
            elif tool == "find_dead_code":
                out.append((rel(it["file"], proj), it["line"], it["reason"], it["severity"], it["function"]))
            elif tool == "detect_clones":
                out.append((rel(it["file1"], proj), it["line1"], rel(it["file2"], proj), it["line2"], round(it["similarity"], 6), it["lines"]))
            elif tool == "check_coupling":
                out.append((rel(it["file"], proj), it["line"], it["class_name"], it["cbo"]))
            else:
                out.append((rel(it["file"], proj), it["line"], it["class_name"], it["lcom4"], it["risk_level"]))
    return sorted(out)


def expected_issues(tool, mode, rows, args, eff):
    """The same issue list derived from the CLI's rows (full findings) and the threshold the tool call states."""
    if tool == "check_complexity":
        th = eff["max_complexity"]
        return sorted((f, s, n, c, th) for (f, n, s, e, c, r) in rows if c > th)
    if tool == "find_dead_code":
        if mode == "summary":
            return sorted((f, s, reason, sev) for (f, n, s, e, sev, reason) in rows)
        return sorted((f, s, reason, sev, n) for (f, n, s, e, sev, reason) in rows)
    if tool == "detect_clones":
        # clone1/clone2 order is presentation: both orientations are accepted by comparing as unordered pairs (see norm_clone_issue)
        if mode == "summary":
            return sorted(norm_clone_issue((a[0], a[1], b[0], b[1], "%.1f" % (sim * 100))) for (a, b, sim, ty) in rows)
        return sorted(norm_clone_issue((a[0], a[1], b[0], b[1], sim)) for (a, b, sim, ty) in rows)
    if tool == "check_coupling":
        th = eff["min_cbo"]
        return sorted((f, s, n, v) for (f, n, s, e, v, r) in rows if v > th)
    if tool == "check_cohesion":
        if mode == "summary":
            return sorted((f, s, n, v) for (f, n, s, e, v, r) in rows if r == "high")
        return sorted((f, s, n, v, r) for (f, n, s, e, v, r) in rows if r in ("high", "medium"))
    raise ValueError(tool)


def norm_clone_issue(t):
    a, b = (t[0], t[1]), (t[2], t[3])
    if b < a:
        a, b = b, a
    return a + b + tuple(t[4:5])


SECTION = {"check_complexity": "complexity", "find_dead_code": "dead_code", "detect_clones": "clone", "check_coupling": "cbo", "check_cohesion": "lcom"}
SELECT = {"check_complexity": "complexity", "find_dead_code": "deadcode", "detect_clones": "clones", "check_coupling": "cbo", "check_cohesion": "lcom"}
ANALYSES = {"complexity": "complexity", "dead_code": "deadcode", "clone": "clones", "cbo": "cbo", "lcom": "lcom", "deps": "deps"}


def rows_of(tool, sec, proj):
    if tool == "check_complexity":
        return rows_complexity(sec, proj)
    if tool == "find_dead_code":
        return rows_dead(sec, proj)
    if tool == "detect_clones":
        return rows_clones(sec, proj)
    if tool == "check_coupling":
        return rows_class(sec, proj, "CouplingCount")
    return rows_class(sec, proj, "LCOM4")


def all_rows(report, proj):
    report = report or {}
    return {"complexity": rows_complexity(report.get("complexity"), proj), "dead_code": rows_dead(report.get("dead_code"), proj),
            "clone": rows_clones(report.get("clone"), proj), "cbo": rows_class(report.get("cbo"), proj, "CouplingCount"),
            "lcom": rows_class(report.get("lcom"), proj, "LCOM4"),
            "present": sorted(k for k in ("complexity", "dead_code", "clone", "cbo", "lcom", "system") if report.get(k) is not None)}


# ----------------------------------------------------------------------------------------------------------------------------------
# cases
# ----------------------------------------------------------------------------------------------------------------------------------
# The only recorded open difference (F39).  Repaired and therefore plain VIOLATIONs again when they recur: check_coupling ignoring the
# [cbo] section (F36, scenarios cfg-*), the configuration file not looked up from the `path` argument (F37, scenario cfg-path), an
# explicit argument with the value of the built-in default losing to the file (F38, cfgx-cwd / cfgm-cwd), min_complexity above the file's
# max_complexity rejected (F40, cfg-* / cfgx-cwd).
K_NONPY = "explicit-non-python-file"
NONPY_TOOLS = ("check_complexity", "find_dead_code", "check_coupling", "check_cohesion")
SINGLE = ("check_complexity", "find_dead_code", "detect_clones", "check_coupling", "check_cohesion")


def with_key(cfg, sec, key, val):
    c = {k: dict(v) for k, v in cfg.items()}
    c.setdefault(sec, {})[key] = val
    return c


class Scenario:
    def __init__(self, name, proj, cwd, cfg, env_config=None):
        self.name, self.proj, self.cwd, self.cfg, self.env_config = name, proj, cwd, cfg, env_config
        self.eff = {"min_complexity": cfg.get("output", {}).get("min_complexity", 1),
                    "min_severity": cfg.get("dead_code", {}).get("min_severity", "warning"),
                    "similarity": cfg.get("clones", {}).get("similarity_threshold"),
                    "max_complexity": cfg.get("complexity", {}).get("max_complexity", 0) or 10,
                    "min_cbo": 10}


def cli_flags(sc, tool, args, altcfg):
    """(flags, config-dict or None) of the `pyscn analyze` call that states the same options as the tool call.  Options that have no
    command line flag (min_lines) are stated through --config <the scenario's config + that key>."""
    cfg = None
    if tool == "check_complexity":
        fl = ["--select", "complexity", "--min-complexity", str(args.get("min_complexity", sc.eff["min_complexity"]))]
    elif tool == "find_dead_code":
        sev = args.get("min_severity", sc.eff["min_severity"])
        fl = ["--select", "deadcode", "--min-severity", "critical" if sev == "error" else sev]
    elif tool == "detect_clones":
        fl = ["--select", "clones"]
        if "similarity_threshold" in args:
            fl += ["--clone-threshold", repr(args["similarity_threshold"])]
        if "min_lines" in args:
            cfg = with_key(sc.cfg, "clones", "min_lines", args["min_lines"])
    elif tool == "check_coupling":
        fl = ["--select", "cbo"]
    elif tool == "check_cohesion":
        fl = ["--select", "lcom"]
    else:
        fl = ["--min-complexity", str(sc.eff["min_complexity"]), "--min-severity", sc.eff["min_severity"]]
        an = args.get("analyses")
        if an:
            fl += ["--select", ",".join(ANALYSES.get(a, a) for a in an)]
    return fl, cfg


class Runner:
    def __init__(self, ck, root, stats):
        self.ck, self.root, self.stats = ck, root, stats
        self.pool = ThreadPoolExecutor(max_workers=10)
        self.cli_cache = {}
        self.cfg_files = {}
        self.lock = threading.Lock()
        os.makedirs(os.path.join(root, "altcfg"))

    def cfg_file(self, cfg):
        text = toml(cfg)
        with self.lock:
            if text not in self.cfg_files:
                p = os.path.join(self.root, "altcfg", "c%03d.toml" % len(self.cfg_files))
                with open(p, "w") as f:
                    f.write(text)
                self.cfg_files[text] = p
            return self.cfg_files[text]

    def cli(self, sc, flags, cfg, target, pool=None):
        """Future of (rc, report, stderr, cmd); identical command lines are run once."""
        fl = list(flags)
        if cfg is not None:
            fl += ["--config", self.cfg_file(cfg)]
        elif sc.env_config:
            fl += ["--config", sc.env_config]
        key = (tuple(fl), target)
        with self.lock:
            if key not in self.cli_cache:
                self.cli_cache[key] = (pool or self.pool).submit(cli_analyze, self.root, fl, target)
                self.stats["mcp_cli_runs"] += 1
            return self.cli_cache[key]


INIT = {"jsonrpc": "2.0", "id": 0, "method": "initialize",
        "params": {"protocolVersion": "2024-11-05", "capabilities": {}, "clientInfo": {"name": "pyscn-verif", "version": "0"}}}


def replay_of(sc, tool, args, cmd, extra=None):
    call = {"jsonrpc": "2.0", "id": 1, "method": "tools/call", "params": {"name": tool, "arguments": args}}
    r = {"kind": "mcp-vs-cli", "tool": tool, "arguments": args, "scenario": sc.name, "project": sc.proj,
         "project_config": open(os.path.join(sc.proj, ".pyscn.toml")).read(),
         "server_working_directory": sc.cwd, "PYSCN_CONFIG": sc.env_config,
         "mcp": "(cd %s && printf '%%s\\n' '%s' '%s' | %s%s)   # binary: go build -o %s ./cmd/pyscn-mcp" % (
             sc.cwd, json.dumps(INIT), json.dumps(call), ("PYSCN_CONFIG=%s " % sc.env_config) if sc.env_config else "", MCP_BIN, MCP_BIN),
         "cli": " ".join(cmd) if cmd else None}
    if extra:
        r.update(extra)
    return r


# ----------------------------------------------------------------------------------------------------------------------------------
# comparison of one answer with one report
# ----------------------------------------------------------------------------------------------------------------------------------
def r6(v):
    return round(v, 6) if isinstance(v, float) else v


def totals_expected(tool, rows, exp_all, sec):
    if tool == "check_complexity":
        su = (sec or {}).get("Summary") or {}      # the response's own summary, as the command line reports it
        return {"total_functions": su.get("TotalFunctions"), "max_complexity": su.get("MaxComplexity"),
                "average_complexity": r6(su.get("AverageComplexity")), "total_issues": len(exp_all)}
    if tool == "find_dead_code":
        return {"total_issues": len(rows), "critical_issues": sum(1 for x in rows if x[4] == "critical"),
                "warning_issues": sum(1 for x in rows if x[4] == "warning"), "info_issues": sum(1 for x in rows if x[4] == "info")}
    if tool == "detect_clones":
        return {"total_clone_pairs": len(rows), "files_with_clones": len({a[0] for (a, b, s, t) in rows} | {b[0] for (a, b, s, t) in rows})}
    if tool == "check_coupling":
        vs = [v for (f, n, s, e, v, r) in rows]
        return {"total_classes": len(rows), "max_cbo": max(vs) if vs else 0, "average_cbo": r6(sum(vs) / len(vs)) if vs else 0,
                "high_coupling_classes": len(exp_all)}
    vs = [v for (f, n, s, e, v, r) in rows]
    return {"total_classes": len(rows), "max_lcom": max(vs) if vs else 0, "average_lcom": r6(sum(vs) / len(vs)) if vs else 0,
            "high_lcom_classes": sum(1 for x in rows if x[5] == "high")}


def compare(sc, tool, args, mode, m, report):
    """None when the findings agree, else a short description of the first difference."""
    proj = sc.proj
    report = report or {}
    if tool in SINGLE:
        rows = rows_of(tool, report.get(SECTION[tool]), proj)
        if mode == "full":
            mine = rows_of(tool, m, proj)
            return None if mine == rows else "rows differ: " + first_row_diff(mine, rows)
        eff = dict(sc.eff)
        if "max_complexity" in args:
            eff["max_complexity"] = args["max_complexity"] or 10
        if "min_cbo" in args:
            eff["min_cbo"] = args["min_cbo"]
        exp = expected_issues(tool, mode, rows, args, eff)
        got = issues_of(tool, mode, m, proj)
        if got is None:
            return "an issue line does not have the documented form: %s" % str(m.get("issues"))[:300]
        if tool == "detect_clones":
            got = sorted(norm_clone_issue(t) for t in got)
            if mode == "summary":       # one decimal of a percentage: compare with a tolerance instead of re-implementing the rounding
                ge = {t[:4]: float(t[4]) for t in got}
                ee = {t[:4]: float(t[4]) for t in exp}
                if len(ge) == len(got) and len(ee) == len(exp):
                    got = sorted(ge)
                    bad = [k for k in ge if k in ee and abs(ge[k] - ee[k]) > 0.051]
                    exp = sorted(ee)
                    if bad:
                        return "similarity of pair %s: %s vs %s" % (bad[0], ge[bad[0]], ee[bad[0]])
        n = args.get("max_results", 0)
        if n and len(exp) > n:
            if len(got) != n or not set(got) <= set(exp):
                return "max_results=%d: %d issues listed, not a subset of the %d expected: %s" % (n, len(got), len(exp), first_row_diff(got, exp))
        elif got != exp:
            return "issues differ: " + first_row_diff(got, exp)
        te = totals_expected(tool, rows, exp, report.get(SECTION[tool]))
        ts = m.get("summary") or {}
        for k, v in te.items():
            if r6(ts.get(k)) != v:
                return "summary.%s = %s, the command line's findings give %s" % (k, ts.get(k), v)
        return None
    hs = health_of_summary(report.get("summary"))
    if tool == "get_health_score":
        ht = health_of_tool(m)
        if ht != hs:
            return "health differs: %s" % {k: (ht[k], hs[k]) for k in ht if ht[k] != hs[k]}
        return None
    # analyze_code
    if mode == "full":
        a, b = all_rows(m, proj), all_rows(report, proj)
        for k in ("present", "complexity", "dead_code", "clone", "cbo", "lcom"):
            if a[k] != b[k]:
                return "%s differ: %s" % (k, first_row_diff(a[k], b[k]) if k != "present" else "%s vs %s" % (a[k], b[k]))
        hm = health_of_summary(m.get("summary"))
        if hm != hs:
            return "health differs: %s" % {k: (hm[k], hs[k]) for k in hm if hm[k] != hs[k]}
        return None
    s = report.get("summary") or {}
    ms = m.get("summary") or {}
    for k in ("health_score", "grade"):
        if m.get(k) != s.get(k):
            return "%s: %s vs %s" % (k, m.get(k), s.get(k))
    for k in ("total_files", "total_functions", "complexity_score", "dead_code_score", "duplication_score", "coupling_score", "cohesion_score",
              "dependency_score", "high_complexity_count", "dead_code_count", "clone_pairs", "high_coupling_classes", "high_lcom_classes"):
        if ms.get(k) != s.get(k):
            return "summary.%s: %s vs %s" % (k, ms.get(k), s.get(k))
    return None


# ----------------------------------------------------------------------------------------------------------------------------------
# the check
# ----------------------------------------------------------------------------------------------------------------------------------
def case_list(sc, survey, level):
    """[(tool, args, target relative to the project ('' = the project), mode)].  level: 2 = every variation, 1 = one or two per tool."""
    cx, sims, cbos = survey["complexities"], survey["similarities"], survey["cbos"]
    mid = max(cx[len(cx) // 2] if cx else 3, sc.eff["min_complexity"] + 2)      # max_complexity >= min_complexity, also for mid - 1
    top = cx[-1] if cx else 10
    out = []

    def add(tool, args=None, target="", modes=("full",)):
        for mode in modes:
            out.append((tool, dict(args or {}), target, mode))
    SD = ("summary", "detailed")
    # --- check_complexity
    add("check_complexity", {}, modes=("full",) + SD)
    add("check_complexity", {"min_complexity": 1})
    add("check_complexity", {"min_complexity": 2}, modes=("full", "summary"))
    add("check_complexity", {"max_complexity": mid}, modes=SD)
    if sc.cfg.get("complexity", {}).get("max_complexity"):
        add("check_complexity", {"min_complexity": sc.cfg["complexity"]["max_complexity"] + 1})
        add("check_complexity", {"min_complexity": sc.cfg["complexity"]["max_complexity"]})
    if level >= 2:
        for k in (mid, mid + 1, top):
            add("check_complexity", {"min_complexity": k})
        add("check_complexity", {"max_complexity": mid - 1}, modes=SD + ("full",))
        add("check_complexity", {"max_complexity": top - 1, "max_results": 1}, modes=SD)
        if sc.eff["min_complexity"] <= 1:        # (a request with min_complexity > max_complexity is invalid; the command line has no max flag)
            add("check_complexity", {"max_complexity": 1, "max_results": 2}, modes=SD)
        add("check_complexity", {"min_complexity": 3, "max_complexity": 5, "show_details": False}, modes=SD)
        add("check_complexity", {"min_complexity": 2}, target="gen0.py", modes=("full", "summary"))
        add("check_complexity", {}, target="dups")
    # --- find_dead_code
    add("find_dead_code", {}, modes=("full",) + SD)
    add("find_dead_code", {"min_severity": "warning"})
    add("find_dead_code", {"min_severity": "info"}, modes=("full", "detailed"))
    add("find_dead_code", {"min_severity": "critical"}, modes=("full", "summary"))
    if level >= 2:
        add("find_dead_code", {"min_severity": "error"})
        add("find_dead_code", {"min_severity": "info", "max_results": 2}, modes=SD)
        add("find_dead_code", {"min_severity": "info"}, target="dead.py", modes=("full", "summary"))
        add("find_dead_code", {}, target="dups")
    # --- detect_clones
    add("detect_clones", {}, modes=("full",) + SD)
    add("detect_clones", {"similarity_threshold": 0.65})
    add("detect_clones", {"similarity_threshold": 0.8}, modes=("full", "summary"))
    if level >= 2:
        ts = [0.7, 1.0]
        if sims:
            s0 = sims[len(sims) // 2]
            ts += [s0, s0 + 1e-9]
        for t in ts:
            add("detect_clones", {"similarity_threshold": t})
        add("detect_clones", {"similarity_threshold": 0.7, "group_clones": False}, modes=("detailed",))
        add("detect_clones", {"similarity_threshold": 0.7, "max_results": 2}, modes=SD)
        for n in (30, 40):
            add("detect_clones", {"min_lines": n})
        add("detect_clones", {"similarity_threshold": 0.9}, target="dups", modes=("full", "summary"))
        add("detect_clones", {"similarity_threshold": 0.7}, target="dups/orders.py")
    # --- check_coupling
    add("check_coupling", {}, modes=("full",) + SD)
    add("check_coupling", {"min_cbo": 0}, modes=SD)
    if level >= 2:
        v = cbos[-1] if cbos else 3
        add("check_coupling", {"min_cbo": v}, modes=SD)
        add("check_coupling", {"min_cbo": v - 1}, modes=SD)
        add("check_coupling", {"min_cbo": 0, "max_results": 1}, modes=SD)
        add("check_coupling", {}, target="hub.py", modes=("full", "detailed"))
    # --- check_cohesion
    add("check_cohesion", {}, modes=("full",) + SD)
    if level >= 2:
        add("check_cohesion", {"max_results": 1}, modes=SD)
        add("check_cohesion", {}, target="hub.py", modes=("full", "detailed"))
    # --- get_health_score
    add("get_health_score", {})
    if level >= 2:
        add("get_health_score", {}, target="dups")
        add("get_health_score", {}, target="hub.py")
    # --- analyze_code
    add("analyze_code", {}, modes=("full", "summary"))
    add("analyze_code", {"analyses": ["complexity", "dead_code"]})
    if level >= 2:
        add("analyze_code", {"analyses": ["cbo", "lcom"]}, modes=("full", "summary"))
        add("analyze_code", {"analyses": ["clone"]})
        add("analyze_code", {"analyses": ["deps"]})
        add("analyze_code", {"analyses": ["complexity", "dead_code", "clone", "cbo", "lcom", "deps"]})
        add("analyze_code", {"analyses": ["dead_code"]}, target="dead.py")
    return out


def error_cases(proj, empty_dir, txt):
    """[(tool, args, cli argv after `analyze --json --no-open`)]: both front ends must reject, or both accept with equal findings."""
    out = []
    nope = os.path.join(proj, "no_such_dir")
    for tool in TOOLS:
        sel = ["--select", SELECT[tool]] if tool in SELECT else []
        out.append((tool, {"path": nope}, sel + [nope], "missing-path"))
        out.append((tool, {"path": empty_dir}, sel + [empty_dir], "no-python-files"))
        out.append((tool, {"path": txt}, sel + [txt], "not-a-python-file"))
        out.append((tool, {"path": 7}, sel, "path-not-a-string"))
        out.append((tool, {}, sel, "no-path"))
    out.append(("check_complexity", {"path": proj, "min_complexity": -1}, ["--select", "complexity", "--min-complexity", "-1", proj], "negative-min-complexity"))
    out.append(("detect_clones", {"path": proj, "similarity_threshold": 1.5}, ["--select", "clones", "--clone-threshold", "1.5", proj], "threshold-above-1"))
    out.append(("detect_clones", {"path": proj, "similarity_threshold": -0.25}, ["--select", "clones", "--clone-threshold", "-0.25", proj], "negative-threshold"))
    out.append(("find_dead_code", {"path": proj, "min_severity": "bogus"}, ["--select", "deadcode", "--min-severity", "bogus", proj], "unknown-severity"))
    out.append(("analyze_code", {"path": proj, "analyses": ["bogus"]}, ["--select", "bogus", proj], "unknown-analysis"))
    return out


def run(ck, root, thorough):
    """Section (d) of C20.  Returns the stats dict (also on failure to build the server: then a broken tie is recorded)."""
    t0 = time.time()
    stats = {"mcp_comparisons": {t: 0 for t in TOOLS}, "mcp_error_cases": {t: 0 for t in TOOLS}, "mcp_both_reject": 0, "mcp_both_accept": 0,
             "mcp_known_finding_cases": {}, "mcp_cli_runs": 0, "mcp_scenarios": [], "mcp_modes": {"full": 0, "summary": 0, "detailed": 0},
             "mcp_nonempty_findings": {t: 0 for t in TOOLS}, "mcp_check_line_comparisons": 0}
    ok, err = build_server()
    if not ok:
        ck.broken_ties.append("go build ./cmd/pyscn-mcp failed: " + err)
        return stats
    base = os.path.join(root, "mcp")
    os.makedirs(base)
    files = make_sources(ck.seed)
    cfgx = with_key(with_key(with_key(CONFIG_BASE, "output", "min_complexity", 4), "dead_code", "min_severity", "critical"), "clones", "similarity_threshold", 0.9)
    P1 = write_project(os.path.join(base, "plain"), files, {})
    P2 = write_project(os.path.join(base, "cfg"), files, CONFIG_BASE)
    P3 = write_project(os.path.join(base, "cfgx"), files, cfgx)
    PR = write_project(os.path.join(base, "rel"), files, CONFIG_BASE)
    N = write_project(os.path.join(base, "elsewhere"), {}, {})
    empty_dir = os.path.join(base, "elsewhere", "empty")
    os.makedirs(empty_dir)
    txt = os.path.join(base, "elsewhere", "notes.txt")
    with open(txt, "w") as f:
        f.write("def not_python_by_name():\n    return 1\n")
    R = Runner(ck, base, stats)
    # one defect shows in many cases: at most CAP violations (replay files) per tool, the rest is counted
    CAP = 6
    reported = {}
    real_violation = ck.violation

    def violation(what, replay):
        t = replay.get("tool", "?")
        reported[t] = reported.get(t, 0) + 1
        if reported[t] <= CAP:
            real_violation(what, replay)
        else:
            stats["mcp_violations_not_listed"] = stats.get("mcp_violations_not_listed", 0) + 1
    plain = Scenario("plain (default config; server started outside the project)", P1, N, {})
    scenarios = [
        (plain, 2),
        (Scenario("cfg-cwd (.pyscn.toml in the project; server started in the project)", P2, P2, CONFIG_BASE), 2 if thorough else 1),
        (Scenario("cfg-path (.pyscn.toml in the project; server started outside it)", P2, N, CONFIG_BASE), 2 if thorough else 1),
        (Scenario("cfg-env (PYSCN_CONFIG=<file> / --config <file>; default config in the project)", P1, N, CONFIG_BASE,
                  env_config=os.path.join(P2, ".pyscn.toml")), 2 if thorough else 1),
        (Scenario("cfgx-cwd (config also sets min_complexity, min_severity, similarity_threshold; server started in the project)", P3, P3, cfgx), 2 if thorough else 1),
    ]
    # a small project for the min_lines lattice around the built-in default 5 (needs a small min_nodes, which would flood the big project)
    cfgm = {"clones": {"min_nodes": 4, "min_lines": 6}}
    P4 = write_project(os.path.join(base, "cfgm"), {"tiny.py": TINY, "orders.py": DUP_A, "other.py": DUP_D}, cfgm)
    min_lines_sc = Scenario("cfgm-cwd ([clones] min_nodes = 4, min_lines = 6; server started in the project)", P4, P4, cfgm)
    # the same small project where [analysis] exclude_patterns drops one of the two copies and [clones] exclude_patterns names the
    # other files: the files are selected by [analysis] on both front ends, [clones] exclude_patterns selects nothing (was F70)
    cfge = {"clones": {"min_nodes": 4, "min_lines": 5, "exclude_patterns": ["tiny*.py", "orders*.py"]}, "analysis": {"exclude_patterns": ["other*.py"]}}
    P5 = write_project(os.path.join(base, "cfge"), {"tiny.py": TINY, "orders.py": DUP_A, "other.py": DUP_D}, cfge)
    excl_scs = [Scenario("cfge-cwd ([analysis] and [clones] exclude_patterns; server started in the project)", P5, P5, cfge),
                Scenario("cfge-path ([analysis] and [clones] exclude_patterns; server started outside the project)", P5, N, cfge)]
    # survey: the values present in the project give the boundary values of the option lattice
    rc, rep, err_, cmd = cli_analyze(base, ["--min-complexity", "1", "--min-severity", "info"], P2)
    if not rep:
        ck.broken_ties.append("MCP section: the command line produced no report for the generated project (rc=%s): %s" % (rc, err_[-300:]))
        return stats
    survey = {"complexities": sorted({r[4] for r in rows_complexity(rep.get("complexity"), P2) if r[4] > 2}),
              "similarities": sorted({p["similarity"] for p in (rep.get("clone") or {}).get("clone_pairs") or [] if p["similarity"] < 1}),
              "cbos": sorted({r[4] for r in rows_class(rep.get("cbo"), P2, "CouplingCount") if r[4] > 0})}
    stats["mcp_survey"] = {k: v[:12] for k, v in survey.items()}

    # ---- 1. start every server (one process per scenario: the calls of a scenario run concurrently in its worker pool) and every CLI run
    jobs = []
    for sc, level in scenarios + [(min_lines_sc, 0)] + [(x, 0) for x in excl_scs]:
        cases = case_list(sc, survey, level) if level else [("detect_clones", a, "", m) for a, m in (
            ({}, "full"), ({"min_lines": 4}, "full"), ({"min_lines": 5}, "full"), ({"min_lines": 6}, "full"), ({"min_lines": 7}, "full"),
            ({"min_lines": 4, "similarity_threshold": 0.7}, "summary"), ({"min_lines": 5, "similarity_threshold": 0.65}, "detailed"))]
        calls = [(tool, dict(args, path=os.path.join(sc.proj, target) if target else sc.proj, output_mode=mode)) for tool, args, target, mode in cases]
        fut = R.pool.submit(serve, sc.cwd, calls, sc.env_config)
        clis = []
        for tool, args, target, mode in cases:
            tgt = os.path.join(sc.proj, target) if target else sc.proj
            fl, cfg = cli_flags(sc, tool, args, None)
            main = R.cli(sc, fl, cfg, tgt)
            # the summary mode prints the lines of `pyscn check`: compare them literally (paths made relative)
            chk = None
            if mode == "summary" and not sc.env_config and not target:
                if tool == "check_complexity" and set(args) <= {"max_complexity"}:
                    chk = R.pool.submit(cli_check, base, ["--select", "complexity"] + (["--max-complexity", str(args["max_complexity"])] if args else []), tgt)
                elif tool == "find_dead_code" and args == {"min_severity": "critical"} and "dead_code" not in sc.cfg:
                    chk = R.pool.submit(cli_check, base, ["--select", "deadcode"], tgt)
            clis.append((main, chk))
        jobs.append((sc, cases, calls, fut, clis))
        stats["mcp_scenarios"].append({"name": sc.name, "cases": len(cases)})
    # relative paths: server and command line both started in the project, path "." / a file / a sub-directory (sequential: the
    # command line writes its report below its working directory)
    rel_sc = Scenario("rel (relative paths; both front ends started in the project)", PR, PR, CONFIG_BASE)
    rel_cases = [("check_complexity", {"min_complexity": 2}, ".", "full"), ("find_dead_code", {"min_severity": "info"}, "dead.py", "full"),
                 ("detect_clones", {"similarity_threshold": 0.7}, "dups", "full"), ("check_cohesion", {}, "hub.py", "full"),
                 ("get_health_score", {}, ".", "full"), ("analyze_code", {"analyses": ["complexity", "dead_code", "cbo", "lcom"]}, ".", "full")]
    rel_fut = R.pool.submit(serve, PR, [(t, dict(a, path=tg, output_mode=m)) for t, a, tg, m in rel_cases], None)

    def rel_cli():
        res = []
        for t, a, tg, m in rel_cases:
            fl, cfg = cli_flags(rel_sc, t, a, None)
            res.append(cli_analyze(base, fl, tg, cwd=PR))
        return res
    rel_cli_fut = R.pool.submit(rel_cli)
    # error cases
    ecases = error_cases(P1, empty_dir, txt)
    robust = [("check_complexity", {"path": P1, "min_complexity": "high", "max_complexity": None, "show_details": "yes", "max_results": "3"}),
              ("detect_clones", {"path": P1, "similarity_threshold": "0.9", "min_lines": 2.5, "group_clones": 1}),
              ("analyze_code", {"path": P1, "analyses": "complexity", "output_mode": 3}),
              ("analyze_code", {"path": P1, "analyses": [1, None, "complexity"]}),
              ("find_dead_code", {"path": P1, "min_severity": 3, "output_mode": "no-such-mode"}),
              ("check_coupling", {"path": P1, "min_cbo": -5, "max_results": -1, "output_mode": "detailed"}),
              ("check_cohesion", {"path": P1, "max_results": 1e12, "output_mode": "summary"}),
              ("get_health_score", {"path": P1, "unexpected": {"nested": [1, 2]}})]
    robust += [(t, [P1, 2]) for t in TOOLS]         # arguments that are not an object: every tool must answer an error
    e_fut = R.pool.submit(serve, N, [(t, dict(a, output_mode="full") if "path" in a and isinstance(a.get("path"), str) else a) for t, a, c, l in ecases] + robust, None)
    e_cli = [R.pool.submit(cli_analyze, base, argv, None) for t, a, argv, l in ecases]
    # histories: sequences of calls on ONE server process across projects with different configurations (harness/c20hist.py)
    import c20hist
    hist = c20hist.Section(ck, base, R, stats, violation, thorough)
    # list-valued configuration keys: a project whose configuration sets every list, then the project without configuration (harness/c20lists.py)
    import c20lists
    lists = c20lists.Section(ck, base, R, stats, violation, thorough)

    # ---- 2. decide
    def decide(sc, tool, args, target, mode, call_args, answer, main):
        stats["mcp_comparisons"][tool] += 1
        stats["mcp_modes"][mode] += 1
        rc, report, cerr, cmd = main
        rp = replay_of(sc, tool, call_args, cmd)
        if "dead" in answer or "rpc_error" in answer:
            violation("MCP %s gave no result (server crashed or protocol error) for arguments %s: %s" % (tool, json.dumps(call_args), str(answer)[:600]),
                         dict(rp, answer=answer))
            return
        if answer["is_error"] or not report or report.get(SECTION.get(tool, "summary")) is None:
            if answer["is_error"] and (rc != 0 or not report):
                stats["mcp_both_reject"] += 1
                return
            violation("MCP %s %s while the command line %s for the same path and options (%s)" % (
                tool, "fails (%s)" % answer["text"][:200] if answer["is_error"] else "answers",
                "succeeds" if rc == 0 and report else "fails (exit %s: %s)" % (rc, cerr[-200:]), json.dumps(call_args)), dict(rp, answer=answer["text"][:2000], cli_exit=rc))
            return
        try:
            m = json.loads(answer["text"])
        except Exception:
            violation("MCP %s answered text that is not JSON: %s" % (tool, answer["text"][:200]), dict(rp, answer=answer["text"][:2000]))
            return
        if tool in SINGLE and mode == "full" and rows_of(tool, m, sc.proj):
            stats["mcp_nonempty_findings"][tool] += 1
        elif tool not in SINGLE:
            stats["mcp_nonempty_findings"][tool] += 1
        diff = compare(sc, tool, args, mode, m, report)
        if diff is None:
            return
        violation("MCP %s returns different findings than the command line for the same path and options [%s; arguments %s; CLI: %s]: %s"
                     % (tool, sc.name.split(" ")[0], json.dumps(args), " ".join(cmd[1:]), diff), dict(rp, difference=diff))

    for sc, cases, calls, fut, clis in jobs:
        answers = fut.result()
        for (tool, args, target, mode), (ctool, cargs), answer, (main, chk) in zip(cases, calls, answers, clis):
            decide(sc, tool, args, target, mode, cargs, answer, main.result())
            if chk is not None and "text" in answer and not answer["is_error"]:
                crc, cerr, ccmd = chk.result()
                stats["mcp_check_line_comparisons"] += 1
                rx = RE_CX if tool == "check_complexity" else RE_DC
                want = sorted(l.replace(sc.proj + os.sep, "") for l in cerr.splitlines() if rx.match(l))
                try:
                    got = sorted(l.replace(sc.proj + os.sep, "") for l in json.loads(answer["text"]).get("issues") or [])
                except Exception:
                    got = None
                if got != want:
                    violation("MCP %s (summary) lists other issues than `pyscn %s` prints for the same path and options: %s" % (
                        tool, " ".join(ccmd[1:]), first_row_diff(got or [], want)), replay_of(sc, tool, cargs, ccmd, {"mcp_issues": got, "check_lines": want}))
    for (t, a, tg, m), answer, main in zip(rel_cases, rel_fut.result(), rel_cli_fut.result()):
        decide(rel_sc, t, a, tg, m, dict(a, path=tg, output_mode=m), answer, main)
    answers = e_fut.result()
    for (tool, args, argv, label), answer, fut in zip(ecases, answers, e_cli):
        stats["mcp_error_cases"][tool] += 1
        rc, report, cerr, cmd = fut.result()
        rp = replay_of(plain, tool, args, cmd, {"case": label})
        cli_crash = "panic:" in cerr or "goroutine " in cerr
        if "dead" in answer or "rpc_error" in answer or cli_crash:
            violation("invalid input '%s': %s" % (label, "the command line crashed: " + cerr[-400:] if cli_crash else
                                                     "MCP %s gave no result (server crashed or protocol error): %s" % (tool, str(answer)[:600])), dict(rp, answer=answer))
            continue
        cli_ok = rc == 0 and bool(report)
        if answer["is_error"] and not cli_ok:
            stats["mcp_both_reject"] += 1
        elif not answer["is_error"] and cli_ok:
            stats["mcp_both_accept"] += 1
            try:
                diff = compare(plain, tool, args, "full", json.loads(answer["text"]), report)
            except Exception as e:
                diff = "answer not comparable: %s" % e
            if diff:
                violation("invalid input '%s' is accepted by both front ends but MCP %s and the command line return different findings: %s" % (label, tool, diff),
                             dict(rp, difference=diff))
        elif (label == "not-a-python-file" and tool in NONPY_TOOLS and not answer["is_error"] and not cli_ok
              and ck.match_known({"tool": tool, "class": K_NONPY})):
            kf = ck.match_known({"tool": tool, "class": K_NONPY})
            ck.known_finding(kf)
            stats["mcp_known_finding_cases"][kf["id"]] = stats["mcp_known_finding_cases"].get(kf["id"], 0) + 1
        else:
            violation("invalid input '%s': MCP %s %s but the command line %s (%s)" % (
                label, tool, "rejects it (%s)" % answer["text"][:160] if answer["is_error"] else "accepts it",
                "accepts it" if cli_ok else "rejects it (exit %s)" % rc, " ".join(cmd[1:])), dict(rp, answer=answer.get("text", "")[:1500], cli_stderr=cerr[-800:]))
    for (tool, args), answer in zip(robust, answers[len(ecases):]):
        stats["mcp_error_cases"][tool] += 1
        if "dead" in answer or (isinstance(args, dict) and "rpc_error" in answer):
            violation("MCP %s gave no result for arguments of the wrong JSON type (server crashed or protocol error): %s" % (tool, str(answer)[:600]),
                      replay_of(plain, tool, args, None, {"answer": answer}))
        elif not isinstance(args, dict) and not (answer.get("is_error") or "rpc_error" in answer):
            violation("MCP %s accepts arguments that are not a JSON object: %s" % (tool, str(answer)[:300]), replay_of(plain, tool, args, None, {"answer": answer}))
    hist.decide()
    lists.decide()
    R.pool.shutdown()
    stats["mcp_seconds"] = round(time.time() - t0, 1)
    return stats
