"""Shared machinery of the clone-detection checks (C08, C09): fragment library, project
generator, driver requests, Coq term printers for Clone/Pairs.v, property conditions."""
import json
import os
from fractions import Fraction

import lib
from lib import cZ, cN, cQ, cbool, clist

REQ = ("From Coq Require Import ZArith QArith List.\nImport ListNotations.\n"
       "From PV Require Import Gen.DomainConst Gen.CloneConst Clone.Pairs Clone.PairsRun Clone.PairsPre.")

# ------------------------------------------------------------------------------------------
# fragment library: statement trees -> Python source
# ------------------------------------------------------------------------------------------
VARS = ["total", "count", "acc", "idx", "val", "res", "tmp", "flag"]
ALT = ["summe", "zahl", "speicher", "zeiger", "wert", "ergebnis", "hilf", "marke"]
OPS = ["+", "-", "*"]
CMP = ["<", ">", "==", "!=", "<=", ">="]


class FragGen:
    """Random function / class bodies with varied structure."""

    def __init__(self, rng):
        self.rng = rng

    def expr(self, depth=0):
        r = self.rng
        k = r.random()
        if k < 0.35 or depth > 1:
            return ("var", r.randrange(len(VARS)))
        if k < 0.6:
            return ("num", r.randint(0, 9))
        if k < 0.85:
            return ("bin", r.choice(OPS), self.expr(depth + 1), self.expr(depth + 1))
        return ("call", r.choice(["len", "abs", "int", "str"]), self.expr(depth + 1))

    def cond(self):
        return ("cmp", self.rng.choice(CMP), self.expr(1), self.expr(1))

    def stmt(self, depth):
        r = self.rng
        k = r.random()
        if depth >= 2 or k < 0.4:
            if r.random() < 0.75:
                return ("assign", r.randrange(len(VARS)), self.expr())
            return ("callst", r.choice(["print", "log", "emit"]), self.expr())
        if k < 0.6:
            return ("if", self.cond(), self.block(depth + 1, 1, 3), self.block(depth + 1, 1, 2) if r.random() < 0.5 else None)
        if k < 0.75:
            return ("for", r.randrange(len(VARS)), self.expr(1), self.block(depth + 1, 1, 3))
        if k < 0.87:
            return ("while", self.cond(), self.block(depth + 1, 1, 3))
        if k < 0.95:
            return ("try", self.block(depth + 1, 1, 2), self.block(depth + 1, 1, 2))
        return ("with", self.expr(1), self.block(depth + 1, 1, 2))

    def block(self, depth, lo, hi):
        return [self.stmt(depth) for _ in range(self.rng.randint(lo, hi))]

    def function(self, lo=3, hi=7):
        return {"kind": "def", "params": self.rng.randint(1, 3), "body": self.block(0, lo, hi) + [("ret", self.expr())]}

    def klass(self):
        return {"kind": "class", "methods": [self.function(2, 4) for _ in range(self.rng.randint(2, 3))]}

    # --- small edits (Type-3 variants)
    def edit(self, frag):
        r = self.rng
        import copy
        f = copy.deepcopy(frag)
        target = f if f["kind"] == "def" else r.choice(f["methods"])
        body = target["body"]
        for _ in range(r.randint(1, 2)):
            k = r.random()
            pos = r.randrange(len(body))
            if k < 0.4:
                body.insert(pos, self.stmt(1))
            elif k < 0.7 and len(body) > 2:
                del body[min(pos, len(body) - 2)]
            else:
                body[pos] = self.stmt(1) if body[pos][0] != "ret" else ("ret", self.expr())
        return f


def render_expr(e, names, shift):
    t = e[0]
    if t == "var":
        return names[e[1]]
    if t == "num":
        return str(e[1] + shift)
    if t == "bin":
        return "%s %s %s" % (render_expr(e[2], names, shift), e[1], render_expr(e[3], names, shift))
    if t == "call":
        return "%s(%s)" % (e[1], render_expr(e[2], names, shift))
    if t == "cmp":
        return "%s %s %s" % (render_expr(e[2], names, shift), e[1], render_expr(e[3], names, shift))
    raise ValueError(e)


def render_block(stmts, ind, names, shift, noise, out):
    pad = "    " * ind
    for s in stmts:
        noise(out, pad)
        t = s[0]
        if t == "assign":
            out.append("%s%s = %s" % (pad, names[s[1]], render_expr(s[2], names, shift)))
        elif t == "callst":
            out.append("%s%s(%s)" % (pad, s[1], render_expr(s[2], names, shift)))
        elif t == "ret":
            out.append("%sreturn %s" % (pad, render_expr(s[1], names, shift)))
        elif t == "if":
            out.append("%sif %s:" % (pad, render_expr(s[1], names, shift)))
            render_block(s[2], ind + 1, names, shift, noise, out)
            if s[3] is not None:
                out.append("%selse:" % pad)
                render_block(s[3], ind + 1, names, shift, noise, out)
        elif t == "for":
            out.append("%sfor %s in range(%s):" % (pad, names[s[1]], render_expr(s[2], names, shift)))
            render_block(s[3], ind + 1, names, shift, noise, out)
        elif t == "while":
            out.append("%swhile %s:" % (pad, render_expr(s[1], names, shift)))
            render_block(s[2], ind + 1, names, shift, noise, out)
        elif t == "try":
            out.append("%stry:" % pad)
            render_block(s[1], ind + 1, names, shift, noise, out)
            out.append("%sexcept ValueError:" % pad)
            render_block(s[2], ind + 1, names, shift, noise, out)
        elif t == "with":
            out.append("%swith ctx(%s):" % (pad, render_expr(s[1], names, shift)))
            render_block(s[2], ind + 1, names, shift, noise, out)
        else:
            raise ValueError(s)


def render(frag, name, rng=None, noise_p=0.0, renamed=False, shift=0, ind=0):
    """Source lines of one fragment. noise_p: probability of comment/blank lines before a statement."""
    names = ALT if renamed else VARS

    def noise(out, pad):
        if rng is None or noise_p <= 0:
            return
        while rng.random() < noise_p:
            out.append(rng.choice([pad + "# note %d" % rng.randint(0, 99), "", pad + "#"]))

    out = []
    pad = "    " * ind
    if frag["kind"] == "def":
        params = ", ".join(names[:frag["params"]])
        if ind > 0:
            params = "self, " + params
        out.append("%sdef %s(%s):" % (pad, name, params))
        if frag.get("doc"):
            out.append('%s    """%s"""' % (pad, frag["doc"]))
        render_block(frag["body"], ind + 1, names, shift, noise, out)
    else:
        out.append("%sclass %s:" % (pad, name))
        if frag.get("doc"):
            out.append('%s    """%s"""' % (pad, frag["doc"]))
        for k, m in enumerate(frag["methods"]):
            out += render(m, ("werk%d" if renamed else "method%d") % k, rng, noise_p, renamed, shift, ind + 1)
            out.append("")
        while out and out[-1] == "":
            out.pop()
    return out


PLACES = ["same_file", "other_file", "other_dir"]

# Where a copy may stand: at the top level or nested in a compound statement.  Fragment extraction
# (extractFragmentsRecursive) walks Children, Body, Orelse, Handlers and Finalbody.  The copy is indented one level
# deeper than the last header line.
WRAPS = {
    "except": ["try:", "    import fastpath", "except ImportError:"],
    "finally": ["try:", "    import fastpath", "finally:"],
    "exceptstar": ["try:", "    import fastpath", "except* ImportError:"],
    "except2": ["try:", "    import fastpath", "except ImportError:", "    fastpath = None", "except (OSError, ValueError) as exc:"],
    "finally_in_except": ["try:", "    import fastpath", "except ImportError:", "    try:", "        import slowpath", "    finally:"],
    "except_in_finally": ["try:", "    import fastpath", "finally:", "    try:", "        import slowpath", "    except ImportError:"],
    "except_in_with": ["with guard():", "    try:", "        import fastpath", "    except ImportError:"],
    "except_in_def": ["def install(registry):", "    try:", "        import fastpath", "    except ImportError:"],
    "except_in_loop_else": ["for name in os.listdir('.'):", "    pass", "else:", "    try:", "        import fastpath", "    except ImportError:"],
    "tryelse": ["try:", "    import fastpath", "except ImportError:", "    pass", "else:"],
    "trybody": None,   # try: <copy> / except ImportError: pass
    "with": ["with guard():"],
    "ifelse": ["if os.name == 'nt':", "    pass", "else:"],
}
HANDLER_WRAPS = ("except", "finally", "exceptstar", "except2", "finally_in_except", "except_in_finally", "except_in_with", "except_in_def",
                 "except_in_loop_else")


def wrap_lines(lines, wrap):
    """(header lines, indented lines, trailer lines) of a fragment nested in the compound statement `wrap`."""
    if wrap == "trybody":
        return ["try:"], [("    " + l if l.strip() else l) for l in lines], ["except ImportError:", "    pass"]
    head = list(WRAPS[wrap])
    pad = " " * (len(head[-1]) - len(head[-1].lstrip()) + 4)
    return head, [(pad + l if l.strip() else l) for l in lines], []


def side_rng(rng, salt=""):
    """A second generator derived from the state of `rng` WITHOUT drawing from it: additions to a generator use it so that the
    inputs an unchanged part produces for a given VERIF_SEED stay what they were (`salt`: a further, independent stream)."""
    import random
    import zlib
    return random.Random(zlib.crc32((salt + repr(rng.getstate()[1])).encode()))


def gen_project(rng, n_bases=3, heavy_noise_p=0.25, max_items=9, twins_p=0.5, wrap_p=0.0, force_wrap=None, doc_p=0.0, docedit_p=0.0):
    """A project: dict path -> text, plus the list of intended verbatim groups (by item name).
    Extras (drawn from side_rng, appended after everything else): doc_p = probability that a base fragment carries a docstring
    (its copies keep it), docedit_p = probability of one more copy of such a function that differs in the docstring text only;
    wrap_p = probability of a small extra function with a verbatim copy nested in a compound statement (WRAPS); force_wrap = that,
    in the given placement, for sure."""
    side = side_rng(rng)
    g = FragGen(rng)
    files = {"main.py": [], "util.py": [], "pkg/core.py": [], "pkg/sub/deep.py": []}
    order = list(files)
    items = []   # (name, path, relation, base)
    counter = [0]

    def place(frag, path, relation, base, wrap=None, noise_rng=None, **kw):
        counter[0] += 1
        name = ("Klasse%d" if frag["kind"] == "class" else "func%d") % counter[0]
        if relation in ("verbatim", "docedit"):      # a verbatim copy keeps the name
            name = [it["name"] for it in items if it["base"] == base and it["relation"] == "base"][0]
        lines = render(frag, name, noise_rng or rng, **kw)
        head, tail = [], []
        if wrap:
            head, lines, tail = wrap_lines(lines, wrap)
        start = len(files[path]) + 3 + len(head)   # two header lines, 1-based
        files[path] += head + lines + tail + ["", ""]
        items.append({"name": name, "path": path, "relation": relation, "base": base, "kind": frag["kind"], "start": start, "wrap": wrap,
                      "doc": frag.get("doc")})

    base_frags = {}
    for b in range(n_bases):
        if len(items) >= max_items:
            break
        frag = g.klass() if rng.random() < 0.25 else g.function(rng.choice([2, 3, 4]), rng.choice([4, 6, 8]))
        home = rng.choice(order)
        base_frags[b] = frag
        if doc_p and side.random() < doc_p:
            frag["doc"] = "Handle case %d of the batch." % b
        place(frag, home, "base", b)
        for _ in range(rng.randint(1, 2)):
            where = rng.choice(PLACES)
            path = home if where == "same_file" else rng.choice([p for p in order if p != home and (("/" in p) != ("/" in home) or where == "other_file")] or order)
            k = rng.random()
            if k < 0.5:
                np_ = rng.choice([0.0, 0.15, 0.3]) if rng.random() > heavy_noise_p else rng.choice([0.6, 0.75])
                place(frag, path, "verbatim", b, noise_p=np_)
            elif k < 0.75:
                place(frag, path, "renamed", b, renamed=True, shift=rng.randint(0, 3))
            else:
                place(g.edit(frag), path, "edited", b)
    for _ in range(rng.randint(0, 2)):
        place(g.function(2, 6), rng.choice(order), "unrelated", -1)
    if rng.random() < twins_p:
        # a fragment and its related-construct twin (see TWIN_KINDS below), either variant first in file order
        kinds = rng.choice(TWIN_MIXES)
        occ, nf = rng.randint(1, 3), rng.randint(2, 8)
        counter[0] += 1
        name = "twin%d" % counter[0]
        pa, pb = rng.sample(order, 2)
        for v, path in rng.sample([(0, pa), (1, pb)], 2):
            lines = twin_function(kinds, occ, nf, v, name)
            items.append({"name": name, "path": path, "relation": "twin", "base": -2, "kind": "def", "start": len(files[path]) + 3,
                          "twin_kinds": list(kinds), "variant": v})
            files[path] += lines + ["", ""]
    # ---- extras (side generator only)
    gs = FragGen(side)
    if force_wrap or (wrap_p and side.random() < wrap_p):
        # a small function (two fragments: the def and its loop) and a verbatim copy of it nested in a compound statement
        wrap = force_wrap or side.choice(sorted(WRAPS))
        v = lambda: side.randrange(len(VARS))
        body = [("assign", v(), gs.expr()), ("assign", v(), gs.expr()), ("for", v(), gs.expr(1), [("assign", v(), gs.expr()), ("callst", "log", gs.expr()), ("assign", v(), gs.expr())]),
                ("assign", v(), gs.expr()), ("callst", "emit", gs.expr()), ("assign", v(), gs.expr()), ("ret", gs.expr())]
        wf = {"kind": "def", "params": 2, "body": body}
        b = max(list(base_frags) + [0]) + 1
        home = side.choice(order)
        place(wf, home, "base", b, noise_rng=side)
        place(wf, side.choice([p for p in order if p != home]), "verbatim", b, wrap=wrap, noise_rng=side, noise_p=side.choice([0.0, 0.15, 0.3]))
    for b, frag in sorted(base_frags.items()):
        if frag.get("doc") and frag["kind"] == "def" and side.random() < docedit_p:
            place(dict(frag, doc="Process entry %d; see the manual." % b), side.choice(order), "docedit", b, noise_rng=side)
    texts = {p: "\n".join(["import os", ""] + ls) + "\n" for p, ls in files.items() if ls}
    return texts, items


# ------------------------------------------------------------------------------------------
# configurations
# ------------------------------------------------------------------------------------------
def f2q(x):
    return Fraction(x)  # exact value of the float64


def rand_thresholds(rng, sims):
    """t1 > t2 > t3 > t4 in [0,1]; boundaries taken from observed similarities where possible."""
    eps = 2.0 ** -40
    pool = sorted({round(s, 15) for s in sims if 0.05 < s < 1.0})
    for _ in range(50):
        if pool and rng.random() < 0.7:
            picks = []
            for _ in range(4):
                if rng.random() < 0.6:
                    s = rng.choice(pool)
                    # the observed value itself, not a rounded one
                    cands = [x for x in sims if round(x, 15) == s]
                    v = cands[0] + rng.choice([0.0, 0.0, eps, -eps])
                else:
                    v = rng.choice([0.5, 0.6, 0.65, 0.7, 0.75, 0.8, 0.85, 0.9, 0.95, 0.98, 1.0])
                picks.append(min(1.0, max(0.0, v)))
            t = sorted(set(picks), reverse=True)
        else:
            t = sorted({rng.choice([1.0, 0.98, 0.95, 0.9, 0.85, 0.8, 0.75, 0.7, 0.65, 0.6, 0.5, 0.4]) for _ in range(4)}, reverse=True)
        if len(t) == 4 and t[0] > t[1] > t[2] > t[3]:
            return t
    return [0.85, 0.75, 0.7, 0.65]


# ------------------------------------------------------------------------------------------
# driver
# ------------------------------------------------------------------------------------------
def service_cfg(req):
    """analyzer.CloneDetectorConfig as service.createDetectorConfig builds it from a CloneRequest echo."""
    return {
        "MinLines": req["min_lines"], "MinNodes": req["min_nodes"],
        "Type1Threshold": req["type1_threshold"], "Type2Threshold": req["type2_threshold"],
        "Type3Threshold": req["type3_threshold"], "Type4Threshold": req["type4_threshold"],
        "SimilarityThreshold": req["similarity_threshold"], "MaxEditDistance": req["max_edit_distance"],
        "IgnoreLiterals": req["ignore_literals"], "IgnoreIdentifiers": req["ignore_identifiers"],
        "SkipDocstrings": req["skip_docstrings"], "CostModelType": "python",
        "MaxClonePairs": 10000, "BatchSizeThreshold": 50, "BatchSizeLarge": 0, "BatchSizeSmall": 0, "LargeProjectSize": 0,
        "EnableDFAAnalysis": req["enable_dfa"], "EnableMultiDimensionalAnalysis": False, "EnableSemanticAnalysis": False,
        "EnableTextualAnalysis": False, "ReduceBoilerplateSimilarity": False, "BoilerplateMultiplier": 0,
        "UseLSH": False, "LSHSimilarityThreshold": req["lsh_similarity_threshold"], "LSHBands": req["lsh_bands"],
        "LSHRows": req["lsh_rows"], "LSHMinHashCount": req["lsh_hashes"],
    }


def driver_req(files, cfg, batch_sizes=(), lsh=(), table="full"):
    return {"op": "clone_pairs", "files": [{"path": p, "text": t} for p, t in files], "cfg": cfg,
            "batch_sizes": list(batch_sizes), "lsh": list(lsh), "table": table}


# ------------------------------------------------------------------------------------------
# Coq terms
# ------------------------------------------------------------------------------------------
class Coder:
    def __init__(self):
        self.m = {}

    def code(self, k):
        if k not in self.m:
            self.m[k] = len(self.m) + 1
        return self.m[k]


def coq_frag(i, f, files, trees, feats=None, lshfeats=None):
    return "(Build_frag %s %s %s %s %s %s %s %s %s)" % (
        cN(i), cN(files.code(f["file"])), cZ(f["start"]), cZ(f["end"]), cZ(f["size"]), cZ(f["lines"]),
        cN(trees.code(f.get("tree", "cand%d" % i))), clist([cN(x) for x in (feats or [])]), clist([cN(x) for x in (lshfeats or [])]))


TYPES = {1: "Type1", 2: "Type2", 3: "Type3", 4: "Type4"}


def lsh_threshold_for_model(thr, hashes):
    """EstimateJaccardSimilarity returns float64(matches) / float64(n) and the detector compares that float64 with the float64
    threshold; the model compares exact rationals.  The two agree for every match count iff the model's threshold is m0/n where m0 is
    the least match count whose float64 quotient reaches the (clamped) threshold -- e.g. threshold 0.8 and n = 100: float64(80)/float64(100)
    IS the float64 0.8 (not below it), although 4/5 is below the exact value of that float64."""
    n = hashes if hashes > 0 else 128
    t = min(1.0, max(0.0, float(thr)))
    m0 = next(m for m in range(n + 1) if float(m) / float(n) >= t)
    return Fraction(m0, n)


def coq_cfg(c):
    """c: dict with the model's cfg fields (floats are converted exactly; the LSH threshold via lsh_threshold_for_model)."""
    q = lambda x: cQ(x if isinstance(x, Fraction) else f2q(x))
    c = dict(c, lsh_thr=lsh_threshold_for_model(c["lsh_thr"], c["lsh_hashes"]))
    return "(Build_cfg %s %s %s %s %s %s %s %s %s %s %s %s %s %s %s %s %s %s %s %s %s %s)" % (
        cZ(c["min_lines"]), cZ(c["min_nodes"]), q(c["t1"]), q(c["t2"]), q(c["t3"]), q(c["t4"]), q(c["sim_thr"]),
        q(c["max_dist"]), cZ(c["max_pairs"]), cZ(c["batch_threshold"]), cZ(c["batch_large"]), cZ(c["batch_small"]),
        cZ(c["large_project"]), cbool(c["use_gate"]), cbool(c["use_lsh"]), q(c["lsh_thr"]), cZ(c["lsh_bands"]),
        cZ(c["lsh_rows"]), cZ(c["lsh_hashes"]), q(c["min_sim"]), q(c["max_sim"]),
        clist([TYPES[t] for t in c["enabled"]]))


def model_cfg_from_detector(d, min_sim=0.0, max_sim=1.0, enabled=(1, 2, 3, 4), use_gate=False, use_lsh=False):
    return dict(min_lines=d["MinLines"], min_nodes=d["MinNodes"], t1=d["Type1Threshold"], t2=d["Type2Threshold"],
                t3=d["Type3Threshold"], t4=d["Type4Threshold"], sim_thr=d["SimilarityThreshold"], max_dist=d["MaxEditDistance"],
                max_pairs=d["MaxClonePairs"], batch_threshold=d["BatchSizeThreshold"], batch_large=d["BatchSizeLarge"],
                batch_small=d["BatchSizeSmall"], large_project=d["LargeProjectSize"], use_gate=use_gate, use_lsh=use_lsh,
                lsh_thr=d["LSHSimilarityThreshold"], lsh_bands=d["LSHBands"], lsh_rows=d["LSHRows"], lsh_hashes=d["LSHMinHashCount"],
                min_sim=min_sim, max_sim=max_sim, enabled=list(enabled))


def coq_cells(res, t4):
    """similarity/distance cells and rejected gate cells; cells below Type4 are omitted when t4 > 0."""
    cells = [c for c in res["table"] if not (t4 > 0 and c["sim"] < t4)]
    cs = clist(["(%s, %s, %s, %s)" % (cN(c["i"]), cN(c["j"]), cQ(f2q(c["sim"])), cQ(f2q(c["dist"]))) for c in cells])
    gates = clist(["(%s, %s)" % (cN(c["i"]), cN(c["j"])) for c in res["table"] if not c["gate"]])
    return cs, gates


def coq_sigs(lsh_res, coder=None, only=None):
    """feature list -> signature table; values densely renumbered by `coder` (real values if coder is None)."""
    seen = {}
    for k, (fe, sg) in enumerate(zip(lsh_res["lshfeats"], lsh_res["sigs"])):
        if only is not None and k not in only:
            continue
        seen.setdefault(tuple(fe), sg)
    val = (lambda v: cN(coder.code(v))) if coder else (lambda v: cN(int(v, 16)))
    return clist(["(%s, %s)" % (clist([cN(x) for x in fe]), clist([val(v) for v in sg])) for fe, sg in seen.items()])


def frags_terms(res, lsh_res=None, files=None, trees=None):
    files = files or Coder()
    trees = trees or Coder()
    out = []
    for i, f in enumerate(res["frags"]):
        out.append(coq_frag(i, f, files, trees, f.get("feats") or [], lsh_res["lshfeats"][i] if lsh_res else []))
    return clist(out)


def pairs_of_model(v):
    """[(ida, idb, type)] from a parsed Coq value list of ((a, b), t) tuples."""
    out = []
    for e in v:
        (a, b), t = e if isinstance(e[0], tuple) else ((e[0], e[1]), e[2])
        out.append((a, b, t))
    return out


def upair(i, j, t=None):
    return (min(i, j), max(i, j)) if t is None else (min(i, j), max(i, j), t)


# ------------------------------------------------------------------------------------------
# property conditions evaluated on implementation output
# ------------------------------------------------------------------------------------------
def band_of(s, t):
    if s >= t[0]:
        return 1
    if s >= t[1]:
        return 2
    if s >= t[2]:
        return 3
    if s >= t[3]:
        return 4
    return 0


def line_prefilter_rejects(l1, l2):
    d = abs(l1 - l2)
    return 2 * d > l1 and 2 * d > l2


def size_prefilter_rejects(s1, s2):
    return (s1 + s2) > 0 and 4 * abs(s1 - s2) > (s1 + s2)


def overlap(a, b):
    return a["file"] == b["file"] and not (a["end"] < b["start"] or b["end"] < a["start"])


def norm(res):
    """Go nil slices arrive as null."""
    if "error" in res:
        return res
    for k in ("frags", "candidates", "table", "exh_raw", "detect", "lsh"):
        if res.get(k) is None:
            res[k] = []
    for k, v in list((res.get("batched") or {}).items()):
        if v is None:
            res["batched"][k] = []
    for l in res["lsh"]:
        for k in ("pairs", "lshfeats", "sigs", "bandkeys"):
            if l.get(k) is None:
                l[k] = []
    for f in res["frags"]:
        if f.get("feats") is None:
            f["feats"] = []
    return res


# ------------------------------------------------------------------------------------------
# "related construct" twins: two fragments that differ only in node types the Python cost
# model treats as related (apted_cost.go areRelatedNodeTypes) or as of the same category.
# The rename discount must be the same in both directions, otherwise the similarity of a pair
# depends on which fragment comes first (file order / orientation inside the pair).
# ------------------------------------------------------------------------------------------
def related_pairs_from_source(repo):
    """The relatedPairs table of PythonCostModel.areRelatedNodeTypes, read from the Go source."""
    import re
    try:
        src = open(os.path.join(repo, "internal", "analyzer", "apted_cost.go")).read()
    except OSError:
        return None
    m = re.search(r"func \(c \*PythonCostModel\) areRelatedNodeTypes.*?relatedPairs := \[\]\[2\]string\{(.*?)\n\t\}", src, re.S)
    if not m:
        return None
    return [tuple(p) for p in re.findall(r'\{"(\w+)",\s*"(\w+)"\}', m.group(1))]


# kind -> (node types of variant 0 / variant 1, needs async def in variant 1)
TWIN_KINDS = {
    "for": (("For", "AsyncFor"), True),
    "with": (("With", "AsyncWith"), True),
    "def": (("FunctionDef", "AsyncFunctionDef"), True),
    "binunary": (("BinOp", "UnaryOp"), False),
    "listtuple": (("List", "Tuple"), False),
    "comp": (("ListComp", "GeneratorExp"), False),
    "ififexp": (("If", "IfExp"), False),
    # same category, not in the related table
    "setlist": (("Set", "List"), False),
    "setcomp": (("SetComp", "ListComp"), False),
    "whilefor": (("While", "For"), False),
}
# relatedPairs entry -> twin kind that exercises it
RELATED_TO_KIND = {("FunctionDef", "AsyncFunctionDef"): "def", ("For", "AsyncFor"): "for", ("With", "AsyncWith"): "with",
                   ("BinOp", "UnaryOp"): "binunary", ("List", "Tuple"): "listtuple", ("ListComp", "GeneratorExp"): "comp",
                   ("If", "IfExp"): "ififexp"}


TWIN_MIXES = [["for"], ["with"], ["with", "for"], ["binunary"], ["listtuple"], ["comp"], ["ififexp"], ["def"], ["setlist"], ["setcomp"],
              ["whilefor"], ["for", "listtuple"], ["with", "comp", "binunary"]]


def twin_occurrence(kind, k, v):
    """Source lines (body indentation) of occurrence k of a construct, variant v in {0, 1}."""
    a = "async " if v else ""
    if kind == "for":
        return ["%sfor item%d in source.rows(%d):" % (a, k, k), "    total = total + item%d" % k, "    sink.write(item%d)" % k]
    if kind == "with":
        return ["%swith sink.batch(%d) as handle%d:" % (a, k, k), "    handle%d.push(total)" % k, "    log.debug(handle%d)" % k]
    if kind == "def":
        return ["log.debug(total + %d)" % k]
    # Expression kinds: the converted tree (apted_tree.go ConvertAST) follows only Children/Body/Orelse/
    # Finalbody/Handlers, so an expression reaches it as an expression *statement* or as an element
    # (Children) of a list/tuple/set display, not as the value of an assignment.
    if kind == "binunary":
        return ["[%s, failed, %d]" % (("-total" if v else "total - %d" % k), k), ("-failed" if v else "failed + %d" % k)]
    if kind == "listtuple":
        return [("(total, failed, %d)" if v else "[total, failed, %d]") % k,
                "[%s, %s]" % (("(total, %d)" if v else "[total, %d]") % k, ("(failed, %d)" if v else "[failed, %d]") % k)]
    if kind == "comp":
        inner = "conv(x) for x in source.rows(%d)" % k
        return [("(%s)" if v else "[%s]") % inner, "[%s, total]" % (("(%s)" if v else "[%s]") % inner)]
    if kind == "ififexp":
        if v:
            return ["total if total > %d else failed" % k, "sink.write(%d)" % k]
        return ["if total > %d:" % k, "    total", "else:", "    failed", "sink.write(%d)" % k]
    if kind == "setlist":
        return [("[total, failed, %d]" if v else "{total, failed, %d}") % k,
                "[%s, total]" % (("[failed, %d]" if v else "{failed, %d}") % k)]
    if kind == "setcomp":
        inner = "conv(x) for x in source.rows(%d)" % k
        return [("[%s]" if v else "{%s}") % inner, "[%s, failed]" % (("[%s]" if v else "{%s}") % inner)]
    if kind == "whilefor":
        if v:
            return ["for step%d in source.rows(%d):" % (k, k), "    total = total + 1", "    sink.write(total)"]
        return ["while total < %d:" % (k + 3), "    total = total + 1", "    sink.write(total)"]
    raise ValueError(kind)


FILLER = ['total = 0', 'failed = 0', 'log.info("export started")', 'sink.open(source)', 'failed = failed + source.errors()',
          'log.info("half way")', 'total = total + source.count()', 'sink.flush()', 'log.debug(total)', 'source.close()']


def twin_function(kinds, occ, n_fill, v, name="export_records"):
    """One function: `occ` occurrences of each construct of `kinds` (variant v) between shared filler statements."""
    need_async = v == 1 and any(TWIN_KINDS[k][1] for k in kinds)
    lines = ["%sdef %s(source, sink, log):" % ("async " if need_async else "", name)]
    body = list(FILLER[:max(2, n_fill // 2)])
    n = 0
    for k in kinds:
        for _ in range(occ):
            n += 1
            body += twin_occurrence(k, n, v)
    body += FILLER[max(2, n_fill // 2):n_fill]
    body.append("return total - failed")
    return lines + ["    " + l for l in body]


# ------------------------------------------------------------------------------------------
# "size ratio" family: functions built around try / except / finally with IDENTICAL handler and
# finally blocks and a try body of k statements.  CodeFragment.Size (calculateASTSize) counts only
# the nodes reachable through Children/Body/Orelse, i.e. NOT the handler and finally bodies, while the
# APTED tree (ConvertAST) contains them.  Two members therefore have Size k+3 / k'+3 (their inner
# `try` statements k+1 / k'+1) although most of their trees is shared: Size ratios between 1.5 and 2
# with similarities of 0.74 .. 0.9, i.e. pairs that sit on both sides of the size pre-filter of
# shouldCompareFragments (4*|s1-s2| > s1+s2, ratio 5/3) and are still clones at the default thresholds.
# Comment padding changes only the line count (line-count pre-filter: longer > 2 * shorter).
# ------------------------------------------------------------------------------------------
TRY_STMTS = ['handle = source.open(path)', 'header = handle.readline()', 'fields = header.split(",")', 'rows = []',
             'width = len(fields)', 'log.debug(width)', 'total = len(rows)', 'log.debug(total)', 'check_width(rows, width)',
             'record_stats(path, total)', 'rows.append(fields)', 'handle.seek(0)', 'stamp = clock.now()', 'audit.begin(path, stamp)',
             'count = 0', 'count += 1', 'audit.record(path, count)', 'sink.flush()']


def try_function(name, k, pad=0):
    """def with a try body of k statements (2 <= k <= 19); `pad` comment lines inside the try body."""
    lines = ["def %s(source, path, log):" % name, "    handle = None", "    try:"]
    lines += ["        # padding %d" % i for i in range(pad)]
    lines += ["        " + s for s in TRY_STMTS[:k - 1]]
    lines.append("        return fields, rows")
    lines += ["    except FileNotFoundError as exc:", '        log.warning("missing file %s", path)', '        log.debug("details: %r", exc)',
              '        notify("missing", path)', "        return None",
              "    except PermissionError as exc:", '        log.error("denied %s", path)', '        log.debug("details: %r", exc)',
              '        notify("denied", path)', "        raise",
              "    finally:", "        if handle is not None:", "            handle.close()", '        log.info("done with %s", path)', "        release(path)"]
    return lines


# Sizes k+3: 5, 6, 8, 9, 10.  (2,5) -> 5/8 inside (1.5, 5/3); (2,6) -> 5/9 inside (5/3, 2); (3,7) -> 6/10 exactly 5/3 (the filter's edge,
# accepted); (3,6) -> 6/9 exactly 1.5 and (2,7) -> 5/10 exactly 2 (the edges of a filter that would look at one fragment's size only).
RATIO_KS = [2, 3, 5, 6, 7]


def size_class(s1, s2):
    """Where a pair of sizes lies relative to the size pre-filter (symmetric by definition)."""
    lo, hi = min(s1, s2), max(s1, s2)
    if lo <= 0:
        return "degenerate"
    if 4 * (hi - lo) == lo + hi:
        return "edge-5/3"
    if 2 * hi <= 3 * lo:
        return "le-1.5"
    if 4 * (hi - lo) < lo + hi:
        return "in-(1.5,5/3)"
    if hi < 2 * lo:
        return "in-(5/3,2)"
    if hi == 2 * lo:
        return "edge-2"
    return "gt-2"


def line_class(l1, l2):
    lo, hi = min(l1, l2), max(l1, l2)
    if hi == 2 * lo:
        return "edge-2"
    if hi == 2 * lo + 1:
        return "edge-2+1"
    return "gt-2" if hi > 2 * lo else "lt-2"


def straight_function(name, n, seed=0, pad=0):
    """A straight-line function (exactly one fragment): n assignments, `pad` comment lines; n + 2 + pad lines."""
    return (["def %s(alpha, beta):" % name] + ["    # padding %d" % i for i in range(pad)] +
            ["    value%d = alpha * %d + beta" % (q, q + seed) for q in range(n)] + ["    return value0 - value%d" % (n - 1)])


def gen_ratio_project(rng, pads=True, fillers=None, per_file=None):
    """Files (in the order to be analysed) holding the size-ratio family so that each Size-ratio class inside (1.5, 2) occurs with the
    smaller fragment first AND with the larger fragment first (the smallest member appears twice: at the front and at the end);
    optionally a straight-line function with padded copies on both sides of the line-count filter (2x - 1, 2x, 2x + 1 lines), before
    and after the plain one; `fillers` one-fragment functions in front shift the batch alignment of everything behind them."""
    mid = list(RATIO_KS[1:])
    rng.shuffle(mid)
    k0 = RATIO_KS[0]
    members = [("load%da" % k0, try_function("load%da" % k0, k0), dict(k=k0))]
    members += [("load%d" % k, try_function("load%d" % k, k), dict(k=k)) for k in mid]
    members += [("load%db" % k0, try_function("load%db" % k0, k0), dict(k=k0))]
    if pads:
        n = rng.choice([5, 6, 7])
        base = n + 2
        mk = lambda tag: [("pad%d%s" % (p, tag), straight_function("pad%d%s" % (p, tag), n, 3, p), dict(lines=base + p)) for p in (base - 1, base, base + 1)]
        before, after = mk("a"), mk("b")
        rng.shuffle(before)
        rng.shuffle(after)
        block = before + [("pad0", straight_function("pad0", n, 3, 0), dict(lines=base))] + after
        at = rng.randint(0, len(members))
        members = members[:at] + block + members[at:]
    n_fill = rng.randint(0, 2) if fillers is None else fillers
    members = [("fill%d" % i, straight_function("fill%d" % i, 6, 10 * (i + 1)), dict(filler=True)) for i in range(n_fill)] + members
    per_file = per_file or rng.choice([1, 2, 3])
    files, meta = [], []
    for fi in range(0, len(members), per_file):
        path = "r%02d.py" % (fi // per_file)
        lines = ["import os", ""]
        for name, src, m in members[fi:fi + per_file]:
            meta.append(dict(m, name=name, path=path, start=len(lines) + 1))
            lines += src + ["", ""]
        files.append((path, "\n".join(lines) + "\n"))
    return files, meta


def gen_twins(rng, kinds, occ=None, n_fill=None):
    """Two files holding a fragment and its related-construct twin. Returns (texts, meta)."""
    occ = occ or rng.randint(1, 4)
    n_fill = n_fill if n_fill is not None else rng.randint(2, 9)
    pa, pb = rng.choice([("a.py", "b.py"), ("a.py", "pkg/b.py"), ("pkg/a.py", "b.py")])
    hdr = ["# generated twins: %s x%d" % ("+".join(kinds), occ), ""]
    texts = {pa: "\n".join(hdr + twin_function(kinds, occ, n_fill, 0)) + "\n",
             pb: "\n".join(hdr + twin_function(kinds, occ, n_fill, 1)) + "\n"}
    return texts, dict(kinds=list(kinds), occ=occ, n_fill=n_fill, a=pa, b=pb, start=3)


# ------------------------------------------------------------------------------------------
# twins on both sides of batch boundaries (C09): the batch loop compares a cross-batch pair as
# (later, earlier), the unbatched and the LSH loops as (earlier, later).  For every kind one file each
# with A (variant 0), B (its related-construct twin, variant 1) and C (a verbatim copy of A):
# (A, B) has variant 0 first, (B, C) variant 1 first, (A, C) is a structurally identical pair.
# layout "spread": all A, then all B, then all C (with >= 7 kinds every twin pair is more than a
# batch apart for batch sizes <= 7); layout "adjacent": A, B, C of a kind in a row (with no filler in
# front and batch size 3 every twin pair shares a batch; other batch sizes cut through the rows).
# ------------------------------------------------------------------------------------------
def gen_twin_batches(rng, kinds, layout, fillers=0):
    """Returns (files in analysis order, meta): meta[kind] = {"A": path, "B": path, "C": path, "occ", "n_fill", "start"}."""
    rows, meta = [], {}
    for k in kinds:
        occ, nf = rng.randint(1, 2), rng.randint(3, 7)
        name = "export_%s" % k
        hdr = ["import os", ""]
        mk = lambda v: "\n".join(hdr + twin_function([k], occ, nf, v, name)) + "\n"
        sub = rng.choice(["", "pkg/"])
        row = {"A": ("%sa_%s.py" % (sub, k), mk(0)), "B": ("tw/b_%s.py" % k, mk(1)), "C": ("copy/c_%s.py" % k, mk(0))}
        rows.append(row)
        meta[k] = dict(occ=occ, n_fill=nf, start=3, **{r: row[r][0] for r in "ABC"})
    if layout == "spread":
        files = [r[x] for x in "ABC" for r in rows]
    else:
        files = [r[x] for r in rows for x in "ABC"]
    fill = [("fill%d.py" % i, "import os\n\n" + "\n".join(straight_function("fill%d" % i, 6, 10 * (i + 1))) + "\n") for i in range(fillers)]
    return fill + files, meta


# ------------------------------------------------------------------------------------------
# a project with more than 100 fragments (C08): above BatchSizeThreshold = 50 the detector batches, with
# the CLI's batch size of 100 the fragments from the 101st on are compared with all earlier ones as
# (later, earlier).  Families of a small function: the base, a verbatim copy with comment noise, a renamed
# copy and a chain of edits (edit of edit of ...), i.e. similarities from 1.0 downwards inside a family
# and low ones across families; members shuffled over many small files so that family members land on
# both sides of the batch boundary.
# ------------------------------------------------------------------------------------------
def gen_family_files(rng, n_families, per_file=3, chain=3):
    """[(path, text)] and items [{name, path, start, family, relation}] (relation: base / verbatim / renamed / edit<k>)."""
    g = FragGen(rng)
    funcs = []
    for b in range(n_families):
        base = g.function(2, 5)
        fam = [("base", base, {}), ("verbatim", base, {"noise_p": rng.choice([0.1, 0.2])}), ("renamed", base, {"renamed": True, "shift": rng.randint(0, 2)})]
        e = base
        for k in range(chain):
            e = g.edit(e)
            fam.append(("edit%d" % k, e, {}))
        funcs += [("fam%d_%s" % (b, rel), f, kw, b, rel) for rel, f, kw in fam]
    rng.shuffle(funcs)
    files, items = [], []
    for i in range(0, len(funcs), per_file):
        path = "%sm%02d.py" % (("", "pkg/", "pkg/sub/")[(i // per_file) % 3], i // per_file)
        lines = ["import os", ""]
        for name, f, kw, b, rel in funcs[i:i + per_file]:
            items.append(dict(name=name, path=path, start=len(lines) + 1, family=b, relation=rel))
            lines += render(f, name, rng, **kw) + ["", ""]
        files.append((path, "\n".join(lines) + "\n"))
    return files, items
