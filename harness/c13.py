"""C13 — CBO counts each coupled class once."""
import copy
import os

import lib
import classgen as cg

REQ = ("From Coq Require Import ZArith NArith List String.\nImport ListNotations.\n"
       "From PV Require Import Class.Syntax Class.SetK Class.CBO Class.CBORun.\nOpen Scope N_scope.")
RISK = {"low": 0, "medium": 1, "high": 2}
EXPR_POS = [p[0] for p in cg.POSITIONS if p[2] in ("e",)]          # positions that can hold an instantiation
TYPING1 = ["List", "Optional", "Set", "Sequence", "list"]
TYPING2 = ["Dict", "Tuple", "dict"]


def spec_risk(low, med, n):
    return 0 if n <= low else 1 if n <= med else 2


# ------------------------------------------------------------------------------------------
# import forms: how a class named by an instantiation / base / annotation is made available
# returns (imports, other classes, cref, counted-by-the-property?)
# ------------------------------------------------------------------------------------------
FORMS = ["from", "fromas", "local", "mod", "modas", "unbound", "unbound_qual", "builtin_type", "builtin_func", "self"]
COUNTED_INST = {"from", "fromas", "local", "mod", "modas"}


def form_ref(form, dep, self_name):
    if form == "from":
        return [("from", dep)], [], ("", dep)
    if form == "fromas":
        return [("fromas", "Orig" + dep, dep)], [], ("", dep)
    if form == "local":
        return [], [dep], ("", dep)
    if form == "mod":
        return [("mod", "pkg" + dep.lower())], [], ("pkg" + dep.lower(), dep)
    if form == "modas":
        return [("modas", "package" + dep.lower(), "pk" + dep.lower())], [], ("pk" + dep.lower(), dep)
    if form == "unbound":
        return [], [], ("", "helper" + dep)
    if form == "unbound_qual":
        return [], [], ("zz" + dep.lower(), dep)
    if form == "builtin_type":
        return [], [], ("", "dict")
    if form == "builtin_func":
        return [], [], ("", "len")
    return [], [], ("", self_name)


def mk_case(file, cls, kind, tags, inc=False, low=None, med=None):
    return {"file": file, "cls": cls, "kind": kind, "tags": tags, "inc": inc, "low": low, "med": med}


def case_src(c):
    """the .py text of a case; "functions" = plain module-level functions of the file (no class, no import: invisible to Class/CBO.v)"""
    if "src" in c:
        return c["src"]
    src = cg.file_src(c["file"], c["cls"])
    for fn in c.get("functions") or []:
        src += "\n\ndef %s(*args, **kwargs):\n    return None\n" % fn
    return src


def position_matrix():
    """every position x every import form, one instantiation per class"""
    out = []
    for pos in EXPR_POS + ["PNestedDefDecorator"]:
        for form in FORMS:
            imps, classes, ref = form_ref(form, "Dep", "K")
            m = (("inst", ref), pos)
            anchor = cg.POS[pos][1]
            if anchor == "c":
                members = [("stmt", m), ("method", dict(name="run", decos=[], params=[], ret=None, body=[]))]
            else:
                members = [("method", dict(name="run", decos=[], params=[], ret=None, body=[m]))]
            cls = dict(name="K", bases=[], members=members)
            out.append(mk_case(dict(imports=imps, classes=classes), cls, "position", {"position": pos, "form": form}))
    return out


# ------------------------------------------------------------------------------------------
# a mention hidden inside another mention's call: host x slot x statement context
# ------------------------------------------------------------------------------------------
ASSIGN_LIKE = ["PAssignValue", "PAugAssignValue", "PAnnAssignValue", "PAttrAssignValue", "PAttrAugAssignValue", "PAttrAnnAssignValue",
               "PSubscriptAssignValue", "PChainAssignValue", "PTupleAssignValue", "PReturnValue", "PBody", "PClassAssignValue", "PClassBody",
               "PYieldValue", "PWalrusValue"]
HOSTS = ["counted", "counted_local", "function", "selfcall", "builtin"]
ASSIGN_LIKE_M = [p for p in ASSIGN_LIKE if cg.POS[p][1] == "m"]


def host_kind(host):
    """(imports, classes, kind) of the call that hosts the nested mention"""
    if host == "counted":
        return [("from", "Host")], [], ("inst", ("", "Host"))
    if host == "counted_local":
        return [], ["Host"], ("inst", ("", "Host"))
    if host == "function":
        return [], [], ("inst", ("", "make_host"))
    if host == "selfcall":
        return [], [], ("call", "self", "build")
    return [], [], ("inst", ("", "dict"))


def place(m):
    """members holding the single mention m"""
    if cg.POS[m[1]][1] == "c":
        return [("stmt", m), ("method", dict(name="run", decos=[], params=[], ret=None, body=[]))]
    return [("method", dict(name="run", decos=[], params=[], ret=None, body=[m]))]


def nested_matrix():
    out = []
    inner = (("inst", ("", "Inner")), [])
    positions = EXPR_POS + ["PNestedDefDecorator"]
    rot = 0
    for pos in positions:
        if pos in ASSIGN_LIKE:
            combos = [(h, sl) for h in HOSTS for sl in cg.SLOTS]
        else:
            # every (host, slot) pair is covered several times across the remaining positions
            all_pairs = [(h, sl) for h in HOSTS for sl in cg.SLOTS]
            combos = [all_pairs[(rot + 7 * i) % len(all_pairs)] for i in range(4)]
            rot += 3
        for host, slot in combos:
            imps, classes, hk = host_kind(host)
            if host == "selfcall" and cg.POS[pos][1] != "m":
                hk = ("call", "other", "build")
            m = (hk, pos, [(slot, inner)])
            cls = dict(name="K", bases=[], members=place(m))
            out.append(mk_case(dict(imports=imps + [("from", "Inner")], classes=classes), cls, "nested",
                               {"position": pos, "form": "nested", "host": host, "slot": slot}))
    # deeper and wider: Host(Mid(Inner()), kw0=Other(*[Deep()])), one more argument raises the count by one
    for pos in ASSIGN_LIKE:
        for host in ("counted", "function", "selfcall"):
            imps, classes, hk = host_kind(host)
            if host == "selfcall" and cg.POS[pos][1] != "m":
                continue
            deep = (("inst", ("", "Deep")), [])
            subs = [("SArg", (("inst", ("", "Mid")), [("SArg", inner)])),
                    ("SKeyword", (("inst", ("", "Other")), [("SStarArg", (("inst", ("", "make_list")), [("SListArg", deep)]))]))]
            for extra in (False, True):
                ss = subs + ([("SArg", (("inst", ("", "Extra")), []))] if extra else [])
                m = (hk, pos, ss)
                cls = dict(name="K", bases=[], members=place(m))
                f = dict(imports=imps + [("from", x) for x in ("Inner", "Mid", "Deep")] + [("fromas", "OrigExtra", "Extra")], classes=classes + ["Other"])
                out.append(mk_case(f, cls, "nested", {"position": pos, "form": "nested-deep", "host": host, "slot": "mixed", "extra": extra}))
    return out


def shapes(ref, other):
    r = ("ref", ref)
    return [("plain", r), ("gen1", ("gen1", "List", r)), ("optional", ("gen1", "Optional", r)),
            ("gen2", ("gen2", "Dict", ("ref", ("", "str")), r)), ("union_none", ("union", r, ("none",))),
            ("union", ("union", ("ref", other), r)), ("nested", ("gen1", "List", ("gen2", "Dict", r, ("union", r, ("ref", other))))),
            ("lower_generic", ("gen1", "list", r)), ("string", ("str",)), ("none", ("none",)),
            ("generic_in_union", ("union", ("gen1", "List", r), ("none",))), ("generic_left_of_union", ("union", ("gen1", "List", ("ref", other)), r)), ("generic2_in_union", ("union", ("ref", other), ("gen2", "Dict", ("ref", ("", "str")), r))),
            ("generic_right_of_union", ("union", ("ref", other), ("gen1", "List", r))), ("generic_mid_union3", ("union", ("union", ("ref", other), ("gen1", "List", r)), ("none",))),
            ("generic_first_union3", ("union", ("union", ("gen1", "List", r), ("ref", other)), ("none",))), ("generics_both_sides", ("union", ("gen1", "List", ("ref", other)), ("gen2", "Dict", ("ref", ("", "str")), r))),
            ("union_in_generic_in_union", ("union", ("gen1", "Optional", ("union", r, ("gen1", "List", ("ref", other)))), ("none",))),
            ("qualified_container", ("gen1", "typing.List", r)), ("qualified_container2_in_union", ("union", ("ref", other), ("gen2", "typing.Dict", ("ref", ("", "str")), r)))]


def annotation_matrix():
    out = []
    forms = ["from", "fromas", "local", "mod", "modas", "unbound", "unbound_qual", "builtin_type", "self"]
    for form in forms:
        imps, classes, ref = form_ref(form, "Dep", "K")
        if form == "unbound":
            ref = ("", "Undefined")        # any class named in an annotation counts, imported or not
        # base class
        cls = dict(name="K", bases=[ref] if form != "self" else [("", "object")], members=[("method", dict(name="run", decos=[], params=[], ret=None, body=[]))])
        out.append(mk_case(dict(imports=imps, classes=classes), cls, "base", {"position": "base", "form": form}))
        cls = dict(name="K", bases=[("", "Other"), ref, ("", "Exception")], members=[])
        out.append(mk_case(dict(imports=imps, classes=classes + ["Other"]), cls, "base", {"position": "base", "form": form}))
        for sname, t in shapes(ref, ("", "Other")):
            for place in ("attr", "param", "return"):
                if place == "attr":
                    members = [("attr", "field", t), ("method", dict(name="run", decos=[], params=[], ret=None, body=[]))]
                elif place == "param":
                    members = [("method", dict(name="run", decos=[], params=[None, t], ret=None, body=[]))]
                else:
                    members = [("method", dict(name="run", decos=["property"], params=[], ret=t, body=[]))]
                cls = dict(name="K", bases=[], members=members)
                out.append(mk_case(dict(imports=imps, classes=classes + ["Other"]), cls, "annotation",
                                   {"position": place, "form": form, "shape": sname}))
    return out


# ------------------------------------------------------------------------------------------
# random classes and metamorphic variants
# ------------------------------------------------------------------------------------------
def rand_class(rng, allow_qualified=True):
    pool = []
    imports, classes = [], []
    forms = ["from", "fromas", "local", "unbound", "builtin_type", "builtin_func", "self"] + (["mod", "modas"] if allow_qualified else [])
    for i in range(rng.randint(2, 7)):
        form = rng.choice(forms)
        imps, cl, ref = form_ref(form, "D%d" % i, "Klass")
        imports += [x for x in imps if x not in imports]
        classes += [x for x in cl if x not in classes]
        pool.append((form, ref))

    def rref():
        return rng.choice(pool)[1]

    def rty(depth=0):
        k = rng.random()
        if k < 0.45 or depth > 2:
            return ("ref", rref())
        q = "typing." if rng.random() < 0.25 else ""
        if k < 0.6:
            return ("gen1", q + rng.choice(TYPING1[:4]) if q else rng.choice(TYPING1), rty(depth + 1))
        if k < 0.7:
            return ("gen2", q + rng.choice(TYPING2[:2]) if q else rng.choice(TYPING2), rty(depth + 1), rty(depth + 1))
        if k < 0.85:
            # operands in source order; any of them may be a generic
            ops = [rng.choice([("ref", rref()), ("ref", rref()), ("none",)]) for _ in range(rng.randint(2, 3))]
            for i in range(len(ops)):
                if rng.random() < 0.3:
                    ops[i] = ("gen1", rng.choice(TYPING1), rty(depth + 1)) if rng.random() < 0.6 else ("gen2", rng.choice(TYPING2), rty(depth + 1), rty(depth + 1))
            t = ops[0]
            for x in ops[1:]:
                t = ("union", t, x)
            return t
        return rng.choice([("none",), ("str",)])

    def rkind():
        k = rng.random()
        if k < 0.7:
            return ("inst", rref())
        if k < 0.85:
            return ("attr", "self", rng.choice(["x", "y", "D0"]))
        objs = ["self", "other"] + [r[1] for fo, r in pool if fo in ("from", "fromas")]
        return ("call", rng.choice(objs), rng.choice(["run", "D1"]))

    def rnode(depth):
        k = rkind()
        subs = []
        if k[0] != "attr" and depth < 3 and rng.random() < (0.45 if depth == 0 else 0.3):
            subs = [(rng.choice(cg.SLOTS), rnode(depth + 1)) for _ in range(rng.randint(1, 3))]
        return (k, subs)

    def rmention():
        k, subs = rnode(0)
        return (k, rng.choice(EXPR_POS), subs) if subs else (k, rng.choice(EXPR_POS))

    members = []
    for j in range(rng.randint(1, 5)):
        k = rng.random()
        if k < 0.25:
            members.append(("attr", "f%d" % j, rty()))
        elif k < 0.35:
            m = rmention()
            members.append(("stmt", (m[0], rng.choice(["PClassBody", "PClassAssignValue"])) + tuple(m[2:])))
        else:
            body = []
            for _ in range(rng.randint(0, 4)):
                m = rmention()
                if cg.POS[m[1]][1] == "c":
                    m = (m[0], "PBody") + tuple(m[2:])
                body.append(m)
            prev = [m[1]["name"] for m in members if m[0] == "method"]
            # now and then a second / third def of a name the class already has (redefinition)
            mname = rng.choice(prev) if prev and rng.random() < 0.25 else "m%d" % j
            members.append(("method", dict(name=mname, decos=rng.choice([[], [], ["property"], ["staticmethod"], ["classmethod"]]),
                                           params=[rty() if rng.random() < 0.5 else None for _ in range(rng.randint(0, 2))],
                                           ret=rty() if rng.random() < 0.4 else None, body=body)))
    bases = [rref() for _ in range(rng.randint(0, 2))]
    bases = [b for b in bases if b != ("", "Klass") and b[1] not in ("len",)]
    cls = dict(name="Klass", bases=bases, members=members)
    return dict(imports=imports, classes=classes), cls


def variants(rng, file, cls):
    """(label, file', class', relation) — relation: 'same' or ('plus', name)"""
    out = []
    # repeat a mention / member / base
    c = copy.deepcopy(cls)
    meths = [m for m in c["members"] if m[0] == "method" and m[1]["body"]]
    if meths and rng.random() < 0.6:
        md = rng.choice(meths)[1]
        x = rng.choice(md["body"])
        md["body"].insert(rng.randint(0, len(md["body"])), x)
        if rng.random() < 0.5:
            md["body"].append((x[0], rng.choice(EXPR_POS) if cg.POS[x[1]][2] == "e" and cg.POS[x[1]][1] == "m" else x[1]) + tuple(x[2:]))
    elif c["members"]:
        m = copy.deepcopy(rng.choice(c["members"]))
        if m[0] == "method":
            m[1]["name"] += "_again"
        elif m[0] == "attr":
            m = ("attr", m[1] + "_again", m[2])
        c["members"].append(m)
    if c["bases"]:
        pass  # a duplicate base class is a TypeError in Python; not generated
    out.append(("repeat", file, c, "same"))
    # reorder members and mentions
    c = copy.deepcopy(cls)
    rng.shuffle(c["members"])
    rng.shuffle(c["bases"])
    for m in c["members"]:
        if m[0] == "method":
            rng.shuffle(m[1]["body"])
            rng.shuffle(m[1]["params"])
    out.append(("reorder", file, c, "same"))
    # rename the class itself
    def ren_ref(r):
        return ("", "Renamed9") if r == ("", cls["name"]) else r

    def ren_kind(k):
        return ("inst", ren_ref(k[1])) if k[0] == "inst" else k

    def ren_ty(t):
        if t is None:
            return None
        if t[0] == "ref":
            return ("ref", ren_ref(t[1]))
        return tuple(ren_ty(x) if isinstance(x, tuple) else x for x in t)

    c = copy.deepcopy(cls)
    c["name"] = "Renamed9"
    c["bases"] = [ren_ref(b) for b in c["bases"]]
    nm = []
    for m in c["members"]:
        if m[0] == "attr":
            nm.append(("attr", m[1], ren_ty(m[2])))
        elif m[0] == "stmt":
            nm.append(("stmt", cg.map_kinds(m[1], ren_kind)))
        else:
            md = m[1]
            md["params"] = [ren_ty(p) for p in md["params"]]
            md["ret"] = ren_ty(md["ret"])
            md["body"] = [cg.map_kinds(x, ren_kind) for x in md["body"]]
            nm.append(m)
    c["members"] = nm
    out.append(("rename_self", file, c, "same"))
    # add unrelated classes / imports to the file
    f = copy.deepcopy(file)
    f["classes"] = ["Unrelated7"] + f["classes"] + ["Unrelated8"]
    f["imports"] = f["imports"] + [("from", "Stranger"), ("modas", "strangemod", "sm")]
    out.append(("add_unrelated", f, cls, "same"))
    # one new distinct coupled class
    f = copy.deepcopy(file)
    c = copy.deepcopy(cls)
    how = rng.choice(["base", "attr", "param", "return", "inst_from", "inst_fromas", "inst_local", "inst_nested", "inst_nested",
                      "base_qb", "attr_qb", "inst_qb"])
    ref = ("", "Fresh1")
    if how.endswith("_qb"):
        # ... living in another module and named like a built-in type (freshmod.ValueError): still ONE more coupled class
        tys = BUILTIN_TABLES["types"] or CORE_BUILTIN_TYPES
        ref = (rng.choice(["freshmod", "fm"]), rng.choice(tys))
        f["imports"].append(("mod", "freshmod") if ref[0] == "freshmod" else ("modas", "freshmodule", "fm"))
    if how in ("base", "base_qb"):
        c["bases"].append(ref)
    elif how in ("attr", "attr_qb"):
        c["members"].insert(rng.randint(0, len(c["members"])), ("attr", "fresh_field", shapes(ref, ("", "dict"))[rng.randint(0, 6)][1]))
    elif how in ("param", "return"):
        t = shapes(ref, ("", "int"))[rng.randint(0, 6)][1]
        md = dict(name="fresh_method", decos=[], params=[t] if how == "param" else [], ret=t if how == "return" else None, body=[])
        c["members"].append(("method", md))
    else:
        if how == "inst_qb":
            pass
        elif how == "inst_from":
            f["imports"].append(("from", "Fresh1"))
        elif how == "inst_fromas":
            f["imports"].append(("fromas", "OrigFresh", "Fresh1"))
        else:
            f["classes"].append("Fresh1")
        pos = rng.choice([p for p in EXPR_POS if cg.POS[p][1] == "m"])
        meths = [m for m in c["members"] if m[0] == "method"]
        hosts = [(md, i) for _, md in meths for i, x in enumerate(md["body"]) if x[0][0] in ("inst", "call")]
        if how == "inst_nested":
            # as one more argument of a call that is already there (or of a new call of a known class / plain function)
            f["imports"].append(("from", "Fresh1"))
            sub = (rng.choice(cg.SLOTS), (("inst", ref), []))
            if hosts and rng.random() < 0.7:
                md, i = rng.choice(hosts)
                x = md["body"][i]

                def graft(node, depth):
                    k, subs = node
                    inner = [j for j, (_, n) in enumerate(subs) if n[0][0] in ("inst", "call")]
                    if inner and depth < 3 and rng.random() < 0.5:
                        j = rng.choice(inner)
                        return (k, subs[:j] + [(subs[j][0], graft(subs[j][1], depth + 1))] + subs[j + 1:])
                    return (k, subs + [sub])

                k, subs = graft((x[0], cg.m_subs(x)), 0)
                md["body"][i] = (k, x[1], subs)
            else:
                hk = rng.choice([("inst", rng.choice([b for b in c["bases"] if not b[0]] or [("", "make_host")])), ("inst", ("", "make_host")), ("call", "self", "build")])
                apos = rng.choice([p for p in ASSIGN_LIKE if cg.POS[p][1] == "m"])
                if meths:
                    rng.choice(meths)[1]["body"].append((hk, apos, [sub]))
                else:
                    c["members"].append(("method", dict(name="fresh_method", decos=[], params=[], ret=None, body=[(hk, apos, [sub])])))
        elif meths:
            rng.choice(meths)[1]["body"].append((("inst", ref), pos))
        else:
            c["members"].append(("method", dict(name="fresh_method", decos=[], params=[], ret=None, body=[(("inst", ref), pos)])))
    out.append(("add_coupled:" + how, f, c, ("plus", cg.cref_src(ref))))
    return out


CORE_BUILTIN_TYPES = ["int", "str", "float", "bool", "bytes", "list", "dict", "set", "tuple", "frozenset", "object", "type",
                      "Exception", "ValueError", "TypeError", "KeyError"]


def builtin_core_cases():
    """Python's core built-in types named as base / annotation: CBO 0 whatever table cbo.go carries (spec side is
    Python's own builtins module here, not the regenerated table)"""
    import builtins
    out = []
    for b in CORE_BUILTIN_TYPES:
        assert hasattr(builtins, b)
        members = [("attr", "field", ("ref", ("", b))),
                   ("method", dict(name="run", decos=[], params=[("gen1", "List", ("ref", ("", b)))], ret=("union", ("ref", ("", b)), ("none",)),
                                   body=[(("inst", ("", b)), "PAssignValue")]))]
        bases = [("", b)] if b in ("object", "Exception", "ValueError", "dict", "list") else []
        out.append(mk_case(dict(imports=[], classes=[]), dict(name="K", bases=bases, members=members), "builtin-core",
                           {"position": "base+annotation+call", "form": "builtin_type", "builtin": b}))
    return out


# ------------------------------------------------------------------------------------------
# project classes NAMED like a Python built-in.  The names come from the two tables of cbo.go as the translator regenerates
# them (Gen/ClassConst.v: cbo_builtin_types, cbo_builtin_functions).  Written through a module (errors.ValueError, alias pt.list,
# unimported zz.slice) such a class is an ordinary coupled class - only the bare name is Python's built-in -; written bare after
# `from m import ValueError` / `... as ValueError` / a same-file `class ValueError` the name is (by Class/CBO.v:is_builtin, which
# goes by the written name) the built-in.  Every name x every qualified form x base / annotation (place and shape rotate) /
# instantiation (position rotates over ALL expression positions, one more hidden in an argument slot), include_builtins
# false and (sampled) true.
# ------------------------------------------------------------------------------------------
QUAL_FORMS = ["mod", "modas", "unbound_qual"]
PLAIN_FORMS = ["from", "fromas", "local"]
BUILTIN_TABLES = {"types": None, "functions": None}       # filled by main from Gen/ClassConst.v


def builtin_tables():
    out = lib.coq_eval("C13_builtin_tables", REQ.replace("Class.CBORun.", "Class.CBORun Gen.ClassConst."),
                       "Eval vm_compute in (cbo_builtin_types, cbo_builtin_functions).\n")
    ts, fs = lib.parse_coq_values(out)[0]
    return [x.strip('"') for x in ts], [x.strip('"') for x in fs]


def named_ref(form, name):
    if form == "mod":
        return [("mod", "errors")], [], ("errors", name)
    if form == "modas":
        return [("modas", "project_types", "pt")], [], ("pt", name)
    if form == "unbound_qual":
        return [], [], ("zz", name)
    if form == "from":
        return [("from", name)], [], ("", name)
    if form == "fromas":
        return [("fromas", "Orig" + name.capitalize(), name)], [], ("", name)
    return [], [name], ("", name)


def builtin_named_cases(rng, types, functions):
    out = []
    positions = EXPR_POS + ["PNestedDefDecorator"]
    run = ("method", dict(name="run", decos=[], params=[], ret=None, body=[]))
    rot = rng.randrange(1000)
    funcs = [functions[(rot + 5 * i) % len(functions)] for i in range(3)] if functions else []
    plain_names = [types[(rot + 7 * i) % len(types)] for i in range(5)]
    k = q = rot
    for name in types + funcs:
        is_func = name in funcs
        forms = QUAL_FORMS + (PLAIN_FORMS if name in plain_names else [])
        for form in forms:
            k += 1
            q += form in QUAL_FORMS                      # the qualified forms walk through ALL positions
            imps, classes, ref = named_ref(form, name)
            tags = {"form": form, "builtin_name": name, "table": "functions" if is_func else "types"}
            f = dict(imports=imps, classes=classes + ["Other"])
            batch = []
            # base class (alone / between an ordinary class and a real built-in)
            if not is_func:
                bases = [ref] if k % 2 else [("", "Other"), ref, ("", "Exception")]
                batch.append((dict(name="K", bases=bases, members=[run]), dict(tags, position="base")))
            # annotation: place and shape rotate
            sh = shapes(ref, ("", "Other"))
            sname, t = sh[k % len(sh)]
            place_ = ("attr", "param", "return")[k % 3]
            if place_ == "attr":
                members = [("attr", "field", t), run]
            elif place_ == "param":
                members = [("method", dict(name="run", decos=[], params=[None, t], ret=None, body=[]))]
            else:
                members = [("method", dict(name="run", decos=["property"], params=[], ret=t, body=[]))]
            batch.append((dict(name="K", bases=[], members=members), dict(tags, position=place_, shape=sname)))
            # instantiation: at a rotating position, and hidden in an argument slot of another call
            pos = positions[(q if form in QUAL_FORMS else k) % len(positions)]
            batch.append((dict(name="K", bases=[], members=place((("inst", ref), pos))), dict(tags, position=pos)))
            apos = ASSIGN_LIKE[k % len(ASSIGN_LIKE)]
            host = (("inst", ("", "make_host")), apos, [(cg.SLOTS[k % len(cg.SLOTS)], (("inst", ref), []))])
            if form == "mod":
                batch.append((dict(name="K", bases=[], members=place(host)), dict(tags, position=apos, slot=cg.SLOTS[k % len(cg.SLOTS)])))
            for j, (cls, tg) in enumerate(batch):
                out.append(mk_case(f, cls, "builtin-named", tg))
                if (k + j) % 6 == 0 or form in PLAIN_FORMS:
                    out.append(mk_case(f, cls, "builtin-named", dict(tg, inc=True), inc=True))
    return out


# ------------------------------------------------------------------------------------------
# several function definitions sharing ONE name inside the class subtree.  Class/CBO.v reads the signature and the body of every
# def whatever it is called (md_name is not looked at), and so does the property: a class named in the signature / default /
# body of ANY of them is a coupled class.  Forms: @property getter + @x.setter (+ @x.deleter), @overload stubs + implementation,
# plain redefinition, same-named local helper functions inside different methods, __init__ of the class and of nested
# classes, same-named methods of nested classes.  One otherwise-unmentioned project class sits in one coupling position
# (parameter annotation, return annotation, default value, body instantiation, method call on the name, base class) of the
# FIRST / MIDDLE / LAST of the 2 or 3 same-named defs; every order of the members that hold the defs is generated.
# A helper nested in a method / a method of a nested class reaches Coq flattened into a method of K itself (the walk of cbo.go
# and the spec go through the whole class subtree); the .py text keeps the nesting.
# ------------------------------------------------------------------------------------------
SN_FORMS = ["property", "overload", "redefinition", "local-helpers", "init-nested", "nested-methods"]
SN_POSITIONS = ["param", "return", "default", "body", "attr"]
SN_BODY_POS = [p for p in EXPR_POS if cg.POS[p][1] == "m"]


def sn_shapes(ref):
    r = ("ref", ref)
    return [("plain", r), ("gen1", ("gen1", "List", r)), ("optional", ("gen1", "Optional", r)), ("gen2", ("gen2", "Dict", ("ref", ("", "str")), r)),
            ("union_none", ("union", r, ("none",))), ("lower_generic", ("gen1", "list", r)), ("generic_in_union", ("union", ("gen1", "List", r), ("none",))),
            ("qualified_container", ("gen1", "typing.List", r))]


def sn_def_lines(md, nested_in_function=False):
    rcv = None if (nested_in_function or "staticmethod" in md["decos"]) else ("cls" if "classmethod" in md["decos"] else "self")
    params = [("p%d" % i, cg.ty_src(t) if t else None) for i, t in enumerate(md["params"])]
    return cg.render_method(md["name"], md["decos"], params, cg.ty_src(md["ret"]) if md["ret"] else None,
                            [(m[1], cg.mention_src(m)) for m in md["body"]], first=rcv, is_async=md.get("async", False))


def sn_unit_lines(u):
    """source lines (class-body level) of one member unit"""
    if u[0] == "attr":
        return ["%s: %s" % (u[1], cg.ty_src(u[2]))]
    if u[0] == "def":
        return sn_def_lines(u[1]) + [""]
    if u[0] == "host":
        lines = sn_def_lines(u[1])
        if not any(cg.POS[m[1]][1] == "m" for m in u[1]["body"]):
            lines.pop()                                  # the lone `pass`
        return lines + ["    " + l for l in sn_def_lines(u[2], nested_in_function=True)] + [""]
    lines = ["class %s:" % u[1]]
    for md in u[2]:
        lines += ["    " + l for l in sn_def_lines(md)] + [""]
    return lines


def sn_unit_members(u):
    """the unit as members of K in the class-level syntax (nesting flattened)"""
    if u[0] == "attr":
        return [u]
    if u[0] == "def":
        return [("method", u[1])]
    if u[0] == "host":
        return [("method", u[1]), ("method", u[2])]
    return [("method", md) for md in u[2]]


def sn_source(f, name, bases, units):
    out = []
    for i in f["imports"]:
        out.append({"from": "from lib import %s", "fromas": "from lib import %s as %s", "mod": "import %s", "modas": "import %s as %s"}[i[0]] % tuple(i[1:]))
    out.append("")
    for n in f["classes"]:
        out += ["class %s:" % n, "    pass", ""]
    out.append("class %s%s:" % (name, ("(" + ", ".join(cg.cref_src(b) for b in bases) + ")") if bases else ""))
    for u in units:
        out += ["    " + l if l else "" for l in sn_unit_lines(u)]
    return "\n".join(out) + "\n"


def sn_units(form, n, mds, k):
    """the n same-named defs mds (name / decorators filled in here) wrapped into the member units of the form; returns (units, imports)"""
    imps = []
    units = []
    for j, md in enumerate(mds):
        if form == "property":
            md.update(name="value", decos=[["property"], ["value.setter"], ["value.deleter"]][j])
            units.append(("def", md))
        elif form == "overload":
            qual = k % 2 == 0
            imps = [("mod", "typing")] if qual else [("fromas", "overload", "overload")]
            md.update(name="convert", decos=[] if j == n - 1 else ["typing.overload" if qual else "overload"])
            units.append(("def", md))
        elif form == "redefinition":
            md.update(name="handle", decos=[[], [], ["staticmethod"], ["classmethod"]][(k + j) % 4])
            if (k + j) % 3 == 1:
                md["async"] = True
            units.append(("def", md))
        elif form == "local-helpers":
            md.update(name="helper", decos=[])
            own = [(("attr", "self", "state"), "PAssignTarget")] if (k + j) % 2 else []
            units.append(("host", dict(name="step%d" % j, decos=[], params=[], ret=None, body=own), md))
        elif form == "init-nested":
            md.update(name="__init__", decos=[])
            units.append(("def", md) if j == 0 else ("class", "Inner%d" % j, [md]))
        else:
            md.update(name="run", decos=[])
            units.append(("class", "Part%d" % j, [md]))
    return units, imps


def samename_cases():
    """(cases, groups): groups = lists of case indexes that are the SAME class with its members permuted"""
    import itertools
    out, groups = [], []
    k = 0
    for form in SN_FORMS:
        for n in (2, 3):
            for pos, i in [(p, i) for i in range(n) for p in SN_POSITIONS] + [("base", None)]:
                k += 1
                eforms = ["from", "fromas"] if pos == "attr" else ["from", "fromas", "local", "mod", "modas"]
                eform = eforms[k % len(eforms)]
                imps, classes, ref = form_ref(eform, "Extra", "K")
                others = ("typed", "bare", "first-typed")[k % 3]
                mds, bases = [], []
                sname = None
                for j in range(n):
                    md = dict(params=[], ret=None, body=[])
                    if others == "typed" or (others == "first-typed" and j == 0):
                        md["params"] = [("ref", ("", "Sig%d" % j))]
                        if (k + j) % 2:
                            md["ret"] = ("gen1", "Optional", ("ref", ("", "Ret%d" % j)))
                        imps = imps + [("from", "Sig%d" % j)] + ([("from", "Ret%d" % j)] if md["ret"] else [])
                    if j == i:
                        sname, t = sn_shapes(ref)[k % len(sn_shapes(ref))]
                        if pos == "param":
                            md["params"] = md["params"] + [t] if k % 2 else [t] + md["params"]
                        elif pos == "return":
                            md["ret"] = t
                        elif pos == "default":
                            md["body"].append((("inst", ref), "PMethodDefault"))
                        elif pos == "body":
                            bpos = SN_BODY_POS[(k * 7) % len(SN_BODY_POS)]
                            if k % 4 == 0:
                                md["body"].append((("inst", ("", "make_host")), ASSIGN_LIKE_M[k % len(ASSIGN_LIKE_M)], [(cg.SLOTS[k % len(cg.SLOTS)], (("inst", ref), []))]))
                            else:
                                md["body"].append((("inst", ref), bpos))
                        elif pos == "attr":
                            md["body"].append((("call", ref[1], "run"), ASSIGN_LIKE_M[k % len(ASSIGN_LIKE_M)]))
                    mds.append(md)
                if pos == "base":
                    bases = [ref]
                units, fimps = sn_units(form, n, mds, k)
                f = dict(imports=imps + fimps + [("from", "FieldT")], classes=classes)
                noise = ("attr", "field", ("ref", ("", "FieldT")))
                # the number of coupled classes by construction: only used to PLACE the thresholds at / next to the count
                cnt = len({"FieldT", "Extra"} | {r[1] for md in mds for t in md["params"] + [md["ret"]] if t for r in cg.ty_refs(t) if r[1] != "str"})
                thr = [(None, None), (cnt - 1, cnt), (cnt, cnt + 1), (cnt - 2, cnt - 1)][k % 4]
                if thr[0] is not None:
                    thr = (max(0, thr[0]), max(0, thr[1]))
                which = None if i is None else ("first" if i == 0 else "last" if i == n - 1 else "middle")
                group = []
                for perm in itertools.permutations(range(n)):
                    us = [units[j] for j in perm]
                    us.insert(k % (n + 1), noise)
                    members = [m for u in us for m in sn_unit_members(u)]
                    tags = {"position": pos if pos in ("base", "param", "return") else (mds[i]["body"][-1][1] if i is not None else pos), "form": eform,
                            "samename": form, "defs": n, "which": which, "place": pos, "order": list(perm), "others": others}
                    if sname and pos in ("param", "return"):
                        tags["shape"] = sname
                    c = mk_case(f, dict(name="K", bases=bases, members=members), "samename", tags, low=thr[0], med=thr[1])
                    c["src"] = sn_source(f, "K", bases, us)
                    group.append(len(out))
                    out.append(c)
                groups.append(group)
    return out, groups


# ------------------------------------------------------------------------------------------
# DEFAULT VALUES of parameters.  A default value couples the class to another class only through an INSTANTIATION written in it
# (p: T = Dep(), p=lambda: Dep()); a bare name, an attribute chain, a subscript, an operator expression, a display or a lambda
# that merely READ names (p: int = DEFAULT_TIMEOUT, mode: Mode = Mode.FAST, p: T = ImportedClass, p: int = TABLE[KEY],
# p: int = A | B ...) name no class as base / annotation / instantiation: Class/CBO.v has no mention for them (an attribute read
# is KAttr -> no class), so they are written into the .py text only and the class term handed to Coq carries the annotation of the
# parameter (and the instantiation, as a PMethodDefault mention, when the default holds one).  Full cross: host of the def
# (method, __init__, static / class / async method, helper nested in a method, method of a nested class) x kind of the parameter
# (positional-only, ordinary, keyword-only; beside *args: T / **kw: T / bare * / untyped and literal-default neighbours) x value
# form, the annotation of the parameter rotating over none / built-in / project class / generic / union / string, thresholds
# placed at / next to the true count.  One class per host carries every value form at once.
# ------------------------------------------------------------------------------------------
TD_HOSTS = ["method", "init", "static", "classmethod", "async", "nested-def", "nested-class"]
TD_KINDS = ["posonly", "plain", "kwonly"]
# (label, text, names that the text needs imported as project classes, is the annotation forced to the class Mode?)
TD_VALUES = [("const-upper", "DEFAULT_TIMEOUT", [], False), ("const-lower", "default_timeout", [], False), ("camel-unbound", "Sentinel", [], False),
             ("imported-class-as-value", "ValCls", ["ValCls"], False), ("local-class-as-value", "Other", [], False), ("own-class-as-value", "K", [], False),
             ("enum-member-of-annotation", "Mode.FAST", ["Mode"], True), ("enum-member", "Color.RED", ["Color"], False),
             ("attribute-chain", "cfg.limits.MAX", [], False), ("self-like-attribute", "settings.timeout", [], False),
             ("subscript", "TABLE[KEY]", [], False), ("subscript-of-class", "ValCls[Item]", ["ValCls", "Item"], False),
             ("bitor", "FLAG_A | FLAG_B", [], False), ("bitor-of-classes", "ValCls | Item", ["ValCls", "Item"], False), ("negated", "-LIMIT", [], False),
             ("sum", "BASE + STEP", [], False), ("tuple", "(TA, TB)", [], False), ("list", "[LA]", [], False), ("dict", "{KA: VA}", [], False),
             ("ternary", "AA if BB else CC", [], False), ("lambda-name", "lambda: LamV", [], False), ("lambda-attribute", "lambda a=DEF_A: Reg.handler", [], False),
             ("starred-in-tuple", "(*BASES, Last)", [], False), ("comparison", "LEVEL >= Debug.LEVEL", [], False),
             ("instantiation", "$D()", None, False), ("lambda-instantiation", "lambda: $D()", None, False), ("instantiation-with-name-args", "$D(Conf.X, key=KEY)", None, False)]
TD_ANNS = ["none", "builtin", "class", "generic", "union-none", "string", "generic2"]


def td_ann(which):
    r = ("ref", ("", "AnnT"))
    return {"none": None, "builtin": ("ref", ("", "int")), "class": r, "generic": ("gen1", "List", r), "union-none": ("union", r, ("none",)),
            "string": ("str",), "generic2": ("gen2", "Dict", ("ref", ("", "str")), r)}[which]


def td_signature(kind, k, ann, value):
    """[(prefix, name, ty or None, default text or None)] in source order; prefix: "" | "*" | "**" | "/" | "*bare" separators"""
    sig = ("ref", ("", "Sig"))
    target = ("", "p1", ann, value)
    lit = ["None", "0", "\"x\"", "()", "3.5", "True"][k % 6]
    star = [("*", "args", ("ref", ("", "ArgsT")), None)] if k % 2 else []
    kw = [("**", "kw", ("ref", ("", "KwT")), None)] if k % 3 else []
    if kind == "posonly":
        ps = [("", "p0", sig, None), target, ("/", None, None, None), ("", "p2", None, lit)] + star + kw
    elif kind == "plain":
        ps = [("", "p0", sig, None)] + ([("/", None, None, None)] if k % 2 == 0 else []) + [target, ("", "p2", ("ref", ("", "int")), lit)] + star + kw
    else:
        ps = [("", "p0", sig, None)] + (star or [("*bare", None, None, None)]) + ([("", "k0", ("ref", ("", "str")), lit)] if k % 4 < 2 else []) + [target] \
             + ([("", "k2", None, None)] if k % 4 == 1 else []) + kw
    return ps


def td_sig_src(ps, rcv):
    out = [rcv] if rcv else []
    for prefix, name, ty, default in ps:
        if prefix == "/":
            out.append("/")
        elif prefix == "*bare":
            out.append("*")
        else:
            t = prefix + name + ((": " + cg.ty_src(ty)) if ty else "")
            if default is not None:
                t += (" = " if ty else "=") + default
            out.append(t)
    return ", ".join(out)


def td_class(host, sigs, k):
    """sigs: [(ps, [body mentions])] one def per entry.  Returns (source lines of class K's body, members for Class/CBO.v)"""
    lines, members = ["field: FieldT", ""], [("attr", "field", ("ref", ("", "FieldT")))]
    for j, (ps, body) in enumerate(sigs):
        tys = [ty for prefix, name, ty, default in ps if name]
        md = dict(name="run%d" % j, decos=[], params=tys, ret=None, body=list(body))
        rcv, pre, ind, is_async = "self", [], "", False
        if host == "init":
            md["name"] = "__init__" if j == 0 else "setup%d" % j
        elif host == "static":
            md["decos"], rcv = ["staticmethod"], None
        elif host == "classmethod":
            md["decos"], rcv = ["classmethod"], "cls"
        elif host == "async":
            is_async = True
        elif host == "nested-def":
            own = [(("attr", "self", "state"), "PAssignTarget")] if (k + j) % 2 else []
            hostmd = dict(name="step%d" % j, decos=[], params=[], ret=None, body=own)
            pre, ind, rcv = ["def step%d(self):" % j] + (["    self.state = 1"] if own else []), "    ", None
            md["name"] = "helper"
            members.append(("method", hostmd))
        elif host == "nested-class":
            pre, ind = ["class Part%d:" % j], "    "
        members.append(("method", md))
        lines += pre + [ind + "@" + d for d in md["decos"]]
        lines.append("%s%sdef %s(%s):" % (ind, "async " if is_async else "", md["name"], td_sig_src(ps, rcv)))
        lines += [ind + "    return None", ""]
    return lines, members


def typed_default_cases():
    import ast
    out = []
    k = 0

    def build(host, sig_specs, k, tags):
        """sig_specs: [(kind, ann label, value entry)]"""
        imports, classes, sigs, names = [("from", "FieldT"), ("from", "Sig"), ("from", "AnnT")], ["Other"], [], {"FieldT"}
        for j, (kind, annl, (vlabel, text, needs, force_mode)) in enumerate(sig_specs):
            ann = ("ref", ("", "Mode")) if force_mode else td_ann(annl)
            body = []
            if needs is None:                                   # the default holds an instantiation
                imps, cl, ref = form_ref(["from", "local", "mod", "fromas", "modas"][(k + j) % 5], "Dep", "K")
                imports += [x for x in imps if x not in imports]
                classes += [x for x in cl if x not in classes]
                text = text.replace("$D", cg.cref_src(ref))
                body = [(("inst", ref), "PMethodDefault")]
                names.add(cg.cref_src(ref))
            else:
                imports += [("from", n) for n in needs if ("from", n) not in imports]
            ps = td_signature(kind, k + j, ann, text)
            names |= {r[1] for _, nm, ty, _ in ps if nm and ty for r in cg.ty_refs(ty) if r[1] not in ("int", "str")}
            sigs.append((ps, body))
        lines, members = td_class(host, sigs, k)
        f = dict(imports=imports, classes=classes)
        cnt = len(names)
        thr = [(None, None), (cnt - 1, cnt), (cnt, cnt + 1), (cnt, cnt)][k % 4]
        c = mk_case(f, dict(name="K", bases=[], members=members), "param-default", dict(tags, position="param-default", form="value", host=host, true_count=cnt),
                    low=thr[0], med=thr[1])
        c["src"] = cg.file_src(f, dict(name="K", bases=[], members=[])).rsplit("class K:", 1)[0] + "class K:\n" + "".join(("    " + l if l else "") + "\n" for l in lines)
        ast.parse(c["src"])                                     # every generated text is valid Python
        return c

    for host in TD_HOSTS:
        for kind in TD_KINDS:
            for v in TD_VALUES:
                k += 1
                annl = TD_ANNS[k % len(TD_ANNS)]
                out.append(build(host, [(kind, annl, v)], k, {"param_kind": kind, "value": v[0], "annotation": "Mode" if v[3] else annl}))
        # every value form at once, over several defs of the class, every parameter kind
        k += 1
        specs = [(TD_KINDS[(k + i) % 3], TD_ANNS[(k + i) % len(TD_ANNS)], v) for i, v in enumerate(TD_VALUES)]
        out.append(build(host, specs, k, {"param_kind": "all", "value": "all", "annotation": "all"}))
    # typed against untyped: the same value once behind an annotation, once without
    for v in TD_VALUES:
        for annl in TD_ANNS:
            k += 1
            out.append(build(TD_HOSTS[k % len(TD_HOSTS)], [(TD_KINDS[k % 3], annl, v)], k, {"param_kind": TD_KINDS[k % 3], "value": v[0], "annotation": "Mode" if v[3] else annl}))
    return out


def threshold_cases():
    out = []
    pairs = [(None, None), (0, 0), (0, 1), (1, 1), (2, 4), (4, 4), (5, 9), (7, 3), (3, 8), (2, 7)]
    for k in range(0, 11):
        classes = ["B%d" % i for i in range(k)]
        cls = dict(name="K", bases=[], members=[("method", dict(name="run", decos=[], params=[], ret=None,
                                                                  body=[(("inst", ("", b)), "PBody") for b in classes]))])
        for lo, me in pairs:
            out.append(mk_case(dict(imports=[], classes=classes), cls, "threshold", {"position": "PBody", "form": "local", "k": k}, low=lo, med=me))
    return out



def builtin_inc_cases():
    """[cbo] include_builtins = true: a built-in TYPE called anywhere is a dependency (cbo.go has one reader for a call that is the
    value of an assignment and one for every other call), a built-in FUNCTION never is.  Decided against the model only."""
    out = []
    for pos in EXPR_POS + ["PNestedDefDecorator"]:
        forms = ["builtin_type"] + (["builtin_func", "local"] if pos in ASSIGN_LIKE else [])
        for form in forms:
            imps, classes, ref = form_ref(form, "Dep", "K")
            cls = dict(name="K", bases=[], members=place((("inst", ref), pos)))
            out.append(mk_case(dict(imports=imps, classes=classes), cls, "builtins-included", {"position": pos, "form": form, "inc": True}, inc=True))
    return out


# ------------------------------------------------------------------------------------------
# subscripted forms outside Class/Syntax.v: class K(Base[T]), x: mod.Container[T]   (Class/CBOGeneric.v)
# ------------------------------------------------------------------------------------------
REQ_GEN = REQ.replace("Class.CBORun.", "Class.CBORun Class.CBOGeneric.")


def generic_cases():
    out = []
    run = ("method", dict(name="run", decos=[], params=[], ret=None, body=[]))
    for form in ("from", "fromas", "local", "builtin_type", "mod", "modas", "unbound_qual"):
        imps, classes, ref = form_ref(form, "Base", "K")
        for args in (["Dep"], ["Dep", "Other"], ["int"]):
            for extra in (False, True):
                bases = [("", "%s[%s]" % (cg.cref_src(ref), ", ".join(args)))] + ([("", "Plain")] if extra else [])
                members = ([("attr", "field", ("gen1", "List", ("ref", ("", "Ann"))))] if extra else []) + [run]
                f = dict(imports=imps + [("from", a) for a in args if a != "int"] + ([("from", "Plain")] if extra else []), classes=classes)
                out.append(dict(what="base", file=f, cls=dict(name="K", bases=bases, members=members), base=ref, args=[("", a) for a in args],
                                rest=["Ann", "Plain"] if extra else [], tags={"position": "base", "form": form, "shape": "subscript-base", "nargs": len(args)}))
    for imp, prefix in ((("mod", "typing"), "typing"), (("modas", "typing", "t"), "t")):
        for cont, args in (("List", ["Dep"]), ("Optional", ["Dep"]), ("Dict", ["str", "Dep"]), ("Tuple", ["Dep", "Other"])):
            for where in ("attr", "param", "return"):
                rs = [("ref", ("", a)) for a in args]
                t = ("gen1", prefix + "." + cont, rs[0]) if len(rs) == 1 else ("gen2", prefix + "." + cont, rs[0], rs[1])
                if where == "attr":
                    members = [("attr", "field", t), run]
                elif where == "param":
                    members = [("method", dict(name="run", decos=[], params=[None, t], ret=None, body=[]))]
                else:
                    members = [("method", dict(name="run", decos=["property"], params=[], ret=t, body=[]))]
                members.append(("attr", "other_field", ("ref", ("", "Ann"))))
                f = dict(imports=[imp] + [("from", a) for a in args if a != "str"], classes=[])
                out.append(dict(what="qualified-generic", file=f, cls=dict(name="K", bases=[], members=members), base=(prefix, cont),
                                args=[("", a) for a in args], rest=["Ann"],
                                tags={"position": where, "form": imp[0], "shape": "qualified-generic", "nargs": len(args)}))
    return out


def check_generic(ck):
    """class K(Base[T]) and x: mod.Container[T]: implementation against Class/CBOGeneric.v (model and spec)"""
    cases = generic_cases()
    impl = lib.driver([{"op": "cbo", "src": cg.file_src(c["file"], c["cls"])} for c in cases])
    items_b, items_q = [], []
    for c in cases:
        args = cg.clist([cg.cref_coq(a) for a in c["args"]])
        if c["what"] == "base":
            items_b.append("run_generic_base default_options (GBase %s %s)" % (cg.cref_coq(c["base"]), args))
        else:
            items_q.append("run_qualified_generic default_options %s %s" % (cg.cref_coq(c["base"]), args))
    out = lib.coq_eval("C13_generic", REQ_GEN, "Definition bases := %s.\nDefinition quals := %s.\nEval vm_compute in (bases, quals).\n"
                       % (cg.clist(items_b), cg.clist(items_q)))
    mb, mq = lib.parse_coq_values(out)[0]
    mb, mq = list(mb), list(mq)
    n_known = n_bad = 0
    for c, r in zip(cases, impl):
        src = cg.file_src(c["file"], c["cls"])
        ic = [x for x in r.get("classes", []) if x["name"] == "K"]
        if "error" in r or len(ic) != 1:
            ck.violation("CBO analysis failed or class K missing: %s" % str(r)[:300], {"source": src})
            continue
        deps = set(ic[0]["deps"])
        rest = set(c["rest"])
        if c["what"] == "base":
            model, required, allowed = mb.pop(0)
            model, required, allowed = ({dep_name(x) for x in y} for y in (model, required, allowed))
            ok = (required | rest) <= deps <= (allowed | rest)
            want = "at least %s, at most %s" % (sorted(required | rest), sorted(allowed | rest))
        else:
            model, spec = mq.pop(0)
            model, spec = ({dep_name(x) for x in y} for y in (model, spec))
            ok = deps == (spec | rest)
            want = "%s" % sorted(spec | rest)
        same_as_model = deps == (model | rest)
        replay = {"kind": "generic", "tags": c["tags"], "source": src, "impl": ic[0], "model_deps": sorted(model | rest), "spec": want}
        if ic[0]["cbo"] != len(ic[0]["deps"]):
            ck.violation("CBO %d is not the number of listed dependencies %s" % (ic[0]["cbo"], ic[0]["deps"]), replay)
        elif not ok:
            n_bad += 1
            if n_bad <= 3:
                ck.violation("CBO dependencies %s, the class names %s [%s]" % (sorted(deps), want, c["tags"]), replay)
        elif not same_as_model:
            n_bad += 1
            if n_bad <= 3:
                ck.violation("implementation %s differs from the model of cbo.go (Class/CBOGeneric.v) %s" % (sorted(deps), sorted(model | rest)), replay)
    return len(cases), n_known, n_bad


def stdlib_table():
    """the names initializeStandardLibs (cbo.go) lists: what [cbo] include_imports = false removes"""
    import re
    src = open(os.path.join(lib.REPO, "internal", "analyzer", "cbo.go")).read()
    m = re.search(r"stdlibs\s*:=\s*\[\]string\{(.*?)\}", src, re.S)
    return re.findall(r'"([^"]+)"', m.group(1)) if m else None


def cli_classes(ck, d, toml, files, select="cbo"):
    with open(os.path.join(d, ".pyscn.toml"), "w") as f:
        f.write(toml)
    for name, text in files.items():
        with open(os.path.join(d, name), "w") as f:
            f.write(text)
    rc, data, err = lib.analyze_json(d, ["--select", select])
    if data is None or "cbo" not in data:
        ck.broken_ties.append("e2e options: pyscn analyze produced no cbo report (rc=%s) with\n%s\n%s" % (rc, toml, err[-300:]))
        return None
    return {(os.path.basename(cl["FilePath"]), cl["Name"]): cl for cl in data["cbo"].get("Classes") or []}


def e2e_options(ck, cases, impl):
    """analysis options that only the configuration file can set: [cbo] include_builtins, [cbo] include_imports, [analysis] exclude_patterns"""
    n = 0
    # --- include_builtins = true: the CLI agrees with the analyser called with IncludeBuiltins (which is decided against the model above)
    picked = [(i, c, r) for i, (c, r) in enumerate(zip(cases, impl)) if c["kind"] == "builtins-included" and "error" not in r]
    picked = picked[::max(1, len(picked) // 24)][:30]
    got = cli_classes(ck, lib.fresh_dir("c13_e2e_inc"), "[cbo]\nshow_zeros = true\ninclude_builtins = true\n",
                      {"inc_%d.py" % i: cg.file_src(c["file"], c["cls"]) for i, c, r in picked})
    for i, c, r in picked if got is not None else []:
        ic = [x for x in r["classes"] if x["name"] == "K"][0]
        cl = got.get(("inc_%d.py" % i, "K"))
        n += 1
        cli = None if cl is None else (cl["Metrics"]["CouplingCount"], sorted(cl["Metrics"]["DependentClasses"] or []), cl["RiskLevel"])
        if cli != (ic["cbo"], ic["deps"], ic["risk"]):
            ck.violation("[cbo] include_builtins = true: pyscn analyze reports %s for class K, the analyser called with IncludeBuiltins reports %s"
                         % (cli, (ic["cbo"], ic["deps"], ic["risk"])),
                         {"kind": "e2e-include-builtins", "toml": "[cbo] include_builtins = true", "source": cg.file_src(c["file"], c["cls"]), "cli": cl, "driver": ic})
    # --- include_imports = false: exactly the dependencies named like a module of cbo.go's standard-library table disappear
    table = stdlib_table()
    if not table:
        ck.broken_ties.append("cannot read the standard-library table of cbo.go (initializeStandardLibs)")
    else:
        rot = ck.rng.randrange(len(table))
        std = [table[(rot + k * 7) % len(table)] for k in range(4)]
        files = {}
        for j, (a, b) in enumerate(((std[0], std[1]), (std[2], std[3]))):
            f = dict(imports=[("from", a), ("from", b), ("from", "Dep"), ("fromas", "OrigAl", "Al")], classes=["Loc"])
            body = [(("inst", ("", b)), "PAssignValue"), (("inst", ("", "Dep")), "PReturnValue"), (("inst", ("", "Loc")), "PIfTest")]
            cls = dict(name="K", bases=[("", a), ("", "Al")],
                       members=[("attr", "field", ("gen1", "List", ("ref", ("", b)))), ("attr", "g", ("union", ("ref", ("", "Ann")), ("none",))),
                                ("method", dict(name="run", decos=[], params=[("ref", ("", a + "x"))], ret=("ref", ("", a)), body=body))])
            files["imp_%d.py" % j] = (f, cls, {a, b})
        base = lib.driver([{"op": "cbo", "src": cg.file_src(f, c)} for f, c, _ in files.values()])
        got = cli_classes(ck, lib.fresh_dir("c13_e2e_imp"), "[cbo]\nshow_zeros = true\ninclude_imports = false\n",
                          {k: cg.file_src(f, c) for k, (f, c, _) in files.items()})
        for (k, (f, c, stdn)), r in zip(files.items(), base) if got is not None else []:
            ic = [x for x in r["classes"] if x["name"] == "K"][0]
            want = sorted(set(ic["deps"]) - set(table))
            n += 1
            cl = got.get((k, "K"))
            cli = None if cl is None else sorted(cl["Metrics"]["DependentClasses"] or [])
            if not (stdn <= set(ic["deps"])) or cli != want or cl["Metrics"]["CouplingCount"] != len(want):
                ck.violation("[cbo] include_imports = false: pyscn analyze lists %s for class K; with the default it lists %s, and only the names of "
                             "cbo.go's standard-library modules %s may disappear (expected %s)" % (cli, ic["deps"], sorted(stdn), want),
                             {"kind": "e2e-include-imports", "toml": "[cbo] include_imports = false", "source": cg.file_src(f, c), "cli": cl, "driver_default": ic})
    # --- [analysis] exclude_patterns are FILE patterns: a class or dependency whose NAME matches one is still a class / a dependency
    f = dict(imports=[("from", "DepA"), ("from", "Other"), ("from", "Exact")], classes=[])
    k_cls = dict(name="K", bases=[("", "DepA")], members=[("attr", "x", ("ref", ("", "Other"))), ("attr", "y", ("gen1", "List", ("ref", ("", "Exact")))),
                                                         ("method", dict(name="run", decos=[], params=[], ret=None, body=[(("inst", ("", "DepA")), "PReturnValue")]))])
    l_cls = dict(name="DepLocal", bases=[("", "Other")], members=[])
    src = cg.file_src(f, k_cls) + "\n\n" + "\n".join(cg.class_src(l_cls)) + "\n"
    toml = "[cbo]\nshow_zeros = true\n[analysis]\nexclude_patterns = [\"Dep*\", \"Exact\", \"test_*.py\"]\n"
    got = cli_classes(ck, lib.fresh_dir("c13_e2e_excl"), toml, {"shapes.py": src})
    if got is not None:
        n += 2
        seen = {name: sorted(cl["Metrics"]["DependentClasses"] or []) for (_, name), cl in got.items()}
        want = {"K": ["DepA", "Exact", "Other"], "DepLocal": ["Other"]}
        if seen != want:
            dropped_only = seen == {"K": ["Other"]}       # everything matching Dep* or named Exact gone, the rest intact
            e = ck.match_known({"class": "analysis-exclude-patterns-on-class-names", "only_matching_names_dropped": dropped_only})
            if e:
                ck.known_finding(e)
            else:
                ck.violation("[analysis] exclude_patterns = [\"Dep*\", \"Exact\"] (file patterns; shapes.py does not match): pyscn analyze reports %s, the classes name %s" % (seen, want),
                             {"kind": "e2e-exclude-patterns", "toml": toml, "source": src, "cli": got and {"%s:%s" % k: v for k, v in got.items()}})
    return n

# ------------------------------------------------------------------------------------------
# multi-file runs: the CBO of a class depends only on its own file (Class/CBO.v is evaluated per file).  A project = 2-4 files
# analysed in ONE `pyscn analyze --select cbo` run; some file imports names (from-import, import-as, module import, module
# import-as) that another file uses WITHOUT importing them (there a plain function, a local class, or undefined).
# ------------------------------------------------------------------------------------------
MF_STATUS = {"from": ["function", "class", "undefined", "imported_too"], "fromas": ["function", "class", "undefined", "imported_too"],
             "mod": ["undefined", "imported_too"], "modas": ["undefined", "imported_too"]}
MF_NAMES = {True: ("a_%s.py", "m%d_%s.py", "z_%s.py"), False: ("z_%s.py", "m%d_%s.py", "a_%s.py")}


def mf_use(ref, pos, how):
    """members of a class that names ref once (instantiation at pos / method call on the name / both) next to a local collaborator"""
    own = (("inst", ("", "Own")), "PAssignValue")
    ms = []
    if how in ("inst", "both"):
        ms.append((("inst", ref), pos))
    if how in ("call", "both") and not ref[0]:
        ms.append((("call", ref[1], "run"), "PReturnValue"))
    cls_level = [m for m in ms if cg.POS[m[1]][1] == "c"]
    body = [m for m in ms if cg.POS[m[1]][1] != "c"]
    return [("stmt", m) for m in cls_level] + [("method", dict(name="run", decos=[], params=[], ret=None, body=body + [own]))]


def multifile_projects(rng, n_rand):
    """[{"files": [(file name, case)], "tags"}] — the matrix import form x status of the name in the using file x analysis order
    (importer's file name sorts before / after the user's) x 2..4 files, then random projects over a shared pool of names."""
    projs = []
    k = rng.randrange(1000)
    for form in ("from", "fromas", "mod", "modas"):
        for status in MF_STATUS[form]:
            for importer_first in (True, False):
                for how in ("inst", "call", "both") if form in ("from", "fromas") else ("inst",):
                    k += 1
                    nfiles = 2 + k % 3
                    pos = EXPR_POS[(k * 7) % len(EXPR_POS)]
                    imps, _, ref = form_ref(form, "Dep", "K")
                    first, mid, last = MF_NAMES[importer_first]
                    tags = {"position": pos, "form": form, "status": status, "importer_first": importer_first, "files": nfiles, "use": how}
                    importer = mk_case(dict(imports=imps + [("from", "Shared")], classes=["Own"]),
                                       dict(name="Importer", bases=[], members=mf_use(ref, "PBody", "inst")), "multifile", tags)
                    uf = dict(imports=list(imps) if status == "imported_too" else [], classes=["Own"] + (["Dep"] if status == "class" else []))
                    user = mk_case(uf, dict(name="K", bases=[], members=mf_use(ref, pos, how)), "multifile", tags)
                    if status == "function":
                        user["functions"] = ["Dep"]
                    files = [(first % "importer", importer)]
                    for j in range(nfiles - 2):
                        mc = mk_case(dict(imports=[("from", "Other%d" % j), ("modas", "othermod%d" % j, "om%d" % j)], classes=["Own"]),
                                     dict(name="Mid%d" % j, bases=[], members=mf_use(("", "Other%d" % j), "PReturnValue", "inst")), "multifile", tags)
                        if j == 1:
                            mc["functions"] = ["Dep", "Shared"]
                        files.append((mid % (j, "mid"), mc))
                    files.append((last % "user", user))
                    projs.append({"files": files, "tags": tags})
    # random projects: a pool of names, every file gives each name its own status
    for pi in range(n_rand):
        names = ["N%d" % i for i in range(rng.randint(2, 5))]
        files = []
        for fi in range(rng.randint(2, 4)):
            imports, classes, functions, members = [], ["Own"], [], []
            body = []
            for n in names:
                st = rng.choice(["from", "fromas", "mod", "function", "class", "undefined", "undefined", "unused"])
                ref = ("", n)
                if st == "from":
                    imports.append(("from", n))
                elif st == "fromas":
                    imports.append(("fromas", "Orig" + n, n))
                elif st == "mod":
                    imports.append(("mod", n.lower()))
                elif st == "function":
                    functions.append(n)
                elif st == "class":
                    classes.append(n)
                if st == "unused" and rng.random() < 0.7:
                    continue
                for _ in range(rng.randint(1, 2)):
                    r = rng.random()
                    if r < 0.6:
                        body.append((("inst", ref), rng.choice([p for p in EXPR_POS if cg.POS[p][1] == "m"])))
                    elif r < 0.75:
                        body.append((("inst", (n.lower(), "Thing")), rng.choice([p for p in ASSIGN_LIKE if cg.POS[p][1] == "m"])))
                    elif r < 0.9:
                        body.append((("call", n, "run"), rng.choice([p for p in ASSIGN_LIKE if cg.POS[p][1] == "m"])))
                    else:
                        members.append(("attr", "f_" + n.lower(), ("ref", ref)))
            rng.shuffle(body)
            members.append(("method", dict(name="run", decos=[], params=[], ret=None, body=body + [(("inst", ("", "Own")), "PAssignValue")])))
            c = mk_case(dict(imports=imports, classes=classes), dict(name="K%d" % fi, bases=[], members=members), "multifile", {"form": "random", "project": pi})
            c["functions"] = functions
            files.append(("%s%d_mod.py" % (rng.choice("abmz"), fi), c))
        projs.append({"files": files, "tags": {"form": "random", "project": pi, "files": len(files)}})
    return projs


def check_multifile(ck, projs, index, results, model):
    """Every class of every file of a project, as `pyscn analyze --json --select cbo <dir>` reports it in ONE run over the directory,
    against the per-file model (and the classes it names in its own file), and against the run over its file alone."""
    n = n_bad = 0
    for pi, pr in enumerate(projs):
        d = lib.fresh_dir("c13_mf")
        srcs = {fname: case_src(c) for fname, c in pr["files"]}
        got = cli_classes(ck, d, "[cbo]\nshow_zeros = true\n", srcs)
        if got is None:
            continue
        for fname, c in pr["files"]:
            idx = index[id(c)]
            n += 1
            cl = got.get((fname, c["cls"]["name"]))
            replay = {"kind": "multifile", "tags": pr["tags"], "files": srcs, "file": fname, "class": c["cls"]["name"],
                      "command": "pyscn analyze --json --select cbo .  (with .pyscn.toml: [cbo] show_zeros = true)"}
            if cl is None:
                n_bad += 1
                ck.violation("class %s of %s is missing from the report of the run over %s" % (c["cls"]["name"], fname, sorted(srcs)), replay)
                continue
            cli = (cl["Metrics"]["CouplingCount"], sorted(cl["Metrics"]["DependentClasses"] or []), cl["RiskLevel"])
            replay["cli"] = {"cbo": cli[0], "deps": cli[1], "risk": cli[2]}
            want = None
            if model is not None:
                mcount, mdeps, mrisk, sdeps = model[idx]
                want = (mcount, sorted(dep_name(x) for x in mdeps), {v: k for k, v in RISK.items()}[mrisk])
                replay["model_of_the_file_alone"] = {"cbo": want[0], "deps": want[1], "risk": want[2]}
            alone = results[idx]
            if alone is not None:
                replay["run_over_the_file_alone"] = alone
            if want is not None and cli != want:
                n_bad += 1
                if n_bad <= 4:
                    ck.violation("run over %s: class %s of %s has CBO %d %s (%s); its own file gives CBO %d %s (%s) [Class/CBO.v on the file alone: the CBO of a class "
                                 "depends on its own file only; extra %s, missing %s]"
                                 % (sorted(srcs), c["cls"]["name"], fname, cli[0], cli[1], cli[2], want[0], want[1], want[2],
                                    sorted(set(cli[1]) - set(want[1])), sorted(set(want[1]) - set(cli[1]))), replay)
            elif alone is not None and cli != (alone["cbo"], alone["deps"], alone["risk"]):
                n_bad += 1
                if n_bad <= 4:
                    ck.violation("run over %s: class %s of %s has CBO %d %s (%s); the run over %s alone gives CBO %d %s (%s)"
                                 % (sorted(srcs), c["cls"]["name"], fname, cli[0], cli[1], cli[2], fname, alone["cbo"], alone["deps"], alone["risk"]), replay)
    return n, n_bad


def coq_opts(case, dlow, dmed):
    lo = dlow if case["low"] is None else case["low"]
    me = dmed if case["med"] is None else case["med"]
    return "(CboOptions %s (%d)%%Z (%d)%%Z)" % ("true" if case["inc"] else "false", lo, me)


def dep_name(r):
    m, n = r
    return (cg.decode(m) + "." if m else "") + cg.decode(n)


def eval_coq(ck, cases, dlow, dmed):
    jobs = []
    shard = min(300, max(120, -(-len(cases) // 24)))       # two rounds of the 12 workers when possible
    for off in range(0, len(cases), shard):
        items = ["run_cbo %s %s %s" % (coq_opts(c, dlow, dmed), cg.file_coq(c["file"], c["cls"]), cg.class_coq(c["cls"])) for c in cases[off:off + shard]]
        jobs.append(("C13_cases_%d" % off, REQ, "Definition cases := %s.\nEval vm_compute in cases.\n" % cg.clist(items)))
    res = []
    for out in lib.coq_eval_many(jobs, workers=12):
        res += lib.parse_coq_values(out)[0]
    return res


def check_position_table(ck):
    """Class/Syntax.v:pos_path against the real parser, for every position and mention kind."""
    out = lib.coq_eval("C13_table", REQ, "Eval vm_compute in (all_positions, position_table, cbo_reached_table).\n")
    names, table, reached = lib.parse_coq_values(out)[0]
    table = [[x.strip('"') if isinstance(x, str) else x for x in row] for row in table]
    if list(names) != cg.POS_NAMES:
        ck.broken_ties.append("positions of harness/classgen.py and Class/Syntax.v differ: %s" % (set(names) ^ set(cg.POS_NAMES)))
        return 0
    reqs, meta = [], []
    for (pname, anchor, kinds, _), row in zip(cg.POSITIONS, table):
        for kind, marker in ((("inst", ("", "MARK")), "MARK"), (("attr", "self", "mark"), "mark"), (("call", "self", "mark"), "mark")):
            if kinds == "t" and kind[0] != "attr":
                continue
            m = (kind, pname)
            members = [("stmt", m)] if anchor == "c" else [("method", dict(name="run", decos=[], params=[], ret=None, body=[m]))]
            src = cg.file_src(dict(imports=[], classes=[]), dict(name="K", bases=[], members=members))
            reqs.append({"op": "find-path", "src": src, "marker": marker})
            meta.append((pname, kind[0], row, src))
    # argument slots: Syntax.v slot_path against buildCall / buildCallArguments
    out = lib.coq_eval("C13_slots", REQ, "Eval vm_compute in (all_slots, slot_table).\n")
    snames, stable = lib.parse_coq_values(out)[0]
    stable = [[x.strip('"') if isinstance(x, str) else x for x in row] for row in stable]
    if list(snames) != cg.SLOTS:
        ck.broken_ties.append("argument slots of harness/classgen.py and Class/Syntax.v differ: %s vs %s" % (snames, cg.SLOTS))
        return 0
    ptab = dict(zip(cg.POS_NAMES, table))
    for sname, srow in zip(cg.SLOTS, stable):
        for hpos in ("PBody", "PAssignValue", "PReturnValue"):
            for host in (("inst", ("", "Host")), ("call", "self", "host")):
                for kind, marker in ((("inst", ("", "MARK")), "MARK"), (("attr", "self", "mark"), "mark")):
                    m = (host, hpos, [(sname, (kind, []))])
                    src = cg.file_src(dict(imports=[], classes=[]), dict(name="K", bases=[], members=[("method", dict(name="run", decos=[], params=[], ret=None, body=[m]))]))
                    reqs.append({"op": "find-path", "src": src, "marker": marker})
                    meta.append(("%s in %s" % (sname, hpos), kind[0], ptab[hpos] + srow, src))
    res = lib.driver(reqs)
    bad = 0
    for (pname, k, row, src), r in zip(meta, res):
        want = None if row == ["LOST"] else (row + ([] if k == "attr" else ["Value"]))
        got = [p[1:] for p in r.get("paths", [])]
        ok = (got == [] and want is None) or got == [want]
        if not ok:
            bad += 1
            if bad <= 3:
                ck.broken_ties.append("parser model: position %s (%s): Syntax.v pos_path says %s, ast_builder.go gives %s for\n%s" % (pname, k, want, got, src))
    return len(reqs)


def check_extra_positions(ck):
    """positions OUTSIDE Class/Syntax.v (the Python templates of c14.EXTRA_POSITIONS that can hold any expression): an instantiation
    Dep() of a same-file class / of a class imported with `from m import Imp`, bare and hidden in an argument of another call, must be
    counted.  The oracle is Python's own parser: the classes K instantiates are the ast.Call nodes under K whose callee is such a name."""
    import ast
    import c14
    reqs, meta = [], []
    for pname, group, kinds, tpl in c14.EXTRA_POSITIONS:
        if kinds != "e":
            continue
        for form, head, name in (("local", ["class Dep:", "    pass", "", "class Other:", "    pass", ""], "Dep"),
                                 ("from-import", ["from m import Imp, Unused", ""], "Imp")):
            for shape, expr in (("bare", "%s()" % name), ("argument", "fn(k=other.g(%s()))" % name)):
                lines = head + ["class K:", "    def a(self):"] + ["        " + l.replace("$E", expr) for l in tpl]
                src = "\n".join(lines) + "\n"
                cls = [n for n in ast.walk(ast.parse(src)) if isinstance(n, ast.ClassDef) and n.name == "K"][0]
                want = sorted({n.func.id for n in ast.walk(cls) if isinstance(n, ast.Call) and isinstance(n.func, ast.Name) and n.func.id in ("Dep", "Imp")})
                reqs.append({"op": "cbo", "src": src})
                meta.append((pname, group, form, shape, src, want))
    n_bad = 0
    for (pname, group, form, shape, src, want), r in zip(meta, lib.driver(reqs)):
        ks = [x for x in r.get("classes", []) if x["name"] == "K"] if "error" not in r else []
        got = (ks[0]["cbo"], ks[0]["deps"]) if len(ks) == 1 else None
        if got == (len(want), want):
            continue
        tags = {"class": "position-outside-syntax", "position": pname, "position_group": group, "form": form, "shape": shape,
                "only_that_instantiation_missing": got == (0, [])}
        e = ck.match_known(tags)
        if e:
            ck.known_finding(e)
            continue
        n_bad += 1
        if n_bad <= 6:
            ck.violation("CBO %s; Python's syntax tree of class K has the instantiation(s) %s (position %s, %s, %s)" % (got, want, pname, form, shape),
                         {"kind": "extra-position", "tags": tags, "source": src, "impl": ks[0] if ks else r, "spec": {"cbo": len(want), "deps": want}})
    return len(reqs)


def e2e(ck, cases, impl):
    """the same classes through `pyscn analyze --json --select cbo,lcom` with [cbo] show_zeros = true"""
    d = lib.fresh_dir("c13_e2e")
    with open(os.path.join(d, ".pyscn.toml"), "w") as f:
        f.write("[cbo]\nshow_zeros = true\n")
    picked = []
    for i, (c, r) in enumerate(zip(cases, impl)):
        if c["low"] is None and not c["inc"] and "error" not in r:
            picked.append((i, c, r))
    step = max(1, len(picked) // 40)
    picked = picked[::step][:48]
    for i, c, r in picked:
        with open(os.path.join(d, "mod_%d.py" % i), "w") as f:
            f.write(case_src(c))
    rc, data, err = lib.analyze_json(d, ["--select", "cbo,lcom"])
    if data is None or "cbo" not in data:
        ck.broken_ties.append("e2e: pyscn analyze produced no cbo report (rc=%s): %s" % (rc, err[-300:]))
        return 0
    got = {}
    for cl in data["cbo"].get("Classes") or []:
        got[(os.path.basename(cl["FilePath"]), cl["Name"])] = cl
    n = 0
    for i, c, r in picked:
        for ic in r["classes"]:
            n += 1
            cl = got.get(("mod_%d.py" % i, ic["name"]))
            if cl is None:
                ck.violation("class %s of mod_%d.py missing from cbo.Classes[] although [cbo] show_zeros = true" % (ic["name"], i),
                             {"kind": "e2e", "source": case_src(c), "driver": ic})
                continue
            cli = (cl["Metrics"]["CouplingCount"], sorted(cl["Metrics"]["DependentClasses"] or []), cl["RiskLevel"])
            if cli != (ic["cbo"], ic["deps"], ic["risk"]):
                ck.violation("pyscn analyze reports %s for class %s, the analyser called directly reports %s" % (cli, ic["name"], (ic["cbo"], ic["deps"], ic["risk"])),
                             {"kind": "e2e", "source": case_src(c), "cli": cl, "driver": ic})
    # configured thresholds through .pyscn.toml
    d2 = lib.fresh_dir("c13_e2e_thr")
    with open(os.path.join(d2, ".pyscn.toml"), "w") as f:
        f.write("[cbo]\nshow_zeros = true\nlow_threshold = 1\nmedium_threshold = 2\n")
    tc = threshold_cases()
    ks = {}
    for c in tc:
        ks[c["tags"]["k"]] = c
    for k, c in ks.items():
        with open(os.path.join(d2, "thr_%d.py" % k), "w") as f:
            f.write(cg.file_src(c["file"], c["cls"]))
    rc, data, err = lib.analyze_json(d2, ["--select", "cbo"])
    if data is None or "cbo" not in data:
        ck.broken_ties.append("e2e thresholds: pyscn analyze produced no cbo report (rc=%s)" % rc)
        return n
    for cl in data["cbo"].get("Classes") or []:
        if cl["Name"] != "K":
            continue
        n += 1
        cnt = cl["Metrics"]["CouplingCount"]
        want = spec_risk(1, 2, cnt)
        if RISK.get(cl["RiskLevel"]) != want:
            tags = {"class": "toml-thresholds-ignored", "risk_follows_defaults": RISK.get(cl["RiskLevel"]) == spec_risk(3, 7, cnt)}
            ck.violation("risk level %s for CBO %d does not follow the configured thresholds low=1 medium=2" % (cl["RiskLevel"], cnt),
                         {"kind": "e2e-thresholds", "toml": "[cbo] low_threshold = 1, medium_threshold = 2", "class": cl, "tags": tags})
    return n


def main(tier):
    ck = lib.Check("C13", tier)
    ck.prepare("C13.v")
    rng = ck.rng
    thorough = tier == "thorough"
    n_rand = 400 if thorough else 45
    model_ok = not any(("Class/Syntax" in f or "Class/SetK" in f or "Class/CBO.v" in f or "Class/CBORun" in f or "Gen/" in f) for f in ck.failed_files)
    if not ck.go_ok or not model_ok:
        ck.broken_ties.append("cannot run the correspondence (go build ok=%s, model compiles=%s)" % (ck.go_ok, model_ok))
        ck.finish()

    n_table = 0
    try:
        n_table = check_position_table(ck)
    except Exception as e:
        ck.broken_ties.append("position table check failed: %s" % str(e)[-600:])

    n_extra = 0
    try:
        n_extra = check_extra_positions(ck)
    except Exception as e:
        ck.broken_ties.append("extra position check failed: %s" % str(e)[-600:])

    cases = position_matrix() + nested_matrix() + annotation_matrix() + threshold_cases() + builtin_core_cases() + builtin_inc_cases()
    # project classes named like a built-in (names from the regenerated tables of cbo.go)
    try:
        BUILTIN_TABLES["types"], BUILTIN_TABLES["functions"] = builtin_tables()
        if not BUILTIN_TABLES["types"]:
            ck.broken_ties.append("the built-in type table of cbo.go (Gen/ClassConst.v:cbo_builtin_types) is empty")
        else:
            cases += builtin_named_cases(rng, BUILTIN_TABLES["types"], BUILTIN_TABLES["functions"])
    except Exception as e:
        ck.broken_ties.append("cannot read the built-in tables (Gen/ClassConst.v): %s" % str(e)[-600:])
    # built-ins included: tie only
    for c in annotation_matrix()[::7] + position_matrix()[7::23]:
        c = dict(c, inc=True)
        cases.append(c)
    # several defs sharing one name in the class subtree, every member order
    sn_cases, sn_groups = samename_cases()
    sn_groups = [[len(cases) + i for i in g] for g in sn_groups]
    cases += sn_cases
    # default values of parameters: names / attribute chains / operator expressions read there are no couplings, instantiations are
    td_cases = typed_default_cases()
    cases += td_cases
    meta = []       # (base index, [variant indexes with relation])
    for _ in range(n_rand):
        f, c = rand_class(rng, allow_qualified=rng.random() < 0.5)
        bi = len(cases)
        cases.append(mk_case(f, c, "random", {"position": "mixed", "form": "mixed"}))
        vs = []
        for label, f2, c2, rel in variants(rng, f, c):
            vs.append((len(cases), label, rel))
            cases.append(mk_case(f2, c2, "variant:" + label, {"position": "mixed", "form": "mixed"}))
        meta.append((bi, vs))

    projs = multifile_projects(rng, 60 if thorough else 12)
    mf_index = {}
    for pr in projs:
        for _, c in pr["files"]:
            mf_index[id(c)] = len(cases)
            cases.append(c)

    reqs = []
    for c in cases:
        r = {"op": "cbo", "src": case_src(c), "include_builtins": c["inc"]}
        if c["low"] is not None:
            r["low"], r["medium"] = c["low"], c["med"]
        reqs.append(r)
    impl = lib.driver(reqs)
    dlow, dmed = impl[0].get("low", 3), impl[0].get("medium", 7)
    try:
        model = eval_coq(ck, cases, dlow, dmed)
    except Exception as e:
        ck.broken_ties.append("model evaluation failed: %s" % str(e)[-800:])
        model = None

    n_viol = n_tie = n_known = 0
    dist = {}
    results = []
    distinct = set()
    for idx, (c, r) in enumerate(zip(cases, impl)):
        dist[c["kind"].split(":")[0]] = dist.get(c["kind"].split(":")[0], 0) + 1
        src = reqs[idx]["src"]
        distinct.add(src)
        if "error" in r:
            ck.violation("CBO analysis failed: %s" % r["error"], {"source": src})
            results.append(None)
            continue
        ic = [x for x in r["classes"] if x["name"] == c["cls"]["name"]]
        if len(ic) != 1:
            ck.violation("class %s reported %d times" % (c["cls"]["name"], len(ic)), {"source": src, "impl": r})
            results.append(None)
            continue
        ic = ic[0]
        results.append(ic)
        lo = dlow if c["low"] is None else c["low"]
        me = dmed if c["med"] is None else c["med"]
        replay = {"kind": c["kind"], "tags": c["tags"], "source": src, "options": {"include_builtins": c["inc"], "low": lo, "medium": me}, "impl": ic}
        # --- the property on the implementation's own output
        if ic["cbo"] != len(set(ic["deps"])) or len(ic["deps"]) != len(set(ic["deps"])):
            n_viol += 1
            ck.violation("CBO %d is not the number of distinct listed dependencies %s" % (ic["cbo"], ic["deps"]), replay)
            continue
        if RISK.get(ic["risk"]) != spec_risk(lo, me, ic["cbo"]):
            n_viol += 1
            ck.violation("risk level %s for CBO %d does not follow the thresholds low=%d medium=%d" % (ic["risk"], ic["cbo"], lo, me), replay)
            continue
        if c["kind"] == "builtin-core" and ic["deps"]:
            n_viol += 1
            ck.violation("Python built-in %s is counted as a coupled class: %s" % (c["tags"]["builtin"], ic["deps"]), replay)
            continue
        if model is None:
            continue
        mcount, mdeps, mrisk, sdeps = model[idx]
        mdeps = sorted(dep_name(x) for x in mdeps)
        sdeps = sorted(dep_name(x) for x in sdeps)
        replay.update(model={"count": mcount, "deps": mdeps, "risk": mrisk}, spec_deps=sdeps)
        same_as_model = (ic["cbo"], ic["deps"], RISK.get(ic["risk"])) == (mcount, mdeps, mrisk)
        if not c["inc"] and ic["deps"] != sdeps:
            missing = sorted(set(sdeps) - set(ic["deps"]))
            extra = sorted(set(ic["deps"]) - set(sdeps))
            replay["tags"] = dict(c["tags"], impl_equals_model=same_as_model)
            n_viol += 1
            if n_viol <= 6:
                ck.violation("CBO dependencies %s differ from the classes the class names %s (missing %s, extra %s) [%s]"
                             % (ic["deps"], sdeps, missing, extra, c["tags"]), replay)
            continue
        if not same_as_model:
            n_tie += 1
            if n_tie <= 3:
                ck.violation("implementation %s differs from the model of cbo.go %s" % ((ic["cbo"], ic["deps"], ic["risk"]), (mcount, mdeps, mrisk)), replay)

    # --- metamorphic laws on the implementation
    n_meta = 0
    for bi, vs in meta:
        b = results[bi]
        if b is None:
            continue
        for vi, label, rel in vs:
            v = results[vi]
            if v is None:
                continue
            n_meta += 1
            want = sorted(b["deps"]) if rel == "same" else sorted(set(b["deps"]) | {rel[1]})
            wantn = b["cbo"] if rel == "same" else b["cbo"] + 1
            if (v["cbo"], v["deps"]) != (wantn, want):
                ck.violation("law '%s' broken: CBO %d %s became %d %s, expected %d %s" % (label, b["cbo"], b["deps"], v["cbo"], v["deps"], wantn, want),
                             {"kind": "metamorphic:" + label, "source": reqs[bi]["src"], "variant_source": reqs[vi]["src"], "impl": b, "impl_variant": v})

    # --- permuting the members of a class (same-named defs among them) leaves the set of coupled classes unchanged
    n_perm_bad = 0
    for g in sn_groups:
        rs = [(i, results[i]) for i in g if results[i] is not None]
        for i, v in rs[1:]:
            n_meta += 1
            b = rs[0][1]
            if (v["cbo"], v["deps"], v["risk"]) != (b["cbo"], b["deps"], b["risk"]):
                n_perm_bad += 1
                if n_perm_bad <= 3:
                    ck.violation("law 'permute the members of the class' broken: CBO %d %s (%s) with the members in one order, %d %s (%s) in another [%s]"
                                 % (b["cbo"], b["deps"], b["risk"], v["cbo"], v["deps"], v["risk"], cases[i]["tags"]),
                                 {"kind": "metamorphic:permute-members", "tags": cases[i]["tags"], "source": reqs[rs[0][0]]["src"], "variant_source": reqs[i]["src"],
                                  "impl": b, "impl_variant": v})

    n_mf = 0
    try:
        n_mf, bad_mf = check_multifile(ck, projs, mf_index, results, model)
        n_viol += bad_mf
    except Exception as e:
        ck.broken_ties.append("multi-file runs failed: %s" % str(e)[-600:])

    n_e2e = 0
    try:
        n_e2e = e2e(ck, cases, impl)
    except Exception as e:
        ck.broken_ties.append("e2e run failed: %s" % str(e)[-600:])
    try:
        n_e2e += e2e_options(ck, cases, impl)
    except Exception as e:
        ck.broken_ties.append("e2e options run failed: %s" % str(e)[-600:])

    # subscripted forms (parametrised base class, module-qualified generic container): Class/CBOGeneric.v, Props/C13Generic.v
    n_gen = 0
    try:
        pr = lib.check_props("C13Generic.v")
        ck.obligations = list(ck.obligations) + pr["names"]
        if pr["ok"]:
            ck.discharged = list(ck.discharged) + pr["names"]
            ck.assumptions_printed += ["%s: %s" % (a, b) for a, b in pr["theorems"]]
        else:
            ck.broken_ties.append("proof: Props/C13Generic.v does not check: %s" % pr["log"][-1200:])
        n_gen, k2, b2 = check_generic(ck)
        n_known += k2
        n_viol += b2
    except Exception as e:
        ck.broken_ties.append("generic (subscript) cases failed: %s" % str(e)[-800:])

    ck.samples = [{"source": reqs[i]["src"], "impl": results[i], "tags": cases[i]["tags"]} for i in (3, len(position_matrix()) + 5, len(cases) - 3) if results[i]]
    ck.cov.update({
        "evaluations": len(cases) + n_table + n_extra + n_e2e + n_gen + n_mf,
        "distinct_nontrivial": len(distinct),
        "rule": "position x import-form matrix (one instantiation per class), nested matrix (an instantiation hidden in the argument list of another call: "
                "host kind x argument slot x statement context, full cross for assignment-like contexts, depth up to 4, one-more-argument pairs), base/annotation form x shape x place matrix, "
                "project classes NAMED like a built-in (every name of cbo.go's regenerated built-in type table and some of its function table: written through a module - import m / import m as a / unimported qualifier - as base, in an annotation (place and shape rotate) and instantiated (position rotates over all expression positions, and hidden in an argument slot): counted under the dotted name; written bare after from-import / import-as / a same-file class of that name: the built-in by name; include_builtins false and true), "
                "several function definitions sharing ONE name inside the class subtree (@property getter + @x.setter + @x.deleter, @overload stubs + implementation, plain redefinition - also async / static / class method -, "
                "same-named local helper functions inside different methods, __init__ of the class and of nested classes, same-named methods of nested classes; 2 and 3 defs) with one otherwise-unmentioned project class "
                "(import form rotates) in one coupling position (parameter annotation, return annotation - shape rotates -, default value, body instantiation at a rotating position / hidden in an argument, method call on the name, base class) "
                "of the FIRST / MIDDLE / LAST def, the other defs bare / typed with classes of their own, in EVERY order of the members holding the defs, thresholds placed at / next to the count: "
                "decided against Class/CBO.v (nested defs and nested-class methods flattened into methods of the class) and by the law that permuting the members leaves count, set and risk unchanged, "
                "DEFAULT VALUES of parameters (7 hosts of the def: method, __init__, static / class / async method, helper nested in a method, method of a nested class x positional-only / ordinary / keyword-only parameter "
                "beside *args: T / **kw: T / bare * / untyped and literal-default neighbours x 27 value forms: upper / lower / CamelCase constant name, imported / same-file / own class used as a VALUE, enum member of the annotation class and of another class, "
                "attribute chain, subscript, a | b, unary, sum, tuple / list / dict / starred display, ternary, comparison, lambda reading a name / an attribute - none of them a coupling - and Dep(), lambda: Dep(), Dep(Conf.X, key=KEY) - an instantiation, import form rotating -; "
                "annotation of the parameter rotating over none / built-in / project class / generic / union / string, and every value x every annotation once more; one class per host with all value forms at once; thresholds at / next to the true count): "
                "the value is written into the .py text, Class/CBO.v gets the annotations and the instantiation only, the dependency set is compared exactly, "
                "threshold lattice (0..10 dependencies x 10 threshold pairs), random classes (a quarter of the methods re-use the name of an earlier method) with 5 metamorphic variants each "
                "(repeat, reorder, rename self, add unrelated, add one coupled class - also one living in another module and named like a built-in type), built-ins included (every position x built-in type; built-in function / local class in assignment-like positions), "
                "positions outside Class/Syntax.v as Python templates (c14.EXTRA_POSITIONS that hold any expression: f-string in an implicit concatenation, yield from, except T as e, every `if` of a comprehension, typed defaults of a nested def, bases / keywords of a nested class, match guard, slices, await ...) x (local class, from-import) x (bare, hidden in an argument), decided against the ast.Call nodes of Python's own syntax tree, "
                "subscripted forms (class K(Base[T]) x import form x arity, x: mod.Container[T] x place x import form), parser position table (find-path), "
                "multi-file runs (projects of 2-4 files analysed in ONE `pyscn analyze --select cbo` run: a file imports a name by from-import / import-as / module import / module import-as, "
                "another file uses it WITHOUT importing it - there a plain function, a local class, undefined, or imported too - by instantiation at a rotating position / method call on the name / both; "
                "importer's file name sorting before and after the user's; plus random projects over a shared pool of names with a per-file status; every class against Class/CBO.v evaluated on its own file "
                "and against the run over the file alone), "
                "CLI runs (default, [cbo] thresholds, include_builtins = true, include_imports = false, [analysis] exclude_patterns matching class names); "
                "distinct = distinct source texts",
        "input_distribution": dict(dist, position_table_probes=n_table, python_template_positions=n_extra, metamorphic_relations=n_meta, e2e_classes=n_e2e, subscript_forms=n_gen,
                                   multifile_projects=len(projs), multifile_classes_checked=n_mf, samename_groups=len(sn_groups), param_default_cases=len(td_cases), samename_permutation_disagreements=n_perm_bad),
        "known_finding_cases": n_known,
        "model_mismatches": n_tie,
        "disagreements_checked": n_viol + n_tie + n_known,
    })
    ck.trusted += ["Coq 8.16.1 kernel, vm_compute for model evaluation", "translator /verif/translator/gen_class.go (walked fields, built-in tables, flags, risk comparisons)",
                   "tree-sitter and its Python grammar (the parser model Class/Syntax.v:pos_path is checked against ast_builder.go per position, not proved)",
                   "hand-written model Class/CBO.v of internal/analyzer/cbo.go on the class-level syntax; harness/classgen.py pretty-printer (one template per position)",
                   "same-named defs: a helper nested in a method / a method of a nested class is handed to Class/CBO.v as a method of the class itself (c13.py:sn_unit_members)",
                   "the container of a generic annotation (List[...], Dict[...]) is read as a typing construct, not as a coupled class"]
    ck.finish(assumptions=["classes are expressed in the class-level syntax of Class/Syntax.v; exclude patterns empty (as `pyscn analyze` passes them)"])
