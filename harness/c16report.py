"""C16 helpers: internal-consistency check of one pyscn report (the property itself, recomputed in Python from
the detailed items of the same report), format comparison (JSON vs YAML as data; headline numbers of CSV, text,
HTML), and the generated projects."""
import json
import os
import re

import lib

SEV_LEVEL = {"critical": 3, "warning": 2, "info": 1}
TOL = 1e-12


def parse_labels():
    """Bucket labels per section from the comments of the generated Gen/ReportConst.v."""
    src = open(os.path.join(lib.COQ, "Gen", "ReportConst.v")).read()
    out = {}
    for fn, sec in (("getComplexityDistributionKey", "complexity"), ("getCBORange", "cbo"), ("getLCOMRange", "lcom")):
        m = re.search(r"%s — labels ([^*]*?) \*\)" % fn, src)
        out[sec] = [x.strip() for x in m.group(1).split("|")] if m else []
    return out


def label_ranges(labels):
    """[(lo, hi or None)] the labels denote: 'n', 'a-b', 'n+' (= everything above the explicit ranges)."""
    rs, mx = [], None
    for l in labels:
        m = re.fullmatch(r"(\d+)-(\d+)", l)
        if m:
            rs.append((int(m.group(1)), int(m.group(2))))
        elif re.fullmatch(r"\d+", l):
            rs.append((int(l), int(l)))
        else:
            rs.append(None)
    mx = max(r[1] for r in rs if r)
    return [r if r else (mx + 1, None) for r in rs]


def in_range(r, x):
    return r[0] <= x and (r[1] is None or x <= r[1])


def feq(a, b):
    return a == b or abs(a - b) <= TOL * max(1.0, abs(a), abs(b))


def risk_of(x, low, med):
    return "low" if x <= low else "medium" if x <= med else "high"


def mean(vals):
    return (sum(vals) / len(vals)) if vals else 0.0


class Problems:
    def __init__(self):
        self.items = []   # (tags, message)
        self.checked = 0
        self.ratios = []  # derived ratios of the unified summary, to be decided against the Coq model on this report's statistics

    def eq(self, section, field, got, want, extra=None, flt=False):
        self.checked += 1
        ok = feq(got, want) if flt and isinstance(got, (int, float)) and isinstance(want, (int, float)) else got == want
        if not ok:
            tags = {"section": section, "field": field}
            if extra:
                tags.update(extra)
            self.items.append((tags, "%s.%s = %r but the items of the same report give %r" % (section, field, got, want)))

    def bad(self, section, field, msg, extra=None):
        tags = {"section": section, "field": field}
        if extra:
            tags.update(extra)
        self.items.append((tags, "%s.%s: %s" % (section, field, msg)))


def check_vsection(P, name, items, vals, risks, S, keys, labels, cfg_low, cfg_med, dist_key, domain_lo):
    n = len(items)
    P.eq(name, keys["total"], S.get(keys["total"]), n)
    P.eq(name, keys["avg"], S.get(keys["avg"]), mean(vals), flt=True)
    P.eq(name, keys["max"], S.get(keys["max"]), max(vals) if vals else 0)
    P.eq(name, keys["min"], S.get(keys["min"]), min(vals) if vals else 0)
    for lvl in ("low", "medium", "high"):
        P.eq(name, keys[lvl], S.get(keys[lvl]), sum(1 for r in risks if r == lvl))
    P.eq(name, "risk_counts_sum", S.get(keys["low"], 0) + S.get(keys["medium"], 0) + S.get(keys["high"], 0), n)
    dist = S.get(dist_key) or {}
    rs = label_ranges(labels)
    for lab, r in zip(labels, rs):
        want = sum(1 for v in vals if in_range(r, v)) if all(v >= domain_lo for v in vals) else None
        if want is not None:
            P.eq(name, "distribution[%s]" % lab, dist.get(lab, 0), want)
    for k in dist:
        if k not in labels:
            P.bad(name, "distribution", "unknown bucket %r" % k)
    P.eq(name, "distribution_sum", sum(dist.values()), n)
    if cfg_low is not None and cfg_med is not None:
        # every item: its risk level is the classification of its OWN reported metric by the thresholds echoed in this report ...
        for it, v, r in zip(items, vals, risks):
            P.checked += 1
            if r != risk_of(v, cfg_low, cfg_med):
                P.bad(name, "risk_level", "item %s with metric %d has risk %r, the echoed thresholds %s/%s give %r"
                      % (it.get("Name", "?"), v, r, cfg_low, cfg_med, risk_of(v, cfg_low, cfg_med)))
        # ... hence the summary's risk counts are the counts of the items' metrics classified by the echoed thresholds
        for lvl in ("low", "medium", "high"):
            P.eq(name, keys[lvl] + "_by_metric", S.get(keys[lvl]), sum(1 for v in vals if risk_of(v, cfg_low, cfg_med) == lvl))


def check_report(data, labels):
    """Every summary number of one JSON report against the items of the same report."""
    P = Problems()
    U = data.get("summary") or {}
    cx = data.get("complexity")
    if cx:
        fs = cx.get("Functions") or []
        vals = [f["Metrics"]["Complexity"] for f in fs]
        risks = [f["RiskLevel"] for f in fs]
        cfg = cx.get("Config") or {}
        check_vsection(P, "complexity", fs, vals, risks, cx["Summary"],
                       dict(total="TotalFunctions", avg="AverageComplexity", max="MaxComplexity", min="MinComplexity",
                            low="LowRiskFunctions", medium="MediumRiskFunctions", high="HighRiskFunctions"),
                       labels["complexity"], cfg.get("low_threshold"), cfg.get("medium_threshold"), "ComplexityDistribution", 1)
        mn = cfg.get("min_complexity")
        if mn is not None:
            for v in vals:
                P.checked += 1
                if v < mn:
                    P.bad("complexity", "filter", "function with complexity %d reported, echoed min_complexity %d" % (v, mn))
        P.eq("summary", "total_functions", U.get("total_functions"), len(fs))
        P.eq("summary", "average_complexity", U.get("average_complexity"), cx["Summary"]["AverageComplexity"])
        P.eq("summary", "high_complexity_count", U.get("high_complexity_count"), sum(1 for r in risks if r == "high"))
        if cfg.get("low_threshold") is not None and cfg.get("medium_threshold") is not None:
            P.eq("summary", "high_complexity_count_by_metric", U.get("high_complexity_count"),
                 sum(1 for v in vals if risk_of(v, cfg["low_threshold"], cfg["medium_threshold"]) == "high"))
        P.eq("summary", "total_files", U.get("total_files"), cx["Summary"]["FilesAnalyzed"])
    dc = data.get("dead_code")
    if dc:
        files = dc.get("files") or []
        S = dc["summary"]
        allf, fns = [], []
        for f in files:
            ff = f.get("functions") or []
            fns += ff
            nf = 0
            for fn in ff:
                fd = fn.get("findings") or []
                nf += len(fd)
                allf += fd
                for sv, k in (("critical", "critical_count"), ("warning", "warning_count"), ("info", "info_count")):
                    P.eq("dead_code", "function." + k, fn.get(k), sum(1 for x in fd if x["severity"] == sv))
            P.eq("dead_code", "file.total_findings", f.get("total_findings"), nf)
            P.eq("dead_code", "file.affected_functions", f.get("affected_functions"), len(ff))
        P.eq("dead_code", "total_findings", S["total_findings"], len(allf))
        P.eq("dead_code", "files_with_dead_code", S["files_with_dead_code"], len(files))
        P.eq("dead_code", "functions_with_dead_code", S["functions_with_dead_code"], len(fns))
        P.eq("dead_code", "total_functions", S["total_functions"], sum(f["total_functions"] for f in files))
        for sv, k in (("critical", "critical_findings"), ("warning", "warning_findings"), ("info", "info_findings")):
            P.eq("dead_code", k, S[k], sum(1 for x in allf if x["severity"] == sv))
        P.eq("dead_code", "severity_sum", S["critical_findings"] + S["warning_findings"] + S["info_findings"],
             sum(1 for x in allf if x["severity"] in SEV_LEVEL))
        by = {}
        for x in allf:
            by[x["reason"]] = by.get(x["reason"], 0) + 1
        P.eq("dead_code", "findings_by_reason", S.get("findings_by_reason") or {}, by)
        tb, db = sum(fn["total_blocks"] for fn in fns), sum(fn["dead_blocks"] for fn in fns)
        P.eq("dead_code", "total_blocks", S["total_blocks"], tb)
        P.eq("dead_code", "dead_blocks", S["dead_blocks"], db)
        P.eq("dead_code", "overall_dead_ratio", S["overall_dead_ratio"], (db / tb) if tb > 0 else 0.0, flt=True)
        ms = (dc.get("config") or {}).get("min_severity")
        if ms is not None:
            for x in allf:
                P.checked += 1
                if SEV_LEVEL.get(x["severity"], 0) < SEV_LEVEL.get(ms, 0):
                    P.bad("dead_code", "filter", "finding of severity %s reported, echoed min_severity %s" % (x["severity"], ms))
        P.eq("summary", "dead_code_count", U.get("dead_code_count"), len(allf))
        for sv, k in (("critical", "critical_dead_code"), ("warning", "warning_dead_code"), ("info", "info_dead_code")):
            P.eq("summary", k, U.get(k), sum(1 for x in allf if x["severity"] == sv))
        if not cx:
            P.eq("summary", "total_files", U.get("total_files"), S["total_files"])
    for name, key, mkey, skeys, dkey, tkey, cfgk in (
            ("cbo", "cbo", "CouplingCount", dict(total="TotalClasses", avg="AverageCBO", max="MaxCBO", min="MinCBO", low="LowRiskClasses",
                                                 medium="MediumRiskClasses", high="HighRiskClasses"), "CBODistribution", "MostCoupledClasses",
             ("minCBO", "maxCBO")),
            ("lcom", "lcom", "LCOM4", dict(total="TotalClasses", avg="AverageLCOM", max="MaxLCOM", min="MinLCOM", low="LowRiskClasses",
                                           medium="MediumRiskClasses", high="HighRiskClasses"), "LCOMDistribution", "LeastCohesiveClasses",
             ("minLCOM", "maxLCOM"))):
        sec = data.get(key)
        if not sec:
            continue
        cs = sec.get("Classes") or []
        vals = [c["Metrics"][mkey] for c in cs]
        risks = [c["RiskLevel"] for c in cs]
        cfg = sec.get("Config") or {}
        S = sec["Summary"]
        check_vsection(P, name, cs, vals, risks, S, skeys, labels[name], cfg.get("lowThreshold"), cfg.get("mediumThreshold"), dkey,
                       0 if name == "cbo" else 1)
        P.eq(name, "ClassesAnalyzed", S.get("ClassesAnalyzed"), len(cs))
        top = [c["Metrics"][mkey] for c in (S.get(tkey) or [])]
        P.eq(name, tkey, top, sorted(vals, reverse=True)[:10])
        names = sorted((c["Name"], c["FilePath"], c["Metrics"][mkey]) for c in cs)
        for c in S.get(tkey) or []:
            P.checked += 1
            if (c["Name"], c["FilePath"], c["Metrics"][mkey]) not in names:
                P.bad(name, tkey, "class %s is not among the reported classes" % c["Name"])
        mn, mx = cfg.get(cfgk[0]), cfg.get(cfgk[1])
        for v in vals:
            P.checked += 1
            if mn is not None and v < mn:
                P.bad(name, "filter", "class with %s %d reported, echoed minimum %d" % (mkey, v, mn))
            if mx and v > mx:
                P.bad(name, "filter", "class with %s %d reported, echoed maximum %d" % (mkey, v, mx))
            if name == "cbo" and v == 0 and cfg.get("showZeros") is False:
                P.bad(name, "filter", "class with CBO 0 reported although showZeros is false")
        pre = "cbo" if name == "cbo" else "lcom"
        P.eq("summary", pre + "_classes", U.get(pre + "_classes"), len(cs))
        hk, mk, ak = (("high_coupling_classes", "medium_coupling_classes", "average_coupling") if name == "cbo" else
                      ("high_lcom_classes", "medium_lcom_classes", "average_lcom"))
        P.eq("summary", hk, U.get(hk), sum(1 for r in risks if r == "high"))
        P.eq("summary", mk, U.get(mk), sum(1 for r in risks if r == "medium"))
        if cfg.get("lowThreshold") is not None and cfg.get("mediumThreshold") is not None:
            by = [risk_of(v, cfg["lowThreshold"], cfg["mediumThreshold"]) for v in vals]
            P.eq("summary", hk + "_by_metric", U.get(hk), sum(1 for r in by if r == "high"))
            P.eq("summary", mk + "_by_metric", U.get(mk), sum(1 for r in by if r == "medium"))
        P.eq("summary", ak, U.get(ak), S.get(skeys["avg"]))
    cl = data.get("clone")
    if cl:
        st = cl.get("statistics") or {}
        pairs, groups, clones = cl.get("clone_pairs") or [], cl.get("clone_groups") or [], cl.get("clones") or []
        P.eq("clone", "total_clones", st.get("total_clones"), len(clones))
        P.eq("clone", "total_clone_pairs", st.get("total_clone_pairs"), len(pairs))
        P.eq("clone", "total_clone_groups", st.get("total_clone_groups"), len(groups))
        by = {}
        for p in pairs:
            k = "Type-%d" % p["type"] if 1 <= p["type"] <= 4 else "Unknown"
            by[k] = by.get(k, 0) + 1
        P.eq("clone", "clones_by_type", st.get("clones_by_type") or {}, by)
        tot = 0.0
        for p in pairs:
            tot += p["similarity"]
        P.eq("clone", "average_similarity", st.get("average_similarity"), (tot / len(pairs)) if pairs else 0.0, flt=True)
        req = cl.get("request") or {}
        lo, hi, types = req.get("min_similarity"), req.get("max_similarity"), req.get("clone_types")
        if lo is not None and hi is not None and types is not None:
            for kind, lst in (("pair", pairs), ("group", groups)):
                for p in lst:
                    P.checked += 1
                    if p["similarity"] < lo or p["similarity"] > hi:
                        P.bad("clone", "filter", "%s with similarity %r outside the echoed range [%r, %r]" % (kind, p["similarity"], lo, hi))
                    if p["type"] not in types:
                        P.bad("clone", "filter", "%s of type %r reported, echoed types %r" % (kind, p["type"], types))
        for g in groups:
            P.eq("clone", "group.size", g.get("size"), len(g.get("clones") or []))
        P.eq("summary", "total_clones", U.get("total_clones"), len(clones))
        P.eq("summary", "clone_pairs", U.get("clone_pairs"), len(pairs))
        P.eq("summary", "clone_groups", U.get("clone_groups"), len(groups))
        # the derived ratio of the unified summary: decided by the caller against the Coq model (ReportRun.run_dup =
        # ScoreQ.code_duplication_of) on THIS report's statistics
        P.ratios.append({"has_clone": True, "lines": st.get("lines_analyzed", 0), "groups": st.get("total_clone_groups", 0),
                         "listed_groups": len(groups), "pairs": st.get("total_clone_pairs", 0), "reported": U.get("code_duplication_percentage")})
    elif "code_duplication_percentage" in U:
        P.ratios.append({"has_clone": False, "lines": 0, "groups": 0, "listed_groups": 0, "reported": U.get("code_duplication_percentage")})
    if U:
        # every derived number of the unified summary stays inside its range
        P.checked += 1
        v = U.get("code_duplication_percentage", 0)
        if not (isinstance(v, (int, float)) and 0 <= v <= 100):
            P.bad("summary", "code_duplication_percentage", "value %r is not a percentage" % (v,))
    sy = data.get("system")
    if sy and sy.get("DependencyAnalysis"):
        da = sy["DependencyAnalysis"]
        P.eq("system", "DependencyAnalysis.TotalModules", da.get("TotalModules"), len(da.get("ModuleMetrics") or {}))
        S = sy.get("Summary") or {}
        allzero = all(not v for v in S.values())
        extra = {"all_zero": allzero}
        P.eq("system", "Summary.TotalModules", S.get("TotalModules"), len(da.get("ModuleMetrics") or {}), extra)
        P.eq("summary", "deps_total_modules", U.get("deps_total_modules"), da.get("TotalModules"))
        P.eq("summary", "deps_max_depth", U.get("deps_max_depth"), da.get("MaxDepth"))
        P.eq("summary", "deps_modules_in_cycles", U.get("deps_modules_in_cycles"), (da.get("CircularDependencies") or {}).get("TotalModulesInCycles", 0))
        P.eq("summary", "deps_main_sequence_deviation", U.get("deps_main_sequence_deviation"),
             (da.get("CouplingAnalysis") or {}).get("MainSequenceDeviation", 0), flt=True)
    if sy and U.get("arch_enabled"):
        P.eq("summary", "arch_compliance", U.get("arch_compliance"), (sy.get("ArchitectureAnalysis") or {}).get("ComplianceScore", 0), flt=True)
    return P


# ------------------------------------------------------------------------------------------------
# formats
# ------------------------------------------------------------------------------------------------
VOLATILE = {"generatedat", "durationms", "duration", "outputwriter"}
_DUR = re.compile(r"(\d+(?:\.\d+)?)(ns|us|µs|ms|s|m|h)")
_UNIT = {"ns": 1, "us": 1e3, "µs": 1e3, "ms": 1e6, "s": 1e9, "m": 60e9, "h": 3600e9}


def go_duration(v):
    if isinstance(v, str) and _DUR.search(v):
        return int(round(sum(float(a) * _UNIT[u] for a, u in _DUR.findall(v))))
    return v


EMPTY = ("<empty>",)


def canon(x, key=""):
    """Data of a decoded JSON/YAML document, independent of key spelling and of nil-vs-empty."""
    if isinstance(x, dict):
        out = {}
        for k, v in x.items():
            nk = str(k).lower().replace("_", "")
            if nk in VOLATILE:
                continue
            cv = canon(v, nk)
            if cv is EMPTY:
                continue
            out[nk] = cv
        return out if out else EMPTY
    if isinstance(x, (list, tuple)):
        return [canon(v) for v in x] if len(x) else EMPTY
    if x is None:
        return EMPTY
    if key == "timeout":
        return go_duration(x)
    if isinstance(x, bool):
        return x
    if isinstance(x, (int, float)):
        return float(x)
    return x


def diff_data(a, b, path="", out=None, limit=12):
    out = [] if out is None else out
    if len(out) >= limit:
        return out
    if isinstance(a, dict) and isinstance(b, dict):
        for k in sorted(set(a) | set(b)):
            if k not in a or k not in b:
                out.append("%s/%s only in %s" % (path, k, "YAML" if k not in a else "JSON"))
            else:
                diff_data(a[k], b[k], path + "/" + k, out, limit)
    elif isinstance(a, list) and isinstance(b, list):
        if len(a) != len(b):
            out.append("%s: %d items in JSON, %d in YAML" % (path, len(a), len(b)))
        else:
            for i, (x, y) in enumerate(zip(a, b)):
                diff_data(x, y, "%s/%d" % (path, i), out, limit)
    elif a != b and not (isinstance(a, float) and isinstance(b, float) and feq(a, b)):
        out.append("%s: JSON %r, YAML %r" % (path, a, b))
    return out


def load_yaml_file(path):
    try:
        import yaml
        return yaml.safe_load(open(path)), "PyYAML"
    except ImportError:
        r = lib.driver([{"op": "yaml2json", "path": path}])[0]
        if "error" in r:
            raise RuntimeError(r["error"])
        return r["data"], "yaml.v3"


def strip_requests(x):
    """Drop the request echoes (they hold an io.Writer that cannot be decoded back)."""
    if isinstance(x, dict):
        return {k: strip_requests(v) for k, v in x.items() if k not in ("request", "Request")}
    if isinstance(x, list):
        return [strip_requests(v) for v in x]
    return x


def _same(got, want, loose):
    """loose (two different runs of the analysis): a printed float may differ in its last digit."""
    if got == want:
        return True
    if loose and got is not None and "." in str(want):
        try:
            a, b = float(str(got).rstrip("%")), float(str(want).rstrip("%"))
            digits = len(str(want).rstrip("%").split(".")[1])
            return abs(a - b) <= 1.0001 * 10 ** -digits
        except ValueError:
            return False
    return False


def expected_csv(s):
    return {"Health Score": "%d" % s["health_score"], "Grade": s["grade"], "Total Files": "%d" % s["total_files"],
            "Analyzed Files": "%d" % s["analyzed_files"], "Average Complexity": "%.2f" % s["average_complexity"],
            "High Complexity Count": "%d" % s["high_complexity_count"], "Dead Code Count": "%d" % s["dead_code_count"],
            "Critical Dead Code": "%d" % s["critical_dead_code"], "Unique Fragments": "%d" % s["total_clones"],
            "Clone Groups": "%d" % s["clone_groups"], "Code Duplication": "%.2f" % s["code_duplication_percentage"],
            "Total Classes Analyzed": "%d" % s["cbo_classes"], "High Coupling (CBO) Classes": "%d" % s["high_coupling_classes"],
            "Average CBO": "%.2f" % s["average_coupling"]}


def check_csv(text, s, loose=False):
    bad = []
    rows = [l.split(",", 1) for l in text.strip().splitlines()]
    if not rows or rows[0] != ["Metric", "Value"]:
        return ["CSV header is %r" % (rows[:1],)]
    got = {r[0]: r[1] for r in rows[1:] if len(r) == 2}
    for k, v in expected_csv(s).items():
        if not _same(got.get(k), v, loose):
            bad.append("CSV %s = %r, JSON summary gives %r" % (k, got.get(k), v))
    return bad


def expected_text(s):
    e = {"Health Score": "%d/100 (%s)" % (s["health_score"], s["grade"]), "Total Files": "%d" % s["total_files"],
         "Analyzed": "%d" % s["analyzed_files"]}
    if s["complexity_enabled"]:
        e.update({"Total Functions": "%d" % s["total_functions"], "Average Complexity": "%.1f" % s["average_complexity"],
                  "High Complexity Count": "%d" % s["high_complexity_count"]})
    if s["dead_code_enabled"]:
        e.update({"Total Issues": "%d" % s["dead_code_count"], "Critical Issues": "%d" % s["critical_dead_code"]})
    if s["clone_enabled"]:
        e.update({"Unique Fragments": "%d" % s["total_clones"], "Clone Groups": "%d" % s["clone_groups"],
                  "Code Duplication": "%.1f%%" % s["code_duplication_percentage"]})
    if s["cbo_enabled"]:
        e.update({"Classes Analyzed": "%d" % s["cbo_classes"], "High Coupling Classes": "%d" % s["high_coupling_classes"],
                  "Average Coupling": "%.1f" % s["average_coupling"]})
    return e


def check_text(text, s, loose=False):
    got = {}
    for l in text.splitlines():
        m = re.match(r"^\s+([^:•]+): (.*)$", l)
        if m and m.group(1) not in got:
            got[m.group(1)] = m.group(2).strip()
    return ["text %s = %r, JSON summary gives %r" % (k, got.get(k), v) for k, v in expected_text(s).items() if not _same(got.get(k), v, loose)]


def check_stderr_summary(err, s, loose=False):
    """The summary `pyscn analyze` prints on the terminal."""
    bad = []
    m = re.search(r"Health Score: (\d+)/100 \(Grade: ([A-F]|N/A)\)", err)
    if not m or int(m.group(1)) != s["health_score"] or m.group(2) != s["grade"]:
        bad.append("terminal summary health %r, JSON gives %s (%s)" % (m.groups() if m else None, s["health_score"], s["grade"]))
    exp = []
    if s["complexity_enabled"]:
        exp.append((r"Complexity:\s+(\d+)/100 \S+\s+\(avg: ([\d.]+), high-risk: (\d+) functions\)",
                    ("%d" % s["complexity_score"], "%.1f" % s["average_complexity"], "%d" % s["high_complexity_count"])))
    if s["dead_code_enabled"]:
        exp.append((r"Dead Code:\s+(\d+)/100 \S+\s+\((\d+) issues, (\d+) critical\)",
                    ("%d" % s["dead_code_score"], "%d" % s["dead_code_count"], "%d" % s["critical_dead_code"])))
    if s["clone_enabled"]:
        exp.append((r"Duplication:\s+(\d+)/100 \S+\s+\(([\d.]+)% duplication, (\d+) groups\)",
                    ("%d" % s["duplication_score"], "%.1f" % s["code_duplication_percentage"], "%d" % s["clone_groups"])))
    if s["cbo_enabled"]:
        exp.append((r"Coupling \(CBO\):\s*(\d+)/100 \S+\s+\(avg: ([\d.]+), (\d+)/(\d+) high-coupling\)",
                    ("%d" % s["coupling_score"], "%.1f" % s["average_coupling"], "%d" % s["high_coupling_classes"], "%d" % s["cbo_classes"])))
    if s.get("lcom_enabled"):
        exp.append((r"Cohesion \(LCOM\):\s*(\d+)/100 \S+\s+\(avg: ([\d.]+), (\d+)/(\d+) high-lcom\)",
                    ("%d" % s["cohesion_score"], "%.1f" % s["average_lcom"], "%d" % s["high_lcom_classes"], "%d" % s["lcom_classes"])))
    for rx, want in exp:
        m = re.search(rx, err)
        if not m or not all(_same(g, w, loose) for g, w in zip(m.groups(), want)):
            bad.append("terminal summary line /%s/ shows %r, JSON gives %r" % (rx[:18], m.groups() if m else None, want))
    return bad


def html_tabs(html):
    tabs = {}
    parts = re.split(r'<div id="([a-z\-]+)" class="tab-content', html)
    for i in range(1, len(parts) - 1, 2):
        tabs[parts[i]] = parts[i + 1]
    return tabs


def cards(fragment):
    out = {}
    for v, l in re.findall(r'<div class="metric-value">(.*?)</div>\s*<div class="metric-label">(.*?)</div>', fragment, re.S):
        out.setdefault(l.strip(), v.strip())
    return out


def check_html(html, data, loose=False):
    s = data["summary"]
    bad = []
    m = re.search(r"Health Score: (\d+)/100 \(Grade: ([A-F]|N/A)\)", html)
    if not m or int(m.group(1)) != s["health_score"] or m.group(2) != s["grade"]:
        bad.append("HTML health %r, JSON gives %s (%s)" % (m.groups() if m else None, s["health_score"], s["grade"]))
    tabs = html_tabs(html)
    sm = tabs.get("summary", "")
    bars = dict((l.strip(), int(v)) for l, v in re.findall(r'<span class="score-label">(.*?)</span>\s*<span class="score-value">(\d+)/100</span>', sm, re.S))
    for flag, label, key in (("complexity_enabled", "Complexity", "complexity_score"), ("dead_code_enabled", "Dead Code", "dead_code_score"),
                             ("clone_enabled", "Duplication", "duplication_score"), ("cbo_enabled", "Coupling", "coupling_score"),
                             ("lcom_enabled", "Cohesion", "cohesion_score"), ("deps_enabled", "Dependencies", "dependency_score"),
                             ("arch_enabled", "Architecture", "architecture_score")):
        if s.get(flag):
            got = [v for l, v in bars.items() if l.startswith(label)]
            if got[:1] != [s[key]]:
                bad.append("HTML score bar %s = %r, JSON gives %r" % (label, got[:1], s[key]))
    exp = {"Total Files": "%d" % s["total_files"], "Analyzed Files": "%d" % s["analyzed_files"], "Avg Complexity": "%.2f" % s["average_complexity"],
           "Dead Code Issues": "%d" % s["dead_code_count"], "Unique Fragments": "%d" % s["total_clones"],
           "Code Duplication": "%.1f%%" % s["code_duplication_percentage"]}
    if s["cbo_enabled"]:
        exp.update({"Total Classes": "%d" % s["cbo_classes"], "High Coupling (CBO)": "%d" % s["high_coupling_classes"], "Avg CBO": "%.2f" % s["average_coupling"]})
    if s.get("lcom_enabled"):
        exp.update({"Classes (LCOM)": "%d" % s["lcom_classes"], "Low Cohesion": "%d" % s["high_lcom_classes"], "Avg LCOM4": "%.2f" % s["average_lcom"]})
    per_tab = [("summary", exp)]
    if s["complexity_enabled"] and data.get("complexity"):
        c = data["complexity"]
        per_tab.append(("complexity", {"Total Functions": "%d" % len(c.get("Functions") or []), "Average": "%.2f" % c["Summary"]["AverageComplexity"],
                                       "Maximum": "%d" % c["Summary"]["MaxComplexity"]}))
    if s["dead_code_enabled"] and data.get("dead_code"):
        d = data["dead_code"]["summary"]
        per_tab.append(("deadcode", {"Total Issues": "%d" % d["total_findings"], "Critical": "%d" % d["critical_findings"], "Warnings": "%d" % d["warning_findings"]}))
    if s["clone_enabled"] and data.get("clone"):
        st = data["clone"]["statistics"]
        per_tab.append(("clone", {"Unique Fragments": "%d" % st["total_clones"], "Clone Groups": "%d" % st["total_clone_groups"],
                                  "Avg Similarity": "%.2f" % st["average_similarity"]}))
    if s["cbo_enabled"] and data.get("cbo"):
        c = data["cbo"]["Summary"]
        per_tab.append(("cbo", {"Total Classes": "%d" % c["TotalClasses"], "High Risk Classes": "%d" % c["HighRiskClasses"],
                                "Average CBO": "%.2f" % c["AverageCBO"], "Max CBO": "%d" % c["MaxCBO"]}))
    if s.get("lcom_enabled") and data.get("lcom"):
        c = data["lcom"]["Summary"]
        per_tab.append(("lcom", {"Total Classes": "%d" % c["TotalClasses"], "Low Cohesion": "%d" % c["HighRiskClasses"],
                                 "Average LCOM4": "%.2f" % c["AverageLCOM"], "Max LCOM4": "%d" % c["MaxLCOM"]}))
    for tab, e in per_tab:
        got = cards(tabs.get(tab, ""))
        for k, v in e.items():
            if not _same(got.get(k), v, loose):
                bad.append("HTML tab %s: %s = %r, JSON gives %r" % (tab, k, got.get(k), v))
    return bad


# ------------------------------------------------------------------------------------------------
# generated projects
# ------------------------------------------------------------------------------------------------
def fn_complexity(name, k, dead=None):
    """A function of cyclomatic complexity k (k-1 sequential ifs); dead: None | 'critical' | 'mixed'."""
    ls = ["def %s(a, b):" % name]
    for i in range(k - 1):
        ls += ["    if a > %d:" % i, "        b += %d" % (i + 1)]
    ls.append("    return a + b")
    if dead == "critical":
        ls.append("    b = 0")
    elif dead == "mixed":
        # the branch that starts more than five lines below the return is reported as a warning
        ls += ["    if b:", "        a = 1", "        a = 2", "        a = 3", "        a = 4", "        a = 5", "        a = 6", "    else:",
               "        b = 2", "    b = 3"]
    return ls + ["", ""]


def class_cbo(name, k, tag):
    """A class coupled to k helper classes, plus the helpers."""
    ls = []
    for i in range(k):
        ls += ["class %s_D%d:" % (tag, i), "    def v(self):", "        return %d" % i, "", ""]
    ls += ["class %s:" % name, "    def __init__(self):"]
    ls += ["        self.d%d = %s_D%d()" % (i, tag, i) for i in range(k)] or ["        self.z = 0"]
    ls += ["", "    def get(self):", "        return self.d0" if k else "        return self.z", "", ""]
    return ls


def class_lcom(name, k):
    """A class whose methods fall into k groups that share no attribute."""
    ls = ["class %s:" % name]
    for i in range(k):
        ls += ["    def set%d(self, v):" % i, "        self.a%d = v" % i, "", "    def get%d(self):" % i, "        return self.a%d" % i, ""]
    return ls + [""]


def clone_fn(name, salt):
    ls = ["def %s(items, limit):" % name, "    total = 0", "    count = 0", "    for item in items:", "        if item > limit:",
          "            total += item * %d" % salt, "            count += 1", "        elif item < 0:", "            total -= item",
          "        else:", "            total += 1", "    if count > 3:", "        total = total // count", "    result = [total, count, limit]",
          "    return result", "", ""]
    return ls


def make_project(d, rng, kind, full=False):
    """Write a generated project into d; returns a description. full: every lattice value appears."""
    files = {}
    lattice = [1, 2, 5, 6, 9, 10, 11, 19, 20, 21, 24]
    if kind == "normal":
        for m in range(rng.randint(2, 3)):
            ls = ["import os", "", ""]
            ks = lattice[m::2] if full else [rng.choice(lattice) for _ in range(rng.randint(3, 6))]
            for j, k in enumerate(ks):
                ls += fn_complexity("f%d_%d" % (m, j), k, rng.choice([None, None, "critical", "mixed"]) if j else "mixed")
            files["mod%d.py" % m] = ls
        ls = []
        for j, k in enumerate([0, 1, 3, 4, 7, 8, 2] if full else rng.sample([0, 1, 3, 4, 7, 8, 2], rng.randint(3, 6))):
            ls += class_cbo("K%d" % j, k, "k%d" % j)
        files["classes.py"] = ls
        ls = []
        for j, k in enumerate([1, 2, 3, 5, 6, 11] if full else rng.sample([1, 2, 3, 5, 6, 11], rng.randint(2, 5))):
            ls += class_lcom("L%d" % j, k)
        files["cohesion.py"] = ls
        ls = []
        for j in range(rng.randint(2, 4)):
            ls += clone_fn("dup%d" % j, rng.choice([2, 2, 3]))
        files["dups.py"] = ls
        files["dups2.py"] = clone_fn("other_dup", 2) + fn_complexity("solo", 3)
    elif kind == "no_classes":
        files["a.py"] = fn_complexity("f", 6, "critical") + fn_complexity("g", 2)
        files["b.py"] = fn_complexity("h", 12, "mixed")
    elif kind == "clean":
        files["a.py"] = fn_complexity("f", 1) + fn_complexity("g", 2)
    elif kind == "no_functions":
        files["a.py"] = ["X = 1", "Y = X + 1", "print(Y)"]
        files["b.py"] = ["import a", "", "Z = [a.X, a.Y]"]
    elif kind == "only_classes":
        files["a.py"] = class_lcom("A", 2) + ["class B:", "    pass", "", ""]
    elif kind == "empty_file":
        files["a.py"] = []
        files["b.py"] = fn_complexity("f", 7, "mixed")
    elif kind == "with_broken_file":
        # two files no analysis can parse next to two ordinary ones: they must be named as errors and must not hide the others
        files["good1.py"] = fn_complexity("f", 6, "critical") + fn_complexity("g", 11, "mixed")
        files["good2.py"] = class_lcom("A", 3) + fn_complexity("h", 3)
        files["broken_syntax.py"] = ["def broken(:", "    return ((", ""]
        files["broken_bytes.py"] = ["\x00\x01def \x02"]
    elif kind == "only_broken":
        # nothing can be parsed: the complexity analysis fails as a whole, the others report an empty result; a report is still written
        files["broken_syntax.py"] = ["def broken(:", "    return ((", ""]
    for n, ls in files.items():
        with open(os.path.join(d, n), "w") as f:
            f.write("\n".join(ls) + ("\n" if ls else ""))
    return {"kind": kind, "files": sorted(files), "broken": sorted(n for n in files if n.startswith("broken_"))}


# ------------------------------------------------------------------------------------------------
# risk-threshold lattice projects: every per-item section holds items exactly ON each threshold in effect, next to
# it and two away; the CBO classes additionally vary in HOW they name their collaborators and in whether / how they
# refer to themselves (a class is not coupled to itself: the self reference must change neither the reported metric
# nor the risk level that follows from it)
# ------------------------------------------------------------------------------------------------
SELF_FORMS = ["none", "inst", "classmethod_inst", "param", "return", "attr", "generic", "union", "base_inst", "all"]
DEP_KINDS = ["inst", "param", "attr", "base", "imported_inst", "return", "imported_param"]
EXT_MODULE = "lattice_ext"


def class_cbo_self(name, k, form, rot):
    """Class `name` coupled to exactly k distinct helper classes (local D<i> / imported E<i>; the way a helper is named
    rotates through DEP_KINDS starting at rot) that refers to itself as `form` says."""
    bases, attrs, params, body, rets = [], [], [], [], []
    kinds = [DEP_KINDS[(rot + j) % len(DEP_KINDS)] for j in range(k)]
    if form == "base_inst" and k and "base" not in kinds:
        kinds[0] = "base"               # the inheriting variant inherits
    for j, kind in enumerate(kinds):
        loc, ext = "D%d" % j, "E%d" % j
        if kind == "base":
            bases.append(loc)
        elif kind == "inst":
            body.append("        self.d%d = %s()" % (j, loc))
        elif kind == "param":
            params.append("p%d: %s" % (j, loc))
        elif kind == "attr":
            attrs.append("    f%d: %s = None" % (j, loc))
        elif kind == "imported_inst":
            body.append("        self.e%d = %s()" % (j, ext))
        elif kind == "imported_param":
            params.append("q%d: %s" % (j, ext))
        else:
            rets.append(loc)
    ls = ["class %s%s:" % (name, "(%s)" % ", ".join(bases) if bases else "")]
    ls += attrs
    if form in ("attr", "all"):
        ls.append("    nxt: %s = None" % name)
    ls.append("    def __init__(%s):" % ", ".join(["self"] + ["%s = None" % p for p in params]))
    ls += body + ["        self.z = 0", ""]
    for j, r in enumerate(rets):
        ls += ["    def get%d(self) -> %s:" % (j, r), "        return self.z", ""]
    if form in ("inst", "base_inst", "all"):
        ls += ["    def clone(self):", "        other = %s()" % name, "        other.z = self.z", "        return other", ""]
    if form == "classmethod_inst":
        ls += ["    @classmethod", "    def make(cls):", "        return %s()" % name, ""]
    if form in ("param", "all"):
        ls += ["    def merge(self, other: %s):" % name, "        self.z += other.z", "        return self", ""]
    if form in ("return", "all"):
        ls += ["    def me(self) -> %s:" % name, "        return self", ""]
    if form == "generic":
        ls += ["    def kids(self, seen: Optional[%s] = None) -> List[%s]:" % (name, name), "        return [self]", ""]
    if form == "union":
        ls += ["    def parent(self) -> %s | None:" % name, "        return None", ""]
    return ls + [""]


def lattice_values(lo, med, domain_lo):
    return [v for v in range(lo - 2, med + 3) if v >= domain_lo]


def make_lattice_project(d, rng, thr):
    """thr: {"complexity": (low, medium), "cbo": ..., "lcom": ...} = the thresholds in effect for the run.
    Returns {"files", "classes": {(file, class): (self form, intended CBO)}}."""
    files, meta = {}, {}
    ls = []
    for k in lattice_values(thr["complexity"][0], thr["complexity"][1], 1):
        ls += fn_complexity("cx_%d" % k, k)
    files["lat_functions.py"] = ls
    ls = []
    for k in lattice_values(thr["lcom"][0], thr["lcom"][1], 1):
        ls += class_lcom("Coh%d" % k, k)
    files["lat_cohesion.py"] = ls
    ks = lattice_values(thr["cbo"][0], thr["cbo"][1], 0)
    nh = max(ks) if ks else 0
    ls = []
    for i in range(nh):
        ls += ["class E%d:" % i, "    def v(self):", "        return %d" % i, "", ""]
    files[EXT_MODULE + ".py"] = ls
    for form in SELF_FORMS:
        ls = ["from __future__ import annotations", "from typing import List, Optional"]
        if nh:
            ls.append("from %s import %s" % (EXT_MODULE, ", ".join("E%d" % i for i in range(nh))))
        ls += ["", ""]
        for i in range(nh):
            ls += ["class D%d:" % i, "    def v(self):", "        return %d" % i, "", ""]
        fname = "lat_cbo_%s.py" % form
        for k in ks:
            name = "K_%s_%d" % (form, k)
            ls += class_cbo_self(name, k, form, rng.randrange(len(DEP_KINDS)))
            meta[(fname, name)] = (form, k)
        files[fname] = ls
    for n, ls in files.items():
        with open(os.path.join(d, n), "w") as f:
            f.write("\n".join(ls) + "\n")
    return {"kind": "risk_lattice", "files": sorted(files), "thresholds": {k: list(v) for k, v in thr.items()},
            "classes": meta}


def lattice_coverage(data, desc):
    """What the report of a lattice project actually holds: per section the metric values present, for CBO per self form;
    returns (holes, reached): holes = threshold neighbourhood values (t-1, t, t+1 of an ECHOED threshold t) with no item."""
    holes, reached = [], {}
    cx, cbo, lcom = data.get("complexity") or {}, data.get("cbo") or {}, data.get("lcom") or {}
    secs = [("complexity", [f["Metrics"]["Complexity"] for f in (cx.get("Functions") or [])],
             (cx.get("Config") or {}).get("low_threshold"), (cx.get("Config") or {}).get("medium_threshold"), 1)]
    byform = {}
    for c in cbo.get("Classes") or []:
        key = (os.path.basename(c["FilePath"]), c["Name"])
        if key in desc["classes"]:
            byform.setdefault(desc["classes"][key][0], []).append(c["Metrics"]["CouplingCount"])
    ccfg = cbo.get("Config") or {}
    for form in SELF_FORMS:
        secs.append(("cbo/self-reference=" + form, byform.get(form, []), ccfg.get("lowThreshold"), ccfg.get("mediumThreshold"), 0))
    secs.append(("lcom", [c["Metrics"]["LCOM4"] for c in (lcom.get("Classes") or [])],
                 (lcom.get("Config") or {}).get("lowThreshold"), (lcom.get("Config") or {}).get("mediumThreshold"), 1))
    for name, vals, lo, med, dom in secs:
        if lo is None or med is None:
            holes.append("%s: the report echoes no thresholds" % name)
            continue
        have = set(vals)
        for t in (lo, med):
            for v in (t - 1, t, t + 1):
                if v >= dom:
                    if v in have:
                        reached[name.split("=")[0]] = reached.get(name.split("=")[0], 0) + 1
                    else:
                        holes.append("%s: no item with metric %d (echoed threshold %d)" % (name, v, t))
    return holes, reached


# ------------------------------------------------------------------------------------------------
# project-SIZE lattice: the derived ratios of the unified summary (code_duplication_percentage = a function of the clone
# group count and the analysed line count of the SAME report) change their formula with the size of the project (below /
# above the minimum size unit, below / above the cap): projects whose analysed line count sits exactly ON, next to and
# between the multiples of the size unit, with 1..3 clone groups. Cheap: clone detection cost depends on the fragments
# (one pair of duplicated functions per group), not on the padding lines.
# ------------------------------------------------------------------------------------------------
SIZE_FAMILIES = [
    # (parameters, homogeneous statement pattern): structurally unlike each other so that every family is a group of its own
    ("xs, t", ["for a in xs:", "    for b in a:", "        t.append((a, b))"]),
    ("xs, t", ["if t > %d:", "    t = t - xs[%d]", "elif t < -%d:", "    t = xs[%d] - t", "else:", "    t = t * %d"]),
    ("xs, t", ["while t > %d:", "    t = t // 2", "    xs.append([t, %d])", "with open(str(t)) as f%d:", "    t = len(f%d.read())"]),
]
PAD_KINDS = ["comment", "blank", "statement", "mixed"]


def size_family_fn(fam, name, reps=7):
    params, pat = SIZE_FAMILIES[fam % len(SIZE_FAMILIES)]
    ls = ["def %s(%s):" % (name, params)]
    for i in range(reps):
        for l in pat:
            ls.append("    " + (l % ((i,) * l.count("%d")) if "%d" in l else l))
    return ls + ["    return t", "", ""]


def make_size_project(d, rng, target_lines, nfam):
    """A project whose clone analysis counts exactly target_lines lines (= per file: newline count + 1) and that holds
    nfam pairs of duplicated functions (family i twice), the rest padding (comment table / blank lines / trivial statements).
    Returns a description; the group and line counts the check uses are those of the report, not these intentions."""
    two_files = rng.random() < 0.5
    pad = rng.choice(PAD_KINDS)
    a, b = ['"""Sized module (first copies)."""', ""], (['"""Sized module (second copies)."""', ""] if two_files else [])
    copies = [rng.choice([2, 2, 3]) for _ in range(nfam)]      # three copies: the group has more pairs than one
    for i in range(nfam):
        a += size_family_fn(i, "fam%d_first" % i)
        (b if two_files else a).extend(size_family_fn(i, "fam%d_second" % i))
        if copies[i] == 3:
            a += size_family_fn(i, "fam%d_third" % i)
    have = (len(a) + 1) + ((len(b) + 1) if two_files else 0)     # text = "\n".join(ls) + "\n" -> len(ls) newlines -> len(ls) + 1 lines counted
    need = target_lines - have
    if need < 0:
        raise ValueError("size project: %d lines of code exceed the target %d" % (have, target_lines))
    padding = []
    for i in range(need):
        k = pad if pad != "mixed" else PAD_KINDS[i % 3]
        padding.append("# %04d | %s | %6d.%02d |" % (i, "entry-%d" % (i * 7 % 101), i * 13 % 9973, i % 100) if k == "comment"
                       else "" if k == "blank" else "PAD_%d = %d" % (i, i % 17))
    cut = rng.randint(0, need) if two_files else need
    a += padding[:cut]
    b += padding[cut:]
    files = {"sized_a.py": a}
    if two_files:
        files["sized_b.py"] = b
    for n, ls in files.items():
        with open(os.path.join(d, n), "w") as f:
            f.write("\n".join(ls) + "\n")
    return {"kind": "size", "files": sorted(files), "target_lines": target_lines, "families": nfam, "copies": copies, "padding": pad, "two_files": two_files,
            "padding_lines_in_first_file": cut, "broken": []}


def latest(d, ext):
    rep = os.path.join(d, ".pyscn", "reports")
    if not os.path.isdir(rep):
        return None
    fs = sorted(f for f in os.listdir(rep) if f.endswith("." + ext))
    return os.path.join(rep, fs[-1]) if fs else None


# ------------------------------------------------------------------------------------------------
# same-run comparison through the CLI: the report file against the terminal summary of the run that wrote it
# ------------------------------------------------------------------------------------------------
_TERM = [
    (r"Health Score: (\d+)/100 \(Grade: ([A-F]|N/A)\)", ("health", "grade")),
    (r"Complexity:\s+(\d+)/100 \S+\s+\(avg: ([\d.]+), high-risk: (\d+) functions\)", ("cx_score", "cx_avg", "cx_high")),
    (r"Dead Code:\s+(\d+)/100 \S+\s+\((\d+) issues, (\d+) critical\)", ("dead_score", "dead_count", "dead_crit")),
    (r"Duplication:\s+(\d+)/100 \S+\s+\(([\d.]+)% duplication, (\d+) groups\)", ("dup_score", "dup_pct", "groups")),
    (r"Coupling \(CBO\):\s*(\d+)/100 \S+\s+\(avg: ([\d.]+), (\d+)/(\d+) high-coupling\)", ("cbo_score", "cbo_avg", "cbo_high", "cbo_classes")),
    (r"Cohesion \(LCOM\):\s*(\d+)/100 \S+\s+\(avg: ([\d.]+), (\d+)/(\d+) high-lcom\)", ("lcom_score", "lcom_avg", "lcom_high", "lcom_classes")),
]


def terminal_numbers(err):
    out = {}
    for rx, names in _TERM:
        m = re.search(rx, err)
        if m:
            out.update(zip(names, m.groups()))
    return out


def terminal_signature(err):
    """The terminal summary without wall-clock and file names (equal for two runs that computed the same result)."""
    return "\n".join(l for l in err.splitlines() if ("/100" in l))


def csv_numbers(text):
    got = dict(l.split(",", 1) for l in text.strip().splitlines()[1:] if "," in l)
    m = {"Health Score": "health", "Grade": "grade", "Average Complexity": "cx_avg", "High Complexity Count": "cx_high", "Dead Code Count": "dead_count",
         "Critical Dead Code": "dead_crit", "Clone Groups": "groups", "Code Duplication": "dup_pct", "Total Classes Analyzed": "cbo_classes",
         "High Coupling (CBO) Classes": "cbo_high", "Average CBO": "cbo_avg"}
    return {v: got[k] for k, v in m.items() if k in got}


def html_numbers(html):
    out = {}
    m = re.search(r"Health Score: (\d+)/100 \(Grade: ([A-F]|N/A)\)", html)
    if m:
        out["health"], out["grade"] = m.groups()
    tabs = html_tabs(html)
    sm = tabs.get("summary", "")
    for l, v in re.findall(r'<span class="score-label">(.*?)</span>\s*<span class="score-value">(\d+)/100</span>', sm, re.S):
        for pre, k in (("Complexity", "cx_score"), ("Dead Code", "dead_score"), ("Duplication", "dup_score"), ("Coupling", "cbo_score"), ("Cohesion", "lcom_score")):
            if l.strip().startswith(pre):
                out.setdefault(k, v)
    c = cards(sm)
    for lab, k in (("Avg Complexity", "cx_avg"), ("Dead Code Issues", "dead_count"), ("Code Duplication", "dup_pct"), ("Total Classes", "cbo_classes"),
                   ("High Coupling (CBO)", "cbo_high"), ("Avg CBO", "cbo_avg"), ("Classes (LCOM)", "lcom_classes"), ("Low Cohesion", "lcom_high"),
                   ("Avg LCOM4", "lcom_avg")):
        if lab in c:
            out[k] = c[lab].rstrip("%")
    cl = cards(tabs.get("clone", ""))
    if "Clone Groups" in cl:
        out["groups"] = cl["Clone Groups"]
    dd = cards(tabs.get("deadcode", ""))
    if "Critical" in dd:
        out["dead_crit"] = dd["Critical"]
    return out


def summary_numbers(s):
    """The same keys from a decoded `summary` block (JSON or YAML)."""
    out = {"health": "%d" % s["health_score"], "grade": s["grade"]}
    if s.get("complexity_enabled"):
        out.update(cx_score="%d" % s["complexity_score"], cx_avg="%.1f" % s["average_complexity"], cx_high="%d" % s["high_complexity_count"])
    if s.get("dead_code_enabled"):
        out.update(dead_score="%d" % s["dead_code_score"], dead_count="%d" % s["dead_code_count"], dead_crit="%d" % s["critical_dead_code"])
    if s.get("clone_enabled"):
        out.update(dup_score="%d" % s["duplication_score"], dup_pct="%.1f" % s["code_duplication_percentage"], groups="%d" % s["clone_groups"])
    if s.get("cbo_enabled"):
        out.update(cbo_score="%d" % s["coupling_score"], cbo_avg="%.1f" % s["average_coupling"], cbo_high="%d" % s["high_coupling_classes"],
                   cbo_classes="%d" % s["cbo_classes"])
    if s.get("lcom_enabled"):
        out.update(lcom_score="%d" % s["cohesion_score"], lcom_avg="%.1f" % s["average_lcom"], lcom_high="%d" % s["high_lcom_classes"],
                   lcom_classes="%d" % s["lcom_classes"])
    return out


def compare_numbers(a, b, na, nb):
    """Common keys of two headline-number dicts; printed floats may carry different precision."""
    bad = []
    for k in sorted(set(a) & set(b)):
        x, y = str(a[k]), str(b[k])
        if x == y:
            continue
        if "." in x or "." in y:
            try:
                if abs(float(x) - float(y)) <= 0.0501:
                    continue
            except ValueError:
                pass
        bad.append("%s: %s shows %s, %s shows %s" % (k, na, x, nb, y))
    return bad
