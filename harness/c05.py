"""C05 — reports are reproducible: same tree and options give the same report.

(a) End to end: the real `pyscn analyze` (json, and in the thorough tier yaml/csv/html) and `pyscn check` are run
    N times on unchanged files under GOMAXPROCS 1/2/16 — on a copy of the repository's testdata and on generated
    projects rich in ties — and the canonicalised reports (timestamps, durations, version dropped) are diffed.
    Any differing JSON path is a violation of the property (or a recorded known finding).
(b) Per emission site: the production sort / tie-break code is run through pyscn-verif on synthetic tie-rich
    inputs in several arrival orders (injected where the code takes a slice, repeated where it ranges over a Go
    map) and compared with the Coq model of the site, whose order-independence is proved in Props/C05.v.
      outputs of two orders differ              -> VIOLATION (the property itself, replayable on the driver)
      outputs agree but differ from the model   -> broken tie
(c) MinHash / LSH stage (hook det_minhash): signatures, band keys, candidate sets and estimates of feature sets whose distinct
    feature counts sweep 10, 100, 255, 256, 257, 300, 500, 1000 (more in the thorough tier) and of the fragments of generated LARGE
    functions, repeated in one process and in fresh processes: any difference -> VIOLATION; the common answer must be the
    MinHash of the SET (order/repetition independent, element-wise minimum over a union) -> else broken tie.
    End to end: families of near-identical large functions (LSH feature counts just above 256 and upwards, measured through the
    hook) analysed 4-5 times with `lsh_enabled = "true"` and several lsh_similarity_threshold values (default, 0.78, ...);
    thorough tier also LSH auto mode (lsh_auto_threshold lowered to 3 fragments). Reports must be identical.
"""
import json
import os
import shutil
import subprocess
import time
from concurrent.futures import ThreadPoolExecutor
from itertools import permutations

import lib
import c05proj
from lib import cZ, clist

REQ = ("From Coq Require Import ZArith List.\nImport ListNotations.\n"
       "From PV Require Import Det.SortDet Det.Keys Det.Sites Det.Chains Gen.DetConst.\nOpen Scope Z_scope.")

REASON = {"": 0, "return": 1, "break": 2, "continue": 3, "raise": 4}
REASON_NAME = {1: "unreachable_after_return", 2: "unreachable_after_break", 3: "unreachable_after_continue",
               4: "unreachable_after_raise"}


# ----------------------------------------------------------------------------------------------
# (a) repeated CLI runs
# ----------------------------------------------------------------------------------------------
def cli_combos(tier):
    base = ["--min-complexity", "1", "--min-severity", "info"]
    combos = [("all", base, None), ("cx+dead", base + ["--select", "complexity,deadcode"], None),
              ("deps", ["--select", "deps"], None), ("clones+cbo+lcom", ["--select", "clones,cbo,lcom"], None)]
    if tier != "quick":
        combos += [
            ("star", ["--select", "clones"], '[clones]\ngrouping_mode = "star"\n'),
            ("complete", ["--select", "clones"], '[clones]\ngrouping_mode = "complete_linkage"\n'),
            ("centroid", ["--select", "clones"], '[clones]\ngrouping_mode = "centroid"\n'),
            ("kcore", ["--select", "clones"], '[clones]\ngrouping_mode = "k_core"\nk_core_k = 2\n'),
            ("lsh", ["--select", "clones"], '[clones]\nlsh_enabled = "true"\n'),
            ("sort-name", base, '[output]\nsort_by = "name"\n[dead_code]\nsort_by = "severity"\n[cbo]\nsort_by = "name"\n'),
            ("sort-risk", base, '[output]\nsort_by = "risk"\n[cbo]\nsort_by = "risk"\n'),
        ]
    else:
        combos += [("lsh+star", ["--select", "clones"], '[clones]\nlsh_enabled = "true"\ngrouping_mode = "star"\n')]
    return combos


def run_check_cmd(binary, proj, args, procs):
    env = dict(os.environ, GOMAXPROCS=str(procs))
    try:
        p = subprocess.run([binary, "check"] + args + ["."], cwd=proj, stdout=subprocess.PIPE, stderr=subprocess.PIPE,
                           text=True, env=env, timeout=300)
    except subprocess.TimeoutExpired:
        return -9, ["timeout"]
    return p.returncode, c05proj.canon_text(p.stdout + "\n--stderr--\n" + p.stderr)


def cli_job(binary, src, name, extra, cfg, n, fmt, root):
    """One (project, option set): n sequential runs in a private copy of the project."""
    d = os.path.join(root, name, "proj")
    shutil.rmtree(os.path.join(root, name), ignore_errors=True)
    shutil.copytree(src, d)
    if cfg:
        with open(os.path.join(d, ".pyscn.toml"), "w") as f:
            f.write(cfg)
    if fmt == "check":
        outs = [run_check_cmd(binary, d, extra, (1, 2, 16)[i % 3]) for i in range(n)]
        paths, detail = {}, {}
        for i in range(1, n):
            if outs[i] != outs[0]:
                a, b = outs[0][1], outs[i][1]
                k = next((j for j, (x, y) in enumerate(zip(a, b)) if x != y), min(len(a), len(b)))
                paths["<check output>"] = paths.get("<check output>", 0) + 1
                detail.setdefault("<check output>", (a[k] if k < len(a) else outs[0][0], b[k] if k < len(b) else outs[i][0]))
        return {"paths": paths, "detail": detail, "distinct": len(set(json.dumps(o) for o in outs)),
                "rcs": [o[0] for o in outs], "empty": False}
    r = c05proj.repeat(binary, d, extra, n, fmt)
    r["empty"] = any(x is None for x in r["reports"])
    r.pop("reports")
    return r


def cli_part(ck, tier):
    n = 6 if tier == "quick" else 30
    root = lib.fresh_dir("c05-cli")
    binary = os.path.join(lib.BIN, "pyscn")
    projects = {}
    td = os.path.join(root, "_src_testdata")
    shutil.copytree(os.path.join(lib.REPO, "testdata", "python"), td)
    projects["testdata"] = td
    for k in range(1 if tier == "quick" else 3):
        d = os.path.join(root, "_src_ties%d" % k)
        c05proj.write_project(c05proj.ties_project(ck.rng, scale=1 if k < 2 else 2), d)
        projects["ties%d" % k] = d
    jobs = []
    for pname, src in projects.items():
        for cname, extra, cfg in cli_combos(tier):
            jobs.append((pname, cname, extra, cfg, "json", n))
        jobs.append((pname, "check", ["--max-complexity", "1", "--max-cycles", "0"], None, "check", n))
        if tier != "quick":
            jobs.append((pname, "check-mock", ["--select", "complexity,deadcode,deps,mockdata", "--max-complexity", "1"], None, "check", n))
            for fmt in ("yaml", "csv", "html"):
                jobs.append((pname, fmt, ["--min-complexity", "1", "--min-severity", "info"], None, fmt, max(6, n // 3)))
    results = {}
    with ThreadPoolExecutor(max_workers=6) as ex:
        futs = {ex.submit(cli_job, binary, projects[p], "%s-%s" % (p, c), extra, cfg, nn, fmt, root): (p, c, extra, cfg, fmt, nn)
                for (p, c, extra, cfg, fmt, nn) in jobs}
        for f, key in futs.items():
            results[key[:2]] = (f.result(), key)
    total_runs, differing = 0, 0
    for (p, c), (r, key) in sorted(results.items()):
        total_runs += key[5]
        if r["empty"] or any(rc not in (0, 1) for rc in r["rcs"]):
            ck.broken_ties.append("pyscn produced no report / failed on %s %s: rcs %s" % (p, c, r["rcs"]))
            continue
        if not r["paths"]:
            continue
        differing += 1
        unknown = []
        for path in sorted(r["paths"]):
            e = ck.match_known({"path": path})
            if e:
                ck.known_finding(e)
            else:
                unknown.append(path)
        if unknown:
            ck.violation("%d of %d runs of `pyscn %s %s` on unchanged files (%s) differ from the first run at: %s"
                         % (max(r["paths"][u] for u in unknown), key[5], "check" if key[4] == "check" else "analyze --" + key[4],
                            " ".join(key[2]), p, ", ".join(unknown[:12])),
                         {"kind": "report-differs-between-runs", "project": p, "options": key[2], "config": key[3],
                          "format": key[4], "runs": key[5], "paths": {u: r["paths"][u] for u in unknown},
                          "examples": {u: [str(x)[:300] for x in r["detail"][u]] for u in unknown[:12]},
                          "project_files": sorted(os.listdir(projects[p]))[:80],
                          "how": "write the project (harness/c05proj.py ties_project with the run's seed, or testdata/python), run the "
                                 "command twice, diff the JSON ignoring generated_at/duration/version"}, independent=True)
    ck.cov["cli_runs"] = total_runs
    ck.cov["cli_option_sets"] = len(results)
    ck.cov["cli_sets_with_differences"] = differing
    ck.samples.append({"cli": "%d runs over %d (project, options) sets, GOMAXPROCS rotating 1/2/16" % (total_runs, len(results))})
    return projects


def race_part(ck, projects):
    """Thorough tier: the real CLI built with the race detector (tests the 'no shared mutable state' premise)."""
    exe = os.path.join(lib.BIN, "pyscn-race")
    try:
        rc, out, err = lib.run(["go", "build", "-race", "-o", exe, "./cmd/pyscn"], cwd=lib.REPO, env=lib.GOENV, timeout=1500)
    except subprocess.TimeoutExpired:
        rc, err = 1, "timeout"
    if rc != 0:
        ck.notes.append("race-detector build unavailable: " + err[-300:])
        ck.cov["race_runs"] = 0
        return
    runs = 0
    for pname, src in projects.items():
        d = os.path.join(lib.WORK, "c05-cli", "race-" + pname, "proj")
        shutil.rmtree(os.path.dirname(d), ignore_errors=True)
        shutil.copytree(src, d)
        for procs in (2, 16):
            env = dict(os.environ, GOMAXPROCS=str(procs))
            p = subprocess.run([exe, "analyze", "--json", "--no-open", "--min-complexity", "1", "--min-severity", "info", "."],
                               cwd=d, stdout=subprocess.PIPE, stderr=subprocess.PIPE, text=True, env=env, timeout=900)
            runs += 1
            if "DATA RACE" in p.stderr or p.returncode == 66:
                ck.violation("the race detector reports a data race between the analyses on project %s (GOMAXPROCS=%d): the "
                             "report can depend on scheduling" % (pname, procs),
                             {"kind": "data-race", "project": pname, "stderr": p.stderr[-3000:]}, independent=True)
    ck.cov["race_runs"] = runs


# ----------------------------------------------------------------------------------------------
# (b) emission sites: driver vs Coq model
# ----------------------------------------------------------------------------------------------
class Codes:
    """Order-preserving integer codes for strings (Go compares strings bytewise)."""

    def __init__(self, strings):
        self.s = sorted(set(strings), key=lambda x: x.encode())
        self.m = {x: i + 1 for i, x in enumerate(self.s)}

    def __call__(self, x):
        return self.m[x]

    def back(self, i):
        return self.s[i - 1]


def rank(values):
    vs = sorted(set(values))
    return {v: i for i, v in enumerate(vs)}


def citem(fields):
    return clist([clist([cZ(x) for x in f]) for f in fields])


def some_orders(rng, n, k):
    ident = list(range(n))
    outs = [ident, ident[::-1]]
    if n <= 4:
        outs = [list(p) for p in permutations(ident)]
    while len(outs) < k:
        o = ident[:]
        rng.shuffle(o)
        outs.append(o)
    return outs[:max(k, 2)] if n > 4 else outs


RISKS = ["low", "medium", "high"]
RISK_ORDER = {"low": 1, "medium": 2, "high": 3}
NAMES = ["a", "b", "ab", "B", "z", "f_1", "f_10", "f_2", "run", "Run", "_x", "main"]
FILES = ["a.py", "b.py", "pkg/a.py", "pkg/b.py", "A.py"]


def gen_named(rng, n):
    """n items with unique (file, name), many ties in value, line and name."""
    seen, out = set(), []
    while len(out) < n:
        f, nm = rng.choice(FILES[:rng.randint(1, len(FILES))]), rng.choice(NAMES)
        if (f, nm) in seen:
            continue
        seen.add((f, nm))
        it = {"Name": nm, "File": f, "Line": rng.choice([1, 1, 5, 9, 20]), "V": rng.choice([1, 2, 2, 3]), "Risk": rng.choice(RISKS)}
        out.append(it)
        # the same function (name, line, value) in a second file: only the file path tells them apart
        f2 = rng.choice(FILES)
        if len(out) < n and rng.random() < 0.4 and (f2, nm) not in seen:
            seen.add((f2, nm))
            out.append(dict(it, File=f2))
    return out


def site_cases(ck, tier):
    rng = ck.rng
    mult = 1 if tier == "quick" else 10
    reqs, evals, metas = [], [], []

    def add(req, coq, meta):
        reqs.append(req)
        evals.append(coq)
        metas.append(meta)

    # --- complexity / cbo sorts ------------------------------------------------------------
    for kind, sorts in (("functions", ["complexity", "name", "risk"]), ("classes", ["coupling", "name", "risk", "location", ""])):
        for _ in range(12 * mult):
            n = rng.choice([2, 3, 3, 4, 6, 9, 14])
            items = gen_named(rng, n)
            sb = rng.choice(sorts)
            fc, nc = Codes(i["File"] for i in items), Codes(i["Name"] for i in items)
            coq_items = clist(citem([[i["V"]], [fc(i["File"])], [i["Line"]], [nc(i["Name"])], [RISK_ORDER[i["Risk"]]]]) for i in items)
            orders = some_orders(rng, n, 4)
            if kind == "functions":
                req = {"op": "det_sort_functions", "sort_by": sb, "orders": orders,
                       "functions": [{"Name": i["Name"], "File": i["File"], "Line": i["Line"], "Cx": i["V"], "Risk": i["Risk"]} for i in items]}
                coq = "(map (fun it => (num 1 it, num 3 it)) (complexity_functions key_complexity_by_%s %s))" % (sb, coq_items)
            else:
                req = {"op": "det_sort_classes", "sort_by": sb, "orders": orders,
                       "classes": [{"Name": i["Name"], "File": i["File"], "Line": i["Line"], "Cbo": i["V"], "Risk": i["Risk"]} for i in items]}
                key = {"coupling": "by_coupling", "name": "by_name", "risk": "by_risk", "location": "by_location", "": "default"}[sb]
                coq = ("(map (fun it => (num 1 it, num 3 it)) (cbo_classes key_cbo_%s %s), map (fun it => (num 1 it, num 3 it)) (cbo_most_coupled %s))"
                       % (key, coq_items, coq_items))
            add(req, coq, {"site": kind, "fc": fc, "nc": nc})

    # --- dead code reason ------------------------------------------------------------------
    for _ in range(20 * mult):
        nb = rng.randint(1, 6)
        start = rng.choice([6, 8, 12])
        blocks = []
        for b in range(nb):
            end = rng.choice([start - 1, start - 1, start - 2, start - 3, start - 5, start - 6, start + 3])
            blocks.append({"id": "bb%d" % (b + 1), "start": max(1, end - rng.randint(0, 2)), "end": end,
                           "term": rng.choice(["", "return", "raise", "break", "continue", "return", "raise"])})
        blocks.append({"id": "bb%d" % (nb + 1), "start": start, "end": start, "term": ""})
        ic = Codes(b["id"] for b in blocks)
        coq = "(dead_reason %s %s)" % (cZ(start), clist(citem([[b["end"]], [ic(b["id"])], [REASON[b["term"]]]]) for b in blocks))
        add({"op": "det_dead_reason", "blocks": blocks, "target": "bb%d" % (nb + 1), "repeat": 12}, coq, {"site": "dead_reason"})

    # --- cycles ----------------------------------------------------------------------------
    for _ in range(8 * mult):
        ncomp = rng.randint(2, 5)
        mods, edges, comps = [], [], []
        for c in range(ncomp):
            size = rng.choice([2, 2, 3, 3, 6])
            ms = ["%s%d_%d" % (rng.choice("mkq"), c, i) for i in range(size)]
            mods += ms
            comps.append(sorted(ms, key=lambda x: x.encode()))
            for i in range(size):
                edges.append([ms[i], ms[(i + 1) % size]])
            for _e in range(rng.randint(0, 2)):
                a, b = rng.sample(ms, 2)
                edges.append([a, b])
        mc = Codes(mods)
        sev = lambda s: 4 if s >= 10 else 3 if s >= 6 else 2 if s >= 3 else 1
        coq = "(map (fun it => fld 3 it) (cycles %s))" % clist(
            citem([[sev(len(c))], [len(c)], [mc(c[0])], [mc(m) for m in c]]) for c in comps)
        add({"op": "det_cycles", "graph": {"modules": mods, "edges": edges}, "components": comps,
             "orders": some_orders(rng, ncomp, 3), "repeat": 3}, coq, {"site": "cycles", "mc": mc, "edges": edges, "comps": comps})

    # --- longest chains --------------------------------------------------------------------
    for _ in range(20 * mult):
        n = rng.randint(3, 9)
        mods = ["%s%d" % (rng.choice("mxy"), i) for i in range(n)]
        edges = set()
        for _e in range(rng.randint(n - 1, 3 * n)):
            a, b = rng.sample(mods, 2)
            edges.add((a, b))
        edges = sorted(edges)
        mc = Codes(mods)
        succ = {m: [b for (a, b) in edges if a == m] for m in mods}
        g = clist("(%s, %s)" % (cZ(mc(m)), clist(cZ(mc(x)) for x in succ[m])) for m in mods)
        limit = rng.choice([10, 10, 1, 2, 3, 5])
        add({"op": "det_chains", "graph": {"modules": mods, "edges": [list(e) for e in edges]}, "limit": limit, "repeat": 6},
            "(chains_raw key_chains %d%%nat (norm_graph (sorted_chain_roots && sorted_module_names) sorted_chain_succs %s))" % (limit, g),
            {"site": "chains", "mc": mc})

    # --- clone pairs -----------------------------------------------------------------------
    for _ in range(8 * mult):
        nf = rng.randint(3, 6)
        frags, seen = [], set()
        while len(frags) < nf:
            f = (rng.choice(["a.py", "b.py"]), rng.choice([1, 1, 10, 20]), rng.choice([0, 4]), rng.choice([9, 19, 29]), rng.choice([0, 8]))
            if f not in seen:
                seen.add(f)
                frags.append(f)
        pairs = [(a, b) for a in range(nf) for b in range(a + 1, nf) if rng.random() < 0.7]
        if len(pairs) < 2:
            continue
        sims = [rng.choice([0.9, 0.9, 0.95, 0.7]) for _p in pairs]
        rk = rank(sims)
        fc = Codes(f[0] for f in frags)
        loc = lambda f: "(loc_key %s)" % clist(cZ(x) for x in [fc(f[0]), f[1], f[2], f[3], f[4]])
        mx = rng.choice([1, 2, 3, 100])
        coq_items = clist("[[%s]; %s; %s]" % (cZ(rk[s]), loc(frags[a]), loc(frags[b])) for (a, b), s in zip(pairs, sims))
        coq = "(map (fun it => (fld 1 it, fld 2 it)) (clone_pairs %d%%nat %s))" % (mx, coq_items)
        add({"op": "det_clone_pairs", "frags": [{"File": f[0], "SL": f[1], "SC": f[2], "EL": f[3], "EC": f[4]} for f in frags],
             "pairs": [{"A": a, "B": b, "Sim": s} for (a, b), s in zip(pairs, sims)], "max": mx,
             "orders": some_orders(rng, len(pairs), 4)}, coq, {"site": "clone_pairs", "frags": frags, "fc": fc})

    # --- refactoring priority ----------------------------------------------------------------
    for _ in range(8 * mult):
        n = rng.choice([3, 5, 12, 16])
        ms = ["mod%02d" % i for i in range(n)]
        rng.shuffle(ms)
        metrics = [{"Name": m, "Distance": rng.choice([0.9, 0.9, 0.6, 0.3, 1.0]), "Cx": rng.choice([0, 0, 25, 30])} for m in ms]
        cyc = [rng.sample(ms, 2)] if rng.random() < 0.6 else []
        incyc = set(x for c in cyc for x in c)
        prio = {}
        for m in metrics:
            p = 0.0
            if m["Distance"] > 0.5:
                p += m["Distance"] * 50
            if m["Name"] in incyc:
                p += 30
            if m["Cx"] > 20:
                p += float(m["Cx"] - 20) * 2
            if p > 10:
                prio[m["Name"]] = p
        rk = rank(prio.values())
        mc = Codes(ms)
        coq = "(refactoring_priority %s)" % clist(citem([[rk[p]], [mc(m)]]) for m, p in prio.items())
        add({"op": "det_refactor", "metrics": metrics, "cycles": cyc, "repeat": 8}, coq, {"site": "refactor", "mc": mc})

    # --- majority clone type -----------------------------------------------------------------
    for _ in range(8 * mult):
        nf = rng.randint(2, 5)
        frags = [{"File": "a.py", "SL": 10 * i + 1, "EL": 10 * i + 9} for i in range(nf)]
        types = [{"A": a, "B": b, "T": rng.choice([1, 2, 3, 4])} for a in range(nf) for b in range(a + 1, nf) if rng.random() < 0.8]
        counts = {}
        for t in types:
            counts[t["T"]] = counts.get(t["T"], 0) + 1
        coq = "(majority_type %s)" % clist(citem([[c], [t]]) for t, c in counts.items())
        add({"op": "det_majority", "frags": frags, "types": types, "repeat": 10}, coq, {"site": "majority"})

    # --- float sums (the model is abstract in the float type; its IEEE instance is evaluated here) ----
    sums = []
    for _ in range(6 * mult):
        n = rng.choice([3, 5, 11, 24])
        ms = ["m%02d" % i for i in range(n)]
        rng.shuffle(ms)
        metrics = [{"Name": m, "Instability": rng.choice([0.1, 0.2, 0.3, 1 / 3, 0.7, 1.0]), "Abstractness": rng.choice([0.0, 0.1, 0.25]),
                    "Distance": rng.choice([0.1, 0.2, 0.3, 2 / 3, 0.9])} for m in ms]
        sums.append({"op": "det_sums", "metrics": metrics, "repeat": 8})
    return reqs, evals, metas, sums


INJECTED = {"functions", "classes", "cycles", "clone_pairs"}   # arrival order chosen by the harness (slice input)


def sites_part(ck, tier, model_ok):
    reqs, evals, metas, sums = site_cases(ck, tier)
    res = lib.driver(reqs + sums)
    vals = [None] * len(evals)
    if model_ok:
        # Coq evaluation, sharded
        shard = 60
        jobs = []
        for k in range(0, len(evals), shard):
            body = "\n".join("Eval vm_compute in %s." % e for e in evals[k:k + shard])
            jobs.append(("c05_cases_%d" % (k // shard), REQ, body))
        try:
            outs = lib.coq_eval_many(jobs, workers=8)
            vals = []
            for o in outs:
                vals += lib.parse_coq_values(o)
        except RuntimeError as e:
            ck.broken_ties.append("the site models cannot be evaluated: " + str(e)[-600:])
            vals = [None] * len(evals)
            model_ok = False
        if len(vals) != len(evals):
            ck.broken_ties.append("Coq evaluation returned %d values for %d cases" % (len(vals), len(evals)))
            vals = [None] * len(evals)
            model_ok = False
    n_multi, n_dis = 0, 0
    per_site = {}
    reported = set()
    for req, r, v, meta in zip(reqs, res[:len(reqs)], vals, metas):
        site = meta["site"]
        per_site[site] = per_site.get(site, 0) + 1
        if "error" in r:
            ck.broken_ties.append("driver error on %s: %s" % (req["op"], r["error"]))
            continue
        outs_ = r["outputs"]
        tops = r.get("tops")
        n_multi += len(outs_)
        # the property itself: every arrival order gives the same output
        if any(o != outs_[0] for o in outs_) or (tops and any(t != tops[0] for t in tops)):
            n_dis += 1
            tag = {"path": "site:" + site}
            e = ck.match_known(tag)
            if e:
                ck.known_finding(e)
            elif site in reported:
                pass
            elif site in INJECTED:
                # the harness chose the arrival orders: production may always feed this site in one order, so this
                # breaks the site's determinism theorem (tie), and is a report difference only if the CLI runs show one
                reported.add(site)
                ck.broken_ties.append("emission site %s gives different output for two injected arrival orders: %s -> %s"
                                      % (site, json.dumps(req)[:700], json.dumps(outs_[:3])[:500]))
            else:
                reported.add(site)
                ck.violation("emission site %s gives different output for two arrival orders of the same input" % site,
                             {"kind": "site-order-dependence", "request": req, "outputs": outs_[:6], "tops": tops and tops[:6],
                              "how": "echo '<request>' | pyscn-verif"}, independent=True)
            continue
        impl = outs_[0]
        if not model_ok:
            continue
        # the tie: implementation = model
        model, shown = None, None
        if site in ("functions", "classes"):
            fc, nc = meta["fc"], meta["nc"]
            conv = lambda lst: [[fc.back(a), nc.back(b)] for (a, b) in lst]
            if site == "functions":
                model, shown = conv(v), impl
            else:
                model, shown = [conv(v[0]), conv(v[1])], [impl, tops[0]]
        elif site == "dead_reason":
            model = (REASON_NAME[v[1]] + "/critical") if isinstance(v, tuple) else "/warning"
            shown = impl
        elif site == "cycles":
            mc = meta["mc"]
            model = [[mc.back(x) for x in mods] for mods in v]
            shown = [c["modules"] for c in (impl or [])]
            # chains inside each cycle: direct edges within the component, by (from, to) ascending per `from` in module order
            for c in (impl or []):
                ms = c["modules"]
                want = [[a, b] for a in ms for b in sorted(set(y for (x, y) in map(tuple, meta["edges"]) if x == a and y in ms and y != a),
                                                            key=lambda s: s.encode())]
                if c["chains"] != want:
                    ck.broken_ties.append("cycle chains differ from the model (sorted targets): %s vs %s" % (c["chains"], want))
        elif site == "chains":
            mc = meta["mc"]
            model, shown = [[mc.back(x) for x in p] for p in v], impl
        elif site == "clone_pairs":
            frags, fc = meta["frags"], meta["fc"]
            locs = {tuple([fc(f[0]), f[1], f[2], f[3], f[4]]): i for i, f in enumerate(frags)}
            model = [[locs[tuple(a)], locs[tuple(b)]] for (a, b) in v]
            shown = impl
        elif site == "refactor":
            model, shown = [meta["mc"].back(x) for x in v], impl
        elif site == "majority":
            model, shown = (v[1] if isinstance(v, tuple) else 3), impl
        if model != shown:
            ck.broken_ties.append("site %s: implementation %s differs from the Coq model %s on %s"
                                  % (site, json.dumps(shown)[:300], json.dumps(model)[:300], json.dumps(req)[:600]))
    # float sums: every repetition equal, and equal to IEEE addition in module-name order
    for req, r in zip(sums, res[len(reqs):]):
        per_site["sums"] = per_site.get("sums", 0) + 1
        if "error" in r:
            ck.broken_ties.append("driver error on det_sums: " + r["error"])
            continue
        outs_ = r["outputs"]
        n_multi += len(outs_)
        if any(o != outs_[0] for o in outs_):
            n_dis += 1
            e = ck.match_known({"path": "site:sums"})
            if e:
                ck.known_finding(e)
            else:
                ck.violation("float sums over ModuleMetrics differ between two runs on the same input",
                             {"kind": "site-order-dependence", "request": req, "outputs": outs_[:6]}, independent=True)
            continue
        ms = sorted(req["metrics"], key=lambda m: m["Name"].encode())
        n = float(len(ms))
        ti = ta = td = 0.0
        for m in ms:
            ti += m["Instability"]
            ta += m["Abstractness"]
            td += m["Distance"]
        want = [ti / n, ta / n, td / n]
        got = outs_[0]
        if [got[0], got[1], got[2]] != want or [got[4], got[5], got[6]] != want:
            ck.broken_ties.append("float sums differ from addition in module-name order: %s vs %s" % (got, want))
    ck.cov["site_cases"] = len(reqs) + len(sums)
    ck.cov["site_orders_evaluated"] = n_multi
    ck.cov["site_cases_per_site"] = per_site
    ck.cov["site_order_dependences"] = n_dis
    ck.cov["site_model_evaluated"] = model_ok
    ck.samples.append({"site_request": dict(reqs[0], orders=reqs[0].get("orders", [])[:3]),
                       "impl": {k: v[:3] for k, v in res[0].items() if isinstance(v, list)}, "model": str(vals[0])[:300]})


def depth_repeat_part(ck, tier):
    """calculateMaxDepth (service/system_analysis_service.go) on random graphs with overlapping cycles and tails, repeated
    in-process (every range over a Go map takes a fresh random order): the value must not vary."""
    if not getattr(ck, "go_ok", False):
        return 0
    rng = ck.rng
    graphs = []
    for _ in range(60 if tier == "thorough" else 18):
        n = rng.randint(5, 11)
        edges = set()
        hub = 0
        k = rng.randint(2, 4)
        for m in range(1, k + 1):
            edges.add((hub, m)); edges.add((m, hub))            # overlapping 2-cycles through the hub
        for m in range(k + 1, n - 1):
            edges.add((m, m + 1))                               # a tail
        edges.add((hub, k + 1))
        edges.add((n - 1 if rng.random() < 0.3 else rng.randint(1, k), rng.randint(1, k)))
        for _ in range(rng.randint(0, 4)):
            a, b = rng.randrange(n), rng.randrange(n)
            if a != b:
                edges.add((a, b))
        top = n
        edges |= {(top, m) for m in range(0, k + 1)}            # a module importing every cycle member
        graphs.append((n + 1, sorted(edges)))
    reps = 10
    reqs = []
    for n, e in graphs:
        r = {"op": "maxdepth", "modules": ["m%02d" % i for i in range(n)], "edges": [["m%02d" % a, "m%02d" % b] for a, b in e]}
        reqs += [r] * reps
    res = lib.driver(reqs)
    bad = 0
    for gi, (n, e) in enumerate(graphs):
        vals = sorted({x.get("depth") for x in res[gi * reps:(gi + 1) * reps]})
        if len(vals) > 1:
            bad += 1
            if bad <= 2:
                ck.violation("the maximum dependency depth of one import graph differs between repetitions of the same computation: %s "
                             "(%d modules, edges %s)" % (vals, n, e), {"kind": "maxdepth-repeat", "modules": n, "edges": e, "values": vals}, independent=True)
    return len(graphs) * reps


# ----------------------------------------------------------------------------------------------
# (c) MinHash / LSH stage: signatures, band keys and candidate sets of LARGE feature sets
# ----------------------------------------------------------------------------------------------
# distinct-feature counts: around every power of two a sampling / bucketing cut-off could sit at, and far above
LATTICE = (10, 100, 255, 256, 257, 300, 500, 1000)
LATTICE_MORE = (1, 2, 63, 64, 65, 127, 128, 129, 384, 511, 512, 513, 750, 2000, 4096)
LSH_PARAMS = [(128, 32, 4), (64, 16, 4), (120, 24, 5), (32, 32, 1)]     # (hash functions, bands, rows); the first is the default


def feature_family(prefix, n):
    """Five feature lists over n distinct features: A; A reordered with repetitions (the same set); A with ~3 % of the features
    replaced (a near-duplicate); B and C with B u C = A."""
    a = ["%s%d" % (prefix, i) for i in range(n)]
    dup = a[::-1] + a[::3]
    k = max(1, n // 33)
    near = a[:n - k] + ["%sx%d" % (prefix, i) for i in range(k)]
    b, c = a[:n // 2 + n // 5 + 1], a[n // 3:]
    return [a, dup, near, b, c]


def big_families(ck, tier):
    """Families of near-identical large functions whose LSH feature counts (measured through the hook) sit just above 256 and
    then spread up to ~1.5x (quick) / ~2.5x (thorough). Returns (files, [(family, lines, features)])."""
    import random
    rng = ck.rng
    ladder = list(range(70, 126, 5)) if tier == "quick" else list(range(70, 126, 5)) + [135, 145, 160]
    cands = [(ln, rng.randrange(1 << 30)) for ln in ladder for _ in range(2)]
    reqs = [{"op": "det_minhash", "files": [{"path": "c.py", "text": c05proj.big_family(random.Random(sd), "m", ln, 1)[0][1]}],
             "hashes": 8, "bands": 2, "rows": 4, "repeat": 1} for ln, sd in cands]
    res = lib.driver(reqs)
    sized = []
    for (ln, sd), r in zip(cands, res):
        if "error" in r or not r.get("counts"):
            ck.broken_ties.append("det_minhash cannot take the fragments of a generated %d-line function: %s" % (ln, r.get("error")))
            continue
        sized.append((max(r["counts"]), ln, sd))
    targets = (262, 290) if tier == "quick" else (258, 270, 285, 300, 330, 380)
    chosen, files, info = [], {}, []
    for t in targets:
        pool = [x for x in sized if x[0] > 256 and x not in chosen]
        if not pool:
            break
        chosen.append(min(pool, key=lambda x: (abs(x[0] - t), x[1])))
    # one family below the lattice point as a control (<= 256 features)
    small = [x for x in sized if x[0] <= 256]
    if small:
        chosen.append(max(small))
    for f, (cnt, ln, sd) in enumerate(chosen):
        fam = "f%02d" % f
        for nm, text in c05proj.big_family(random.Random(sd), fam, ln, 3):
            files["%s.py" % nm] = text
        info.append((fam, ln, cnt))
    return files, info


def minhash_part(ck, tier, big_files):
    """The same det_minhash requests in several fresh processes, each repeating the computation: every signature, band key,
    candidate set and estimate must be the same everywhere (the property); and the signature must be the MinHash of the SET
    (independent of order / repetitions, element-wise minimum over a union) - the definition the fixed-seed mechanism relies on."""
    rng = ck.rng
    quick = tier == "quick"
    reps = 3 if quick else 6
    nproc = 2 if quick else 4
    reqs, metas = [], []
    sizes = LATTICE if quick else tuple(sorted(LATTICE + LATTICE_MORE))
    for n in sizes:
        prefix = rng.choice(["sub:2:", "sub:3:", "kgram:If:Compare:", "type:", "pattern:"]) + "%04x:" % rng.randrange(1 << 16)
        params = [LSH_PARAMS[0], rng.choice(LSH_PARAMS[1:])] if quick else LSH_PARAMS
        for (h, b, r) in params:
            reqs.append({"op": "det_minhash", "sets": feature_family(prefix, n), "hashes": h, "bands": b, "rows": r, "repeat": reps})
            metas.append({"kind": "sets", "n": n, "prefix": prefix, "params": (h, b, r)})
    if big_files:
        for (h, b, r) in ([LSH_PARAMS[0]] if quick else LSH_PARAMS[:3]):
            reqs.append({"op": "det_minhash", "files": [{"path": n, "text": t} for n, t in sorted(big_files.items())],
                         "hashes": h, "bands": b, "rows": r, "repeat": reps})
            metas.append({"kind": "files", "params": (h, b, r)})
    with ThreadPoolExecutor(max_workers=nproc) as ex:
        procs = list(ex.map(lambda _i: lib.driver(reqs), range(nproc)))
    n_eval, n_diff, reported = 0, 0, 0
    counts_seen = set()
    for qi, (req, meta) in enumerate(zip(reqs, metas)):
        answers = [pr[qi] for pr in procs]
        if any("error" in a for a in answers):
            ck.broken_ties.append("driver error on det_minhash (%s): %s" % (meta, [a.get("error") for a in answers][:2]))
            continue
        ref = answers[0]["outputs"][0]
        ids, counts = answers[0]["ids"], answers[0]["counts"]
        counts_seen.update(counts)
        bad = None
        for pi, a in enumerate(answers):
            if a["ids"] != ids or a["counts"] != counts:
                bad = bad or ("ids", 0, pi, 0, ids, a["ids"])
            for k, o in enumerate(a["outputs"]):
                n_eval += len(ids)
                for part in ("sigs", "keys", "cands", "est"):
                    if o[part] != ref[part] and bad is None:
                        si = next(i for i in range(len(ids)) if o[part][i] != ref[part][i])
                        bad = (part, si, pi, k, ref[part][si], o[part][si])
        if bad:
            n_diff += 1
            part, si, pi, k, v0, v1 = bad
            e = ck.match_known({"path": "site:minhash"})
            if e:
                ck.known_finding(e)
                continue
            reported += 1
            if reported > 3:
                continue
            h, b, r = meta["params"]
            hi = next((i for i, (x, y) in enumerate(zip(v0, v1)) if x != y), None) if isinstance(v0, list) else None
            replay = {"kind": "minhash-differs-between-runs", "op": "det_minhash", "hashes": h, "bands": b, "rows": r,
                      "fragment": ids[si], "distinct_features": counts[si], "part": part, "first_differing_index": hi,
                      "run_a": "process 0, repetition 0", "run_b": "process %d, repetition %d" % (pi, k),
                      "value_a": v0 if hi is None else v0[hi], "value_b": v1 if hi is None else v1[hi],
                      "how": "echo '<request>' | build/bin/pyscn-verif   (twice, or with repeat >= 2)"}
            if meta["kind"] == "sets":
                replay["request_py"] = ("{'op':'det_minhash','hashes':%d,'bands':%d,'rows':%d,'repeat':3,'sets':[['%s%%d' %% i for i in range(%d)]]}"
                                        % (h, b, r, meta["prefix"], meta["n"]))
                replay["set"] = ["A", "A reordered with repetitions", "A with ~3% replaced", "B (B u C = A)", "C"][si]
                if len(req["sets"][si]) <= 600:
                    replay["features"] = req["sets"][si]
            else:
                fn = ids[si].rsplit(":", 1)[0]
                replay["file"] = fn
                replay["source"] = big_files.get(fn)
            ck.violation("the MinHash/LSH stage gives different %s for the same fragment (%s, %d distinct features; %d hash functions, "
                         "%d bands x %d rows) in two computations on the same input: %s vs %s"
                         % ({"sigs": "signatures", "keys": "band keys", "cands": "candidate sets", "est": "similarity estimates",
                             "ids": "fragment ids"}[part], ids[si], counts[si], h, b, r,
                            json.dumps(replay["value_a"])[:120], json.dumps(replay["value_b"])[:120]), replay, independent=True)
            continue
        # the definition (on the common answer): set semantics, union law, estimate, candidates
        sig = [[int(x, 16) for x in sg] for sg in ref["sigs"]]
        if meta["kind"] == "sets":
            if sig[1] != sig[0]:
                ck.broken_ties.append("MinHash signature depends on order / repetitions of the feature list (n=%d, %s)" % (meta["n"], meta["params"]))
            if [min(x, y) for x, y in zip(sig[3], sig[4])] != sig[0]:
                ck.broken_ties.append("MinHash signature of a union is not the element-wise minimum of the parts' signatures "
                                      "(n=%d distinct features, %s): the signature is not the minimum over ALL features" % (meta["n"], meta["params"]))
        for i in range(len(ids)):
            want = sorted((ids[j] for j in range(len(ids)) if set(ref["keys"][i]) & set(ref["keys"][j])), key=lambda x: x.encode())
            if ref["cands"][i] != want:
                ck.broken_ties.append("LSH candidates of %s are not the fragments sharing a band key, sorted: %s vs %s" % (ids[i], ref["cands"][i][:6], want[:6]))
                break
            est = [sum(1 for x, y in zip(sig[i], sig[j]) if x == y) / float(len(sig[i])) for j in range(len(ids))]
            if ref["est"][i] != est:
                ck.broken_ties.append("MinHash similarity estimate of %s is not the fraction of agreeing signature positions" % ids[i])
                break
    ck.cov["minhash_requests"] = len(reqs)
    ck.cov["minhash_processes"] = nproc
    ck.cov["minhash_repetitions_per_process"] = reps
    ck.cov["minhash_fragment_signatures_compared"] = n_eval
    ck.cov["minhash_feature_counts"] = sorted(counts_seen)
    ck.cov["minhash_requests_differing"] = n_diff
    ck.samples.append({"minhash": dict(reqs[0], sets="feature_family(%r, %d)" % (metas[0]["prefix"], metas[0]["n"])),
                       "signature_head": procs[0][0].get("outputs", [{}])[0].get("sigs", [[]])[0][:3]})


def big_cli_start(ck, tier, big_files, info):
    """Repeated `pyscn analyze --select clones` with LSH forced on (several lsh_similarity_threshold values) on the project of large
    near-identical functions; every run is its own process in its own copy, all started in the background."""
    root = lib.fresh_dir("c05-big")
    binary = os.path.join(lib.BIN, "pyscn")
    src = os.path.join(root, "_src")
    if tier == "quick":
        # APTED on one pair of ~100-line functions costs ~1 s: the quick tier runs only the families above 256 features
        # (the family below is compared at the hook level), two thresholds, 4 runs; the grid is in the thorough tier
        keep = tuple("big_%s_" % f for f, _ln, c in info if c > 256)
        big_files = {k: v for k, v in big_files.items() if k.startswith(keep)}
        info = [x for x in info if x[2] > 256]
    c05proj.write_project(big_files, src)
    n = 4 if tier == "quick" else 5
    ths = [None, 0.78] if tier == "quick" else [None, 0.65, 0.78, 0.9]
    cfgs = []
    for th in ths:
        cfg = '[clones]\nlsh_enabled = "true"\n' + ("" if th is None else "lsh_similarity_threshold = %s\n" % th)
        cfgs.append(("lsh-default" if th is None else "lsh-%s" % th, cfg))
    if tier != "quick":
        cfgs.append(("lsh-0.78-star", '[clones]\nlsh_enabled = "true"\nlsh_similarity_threshold = 0.78\ngrouping_mode = "star"\n'))
        # auto mode takes the LSH path when the project has >= lsh_auto_threshold fragments (default 500: one run on 560 generated
        # fragments takes > 5 minutes, so the threshold is lowered instead of the project enlarged)
        cfgs.append(("lsh-auto-3", '[clones]\nlsh_enabled = "auto"\nlsh_auto_threshold = 3\nlsh_similarity_threshold = 0.78\n'))
    ex = ThreadPoolExecutor(max_workers=8 if tier == "quick" else 12)

    def one(name, cfg, i):
        d = os.path.join(root, "%s-run%d" % (name, i), "proj")
        shutil.copytree(src, d)
        with open(os.path.join(d, ".pyscn.toml"), "w") as f:
            f.write(cfg)
        return c05proj.run_once(binary, d, ["--select", "clones"], (1, 2, 16, 2)[i % 4], timeout=900)

    futs = {(name, i): ex.submit(one, name, cfg, i) for name, cfg in cfgs for i in range(n)}
    return {"ex": ex, "futs": futs, "cfgs": cfgs, "n": n, "info": info, "files": big_files}


def big_cli_finish(ck, st):
    n, info = st["n"], st["info"]
    runs, differing, pairs_seen = 0, 0, {}
    for name, cfg in st["cfgs"]:
        outs = [st["futs"][(name, i)].result() for i in range(n)]
        runs += n
        reps = [o[1] for o in outs]
        if any(r is None for r in reps) or any(o[0] not in (0, 1) for o in outs):
            ck.broken_ties.append("pyscn produced no report / failed on the large-function project with %s: rcs %s %s"
                                  % (name, [o[0] for o in outs], [o[2][-200:] for o in outs if o[1] is None][:1]))
            continue
        cl = [r.get("clone") or {} for r in reps]
        if not all((c.get("request") or {}).get("lsh_enabled") in (True, "true", "auto") for c in cl):
            ck.broken_ties.append("the large-function runs did not take the LSH path (%s): request.lsh_enabled = %s"
                                  % (name, [(c.get("request") or {}).get("lsh_enabled") for c in cl][:2]))
        pairs_seen[name] = [len(c.get("clone_pairs") or []) for c in cl]
        paths, detail = {}, {}
        for i in range(1, n):
            out = set()
            c05proj.diff_paths(reps[0], reps[i], "", out, detail)
            for p in out:
                paths[p] = paths.get(p, 0) + 1
        if not paths:
            continue
        differing += 1
        unknown = []
        for path in sorted(paths):
            e = ck.match_known({"path": path})
            if e:
                ck.known_finding(e)
            else:
                unknown.append(path)
        if unknown:
            ck.violation("%d of %d runs of `pyscn analyze --json --no-open --select clones .` (LSH on: %s) on unchanged files - families of "
                         "near-identical large functions, (family, lines, LSH features) = %s - differ from the first run; clone pairs "
                         "per run %s; differing at: %s"
                         % (max(paths[u] for u in unknown), n, cfg.replace("\n", "; "), info, pairs_seen[name], ", ".join(unknown[:10])),
                         {"kind": "report-differs-between-runs", "project": "large-functions", "command": "pyscn analyze --json --no-open --select clones .",
                          "config": cfg, "runs": n, "families": [{"family": f, "lines": ln, "lsh_features": c} for f, ln, c in info],
                          "clone_pairs_per_run": pairs_seen[name], "paths": {u: paths[u] for u in unknown},
                          "examples": {u: [str(x)[:300] for x in detail[u]] for u in unknown[:12]},
                          "files": st["files"],
                          "how": "write `files` into a directory, add .pyscn.toml with `config`, run the command several times, diff the "
                                 "JSON reports ignoring generated_at/duration/version"}, independent=True)
    st["ex"].shutdown()
    ck.cov["big_cli_runs"] = runs
    ck.cov["big_cli_option_sets"] = len(st["cfgs"])
    ck.cov["big_cli_sets_with_differences"] = differing
    ck.cov["big_cli_families"] = [{"family": f, "lines": ln, "lsh_features": c} for f, ln, c in info]
    ck.cov["big_cli_clone_pairs_per_run"] = pairs_seen
    ck.samples.append({"big_cli": "%d runs (%d per option set) of analyze --select clones, lsh_enabled=true, thresholds %s"
                                  % (runs, n, [c[0] for c in st["cfgs"]])})
    return runs


def main(tier):
    ck = lib.Check("C05", tier)
    ck.prepare("C05.v", clean=(tier != "quick" and os.environ.get("VERIF_CLEAN") == "1"))
    t0 = time.time()
    if not getattr(ck, "go_ok", False):
        ck.finish()
    model_ok = ck.make_ok or not any(f.startswith(("Det/", "Gen/")) for f in ck.failed_files)
    big_files, big_info = big_families(ck, tier)
    big = big_cli_start(ck, tier, big_files, big_info) if big_files else None     # runs in the background from here on
    sites_part(ck, tier, model_ok)
    ck.cov["maxdepth_repeats"] = depth_repeat_part(ck, tier)
    minhash_part(ck, tier, big_files)
    t1 = time.time()
    projects = cli_part(ck, tier)
    big_runs = big_cli_finish(ck, big) if big else 0
    if tier != "quick":
        race_part(ck, projects)
    ck.cov.update({
        "evaluations": ck.cov.get("cli_runs", 0) + ck.cov.get("site_orders_evaluated", 0) + big_runs
                       + ck.cov.get("minhash_fragment_signatures_compared", 0),
        "distinct_nontrivial": ck.cov.get("cli_option_sets", 0) + ck.cov.get("site_cases", 0) + ck.cov.get("big_cli_option_sets", 0)
                               + ck.cov.get("minhash_requests", 0),
        "rule": "reports of N runs on unchanged files must be identical after dropping timestamps/durations/version "
                "(N = 6 quick, 30 thorough; GOMAXPROCS 1/2/16); every emission site must give one output for all arrival orders "
                "and that output must equal the Coq model's; MinHash signatures / LSH band keys / candidate sets / estimates of one "
                "feature set must be identical over repetitions in one process and over fresh processes, and be the MinHash of the set "
                "(order- and repetition-independent, element-wise minimum over a union); reports of 4 (thorough 5) runs with LSH forced on "
                "on families of large near-identical functions must be identical",
        "input_distribution": "testdata/python copy + generated tie-rich projects (equal complexities, two/three terminators within "
                              "5 lines, equal CBO with 3 dependencies, 4+ two-cycles and 3 three-cycles, four equal-length import chains "
                              "with a hub exhausting the path budget, 3 clone groups x 3 copies); per site: 2-16 items with duplicated "
                              "primary keys, all permutations up to 4 items, else identity/reverse/random; MinHash: feature sets "
                              "with 10/100/255/256/257/300/500/1000 distinct features (thorough: also 1..4096 around every power of two) x "
                              "(hashes, bands, rows) in {(128,32,4) default, (64,16,4), (120,24,5), (32,32,1)}, each as A / A reordered with "
                              "repetitions / near-duplicate / two parts with union A, plus the fragments of the generated large functions; "
                              "large-function projects: families of 3 near-identical random 70-125 (thorough -160) line functions chosen "
                              "by measured LSH feature count (quick 262/290, thorough 258..380, one control <= 256), lsh_enabled=true, "
                              "lsh_similarity_threshold default/0.78 (thorough also 0.65, 0.9, star grouping), GOMAXPROCS 1/2/16; thorough: LSH auto "
                              "mode with lsh_auto_threshold = 3 (a 500-fragment project costs > 5 min per run: not run)",
        "observable_orders": "Go randomises the start of every map range: with n >= 3 tied keys a missing tie-break shows up in 6 runs "
                             "with probability >= 1 - (1/3)^5; injected orders cover all n! orders for n <= 4",
        "disagreements_checked": ck.cov.get("cli_sets_with_differences", 0) + ck.cov.get("site_order_dependences", 0)
                                 + ck.cov.get("big_cli_sets_with_differences", 0) + ck.cov.get("minhash_requests_differing", 0),
        "timing_s": {"sites": round(t1 - t0, 1), "cli": round(time.time() - t1, 1)},
    })
    ck.trusted += [
        "Coq 8.16.1 kernel; vm_compute (refutation witnesses, model evaluation); primitive floats (float_sum_refuted only)",
        "translator gen_det.go: reads the field sequence of each `less` function, the sort.Strings-before-range pattern and "
        "the cut-off constants from the Go AST",
        "hand-written models Det/Sites.v, Det/Chains.v bound to the code by the site correspondence and by the generated keys",
        "C05_pipeline assumes the analyses share no mutable state (tested: GOMAXPROCS 1/2/16 runs; race-detector build in the thorough tier)",
        "not modelled: Tarjan traversal (SCC partition order-independence is C11), tree-sitter, encoding/json, the Go scheduler; "
        "almostEqual in group comparators is modelled as exact comparison of similarity classes",
    ]
    ck.finish(assumptions=["map keys are unique (NoDup): function names per file, class names per file, block ids, module names",
                           "severityOrder/riskOrder are injective on the values that occur"])


if __name__ == "__main__":
    import sys
    main(sys.argv[1] if len(sys.argv) > 1 else "quick")
