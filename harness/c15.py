"""C15 — health score: bounded, monotone, consistently graded."""
import math
import os
from fractions import Fraction

import lib
from lib import cZ, cQ, cbool, clist

REQ = "From Coq Require Import ZArith QArith List.\nImport ListNotations.\nFrom PV Require Import Score.ScoreQ Score.ScoreRun."
GRADE = {"A": 0, "B": 1, "C": 2, "D": 3, "F": 4, "N/A": 5}
EPS = Fraction(1, 2 ** 36)

FIELDS_Z = ["total_files", "deps_total_modules", "deps_modules_in_cycles", "deps_max_depth", "high_complexity_count",
            "dead_code_count", "critical_dead_code", "warning_dead_code", "info_dead_code", "cbo_classes",
            "high_coupling_classes", "medium_coupling_classes", "lcom_classes", "high_lcom_classes", "medium_lcom_classes"]
FIELDS_Q = ["deps_main_sequence_deviation", "arch_compliance", "average_complexity", "code_duplication_percentage"]
FIELDS_B = ["deps_enabled", "arch_enabled"]


def log10v(files):
    return math.log10(files / 10.0) if files > 10 else 0.0


def coq_summary(s, scale=Fraction(1)):
    q = lambda k: cQ(Fraction(s[k]) * scale)
    return ("(Build_summary %s %s %s %s %s %s %s %s %s %s %s %s %s %s %s %s %s %s %s %s %s)") % (
        cZ(s["total_files"]), cbool(s["deps_enabled"]), cbool(s["arch_enabled"]), cZ(s["deps_total_modules"]),
        cZ(s["deps_modules_in_cycles"]), cZ(s["deps_max_depth"]), q("deps_main_sequence_deviation"),
        q("arch_compliance"), q("average_complexity"), cZ(s["high_complexity_count"]), cZ(s["dead_code_count"]),
        cZ(s["critical_dead_code"]), cZ(s["warning_dead_code"]), cZ(s["info_dead_code"]),
        q("code_duplication_percentage"), cZ(s["cbo_classes"]), cZ(s["high_coupling_classes"]),
        cZ(s["medium_coupling_classes"]), cZ(s["lcom_classes"]), cZ(s["high_lcom_classes"]), cZ(s["medium_lcom_classes"]))


def rand_float(rng, lo, hi):
    k = rng.random()
    if k < 0.3:
        return round(rng.uniform(lo, hi), 2)
    if k < 0.5:
        return float(rng.randint(int(lo), int(hi)))
    return rng.uniform(lo, hi)


def rand_summary(rng, valid=True):
    s = {}
    s["total_files"] = rng.choice([0, 1, 5, 10, 11, 20, 50, 100, 1000, rng.randint(0, 3000)])
    s["deps_enabled"] = rng.random() < 0.6
    s["arch_enabled"] = s["deps_enabled"] and rng.random() < 0.6
    n = rng.choice([0, 1, 2, 3, 7, 8, 15, 16, 31, 64, rng.randint(1, 400)])
    s["deps_total_modules"] = n
    s["deps_modules_in_cycles"] = rng.randint(0, n) if n else 0
    s["deps_max_depth"] = rng.randint(0, 14)
    s["deps_main_sequence_deviation"] = rand_float(rng, 0, 1)
    s["arch_compliance"] = rand_float(rng, 0, 1) if s["arch_enabled"] else 0.0
    s["average_complexity"] = rand_float(rng, 0, rng.choice([3, 10, 16, 40]))
    s["high_complexity_count"] = rng.randint(0, 3)
    c, w, i = (rng.randint(0, rng.choice([0, 3, 10, 40])) for _ in range(3))
    s["critical_dead_code"], s["warning_dead_code"], s["info_dead_code"] = c, w, i
    s["dead_code_count"] = c + w + i
    s["code_duplication_percentage"] = rand_float(rng, 0, rng.choice([1, 6, 12, 100]))
    for pre, cl in (("coupling", "cbo_classes"), ("lcom", "lcom_classes")):
        tot = rng.choice([0, 1, 4, 10, 20, rng.randint(0, 200)])
        hi = rng.randint(0, tot) if rng.random() < 0.7 else rng.randint(0, max(0, tot // 6))
        med = rng.randint(0, tot - hi)
        s[cl] = tot
        s["high_%s_classes" % pre] = hi
        s["medium_%s_classes" % pre] = med
    if not valid:
        k = rng.randint(0, 10)
        if k == 0:
            s["average_complexity"] = -1.5
        elif k == 1:
            s["code_duplication_percentage"] = 100.5
        elif k == 2:
            s["arch_enabled"] = True
            s["arch_compliance"] = 1.25
        elif k == 3:
            s["deps_enabled"] = True
            s["deps_main_sequence_deviation"] = -0.1
        elif k == 4:
            s["deps_enabled"] = True
            s["deps_total_modules"] = 3
            s["deps_modules_in_cycles"] = 4
        elif k == 5:
            s["lcom_classes"] = 2
            s["high_lcom_classes"] = 2
            s["medium_lcom_classes"] = 1
        elif k == 6:
            s["cbo_classes"] = 2
            s["high_coupling_classes"] = 3
        else:
            # every rejection of Validate for the two class families: high alone, medium alone, only the sum
            pre, cl = (("coupling", "cbo_classes"), ("lcom", "lcom_classes"))[k % 2]
            tot = rng.choice([1, 2, 5, 30])
            s[cl] = tot
            hi, med = {7: (tot + 1, 0), 8: (0, tot + rng.randint(1, 3)), 9: (tot, 1), 10: ((tot + 1) // 2, tot // 2 + 1)}[k]
            if k == 8 and rng.random() < 0.5:
                pre, cl2 = (("coupling", "cbo_classes"), ("lcom", "lcom_classes"))[rng.randrange(2)]
                s[cl2] = tot
            s["high_%s_classes" % pre], s["medium_%s_classes" % pre] = hi, med
    return s


def boundary_summaries(rng):
    """One field at a time pushed next to a rounding/threshold boundary, the rest neutral."""
    out = []
    base = dict(total_files=5, deps_enabled=False, arch_enabled=False, deps_total_modules=0, deps_modules_in_cycles=0,
                deps_max_depth=0, deps_main_sequence_deviation=0.0, arch_compliance=0.0, average_complexity=0.0,
                high_complexity_count=0, dead_code_count=0, critical_dead_code=0, warning_dead_code=0, info_dead_code=0,
                code_duplication_percentage=0.0, cbo_classes=0, high_coupling_classes=0, medium_coupling_classes=0,
                lcom_classes=0, high_lcom_classes=0, medium_lcom_classes=0)
    d = 1e-6
    for k in range(0, 21):
        for off in (-d, d):
            s = dict(base); s["average_complexity"] = 2 + 13 * (k + 0.5) / 20 + off; out.append(s)
            s = dict(base); s["code_duplication_percentage"] = max(0.0, (k + 0.5) / 2 + off); out.append(s)
            s = dict(base); s.update(deps_enabled=True, arch_enabled=True, arch_compliance=min(1.0, max(0.0, 1 - (k % 12 + 0.5) / 12 + off))); out.append(s)
            s = dict(base); s.update(deps_enabled=True, deps_main_sequence_deviation=min(1.0, max(0.0, ((k % 3) + 0.5) / 3 + off))); out.append(s)
        s = dict(base); s.update(critical_dead_code=k, dead_code_count=k); out.append(s)
        s = dict(base); s.update(warning_dead_code=2 * k + 1, dead_code_count=2 * k + 1); out.append(s)
        s = dict(base); s.update(info_dead_code=5 * k + 4, dead_code_count=5 * k + 4); out.append(s)
        s = dict(base); s.update(total_files=rng.choice([11, 40, 100, 999]), critical_dead_code=2 * k, dead_code_count=2 * k); out.append(s)
        for tot in (8, 10, 40):
            s = dict(base); s.update(cbo_classes=tot, high_coupling_classes=min(tot, k // 2), medium_coupling_classes=min(tot - min(tot, k // 2), k % 5)); out.append(s)
            s = dict(base); s.update(lcom_classes=tot, high_lcom_classes=min(tot, k // 3), medium_lcom_classes=min(tot - min(tot, k // 3), k % 4)); out.append(s)
        for n in (1, 3, 4, 7, 8, 15, 16, 100):
            s = dict(base); s.update(deps_enabled=True, deps_total_modules=n, deps_modules_in_cycles=min(n, k), deps_max_depth=k % 12); out.append(s)
    # grade boundaries: total penalty exactly p through dead code (<=20) + complexity (<=20) + duplication (<=20)
    for p in range(0, 61):
        s = dict(base)
        a = min(20, p); b = min(20, p - a); c = p - a - b
        s.update(critical_dead_code=a, dead_code_count=a, average_complexity=2 + 13 * b / 20 + (1e-4 if b else 0),
                 code_duplication_percentage=c / 2 + (1e-4 if c else 0))
        out.append(s)
    return out


def worsen(rng, s):
    """A summary that is worse than (or equal to) s in some measured quantities, totals fixed."""
    t = dict(s)
    for _ in range(rng.randint(1, 3)):
        k = rng.randint(0, 10)
        if k == 0: t["average_complexity"] = t["average_complexity"] + rng.choice([0.01, 0.3, 1, 5])
        elif k == 1: t["critical_dead_code"] += rng.randint(1, 4)
        elif k == 2: t["warning_dead_code"] += rng.randint(1, 4)
        elif k == 3: t["info_dead_code"] += rng.randint(1, 6)
        elif k == 4: t["code_duplication_percentage"] = min(100.0, t["code_duplication_percentage"] + rng.choice([0.01, 0.2, 1, 4]))
        elif k == 5 and t["high_coupling_classes"] + t["medium_coupling_classes"] < t["cbo_classes"]:
            t[rng.choice(["high_coupling_classes", "medium_coupling_classes"])] += 1
        elif k == 6 and t["high_lcom_classes"] + t["medium_lcom_classes"] < t["lcom_classes"]:
            t[rng.choice(["high_lcom_classes", "medium_lcom_classes"])] += 1
        elif k == 7 and t["deps_modules_in_cycles"] < t["deps_total_modules"]: t["deps_modules_in_cycles"] += 1
        elif k == 8: t["deps_max_depth"] += 1
        elif k == 9: t["deps_main_sequence_deviation"] = min(1.0, t["deps_main_sequence_deviation"] + rng.choice([0.01, 0.1, 0.3]))
        elif k == 10 and t["arch_enabled"]: t["arch_compliance"] = max(0.0, t["arch_compliance"] - rng.choice([0.01, 0.05, 0.3]))
    t["dead_code_count"] = t["critical_dead_code"] + t["warning_dead_code"] + t["info_dead_code"]
    return t


def impl_vec(r):
    return [r["health"], GRADE.get(r["grade"], 9)] + list(r["scores"]) + [0 if r["invalid"] else 1, r["fallback"]]


def rand_analyses(rng):
    files = rng.choice([1, 5, 10, 11, 20, 60, 300, rng.randint(1, 2000)])
    a = dict(CxFiles=files, AvgCx=rand_float(rng, 0, rng.choice([3, 12, 30])), HighCx=rng.randint(0, 3), DeadFiles=files)
    c, w, i = (rng.randint(0, rng.choice([0, 5, 30])) for _ in range(3))
    a.update(Crit=c, Warn=w, Info=i, DeadTotal=c + w + i)
    a.update(CloneLines=rng.choice([0, 50, 999, 1000, 1001, 5000, rng.randint(1, 100000)]), CloneGroups=rng.choice([0, 0, 1, 2, 3, 10, rng.randint(0, 50)]))
    for p in ("Cbo", "Lcom"):
        tot = rng.choice([0, 1, 7, 30, rng.randint(0, 100)])
        hi = rng.randint(0, tot // 3)
        med = rng.randint(0, (tot - hi) // 2)
        a.update({p + "Classes": tot, p + "High": hi, p + "Med": med})
    n = rng.choice([0, 1, 3, 8, 40, rng.randint(1, 300)])
    a.update(Modules=n, InCycles=rng.randint(0, n) if n else 0, Depth=rng.randint(0, 12), Msd=rand_float(rng, 0, 1),
             HasArch=rng.random() < 0.6, Arch=rand_float(rng, 0, 1))
    return a


def coq_analyses(a, scale=Fraction(1)):
    q = lambda v: cQ(Fraction(v) * scale)
    return ("(Build_analyses %s %s %s %s %s %s %s %s %s %s %s %s %s %s %s %s %s %s %s %s %s)") % (
        cZ(a["CxFiles"]), q(a["AvgCx"]), cZ(a["HighCx"]), cZ(a["DeadFiles"]), cZ(a["DeadTotal"]), cZ(a["Crit"]),
        cZ(a["Warn"]), cZ(a["Info"]), cZ(a["CloneLines"]), cZ(a["CloneGroups"]), cZ(a["CboClasses"]), cZ(a["CboHigh"]),
        cZ(a["CboMed"]), cZ(a["LcomClasses"]), cZ(a["LcomHigh"]), cZ(a["LcomMed"]), cZ(a["Modules"]), cZ(a["InCycles"]),
        cZ(a["Depth"]), q(a["Msd"]), ("(Some %s)" % q(a["Arch"])) if a["HasArch"] else "None")


SELK = ["Cx", "Dead", "Clone", "Cbo", "Lcom", "Sys"]


def coq_sel(sel):
    return "(Build_selection %s %s %s %s %s %s)" % tuple(cbool(sel[k]) for k in SELK)


PY_FILE = '''
import os


class K%(i)d:
    def __init__(self):
        self.a = 1
        self.b = 2

    def m1(self, x):
        if x > 1:
            return self.a
        elif x < -3:
            return self.b
        return x
        print("dead")

    def m2(self, y):
        for i in range(y):
            if i %% 2:
                continue
            y += self.b
        return y


def f%(i)d(v, w):
    total = 0
    for k in range(v):
        if k > w:
            total += k
        else:
            total -= 1
    while total > 100:
        total -= w
    raise ValueError(total)
    return total
'''


def e2e_skip(ck, n_files):
    """CLI level: skipping analyses never lowers the score; summary agrees with the model of calculateSummary."""
    d = lib.fresh_dir("c15_e2e")
    for i in range(n_files):
        with open(os.path.join(d, "mod%d.py" % i), "w") as f:
            f.write(PY_FILE % {"i": i})
    runs = {}
    sels = [None, "complexity", "deadcode", "complexity,deadcode", "deadcode,cbo", "lcom", "clones,deadcode"]
    for sel in sels:
        extra = ["--select", sel] if sel else []
        rc, data, err = lib.analyze_json(d, extra)
        if data is None:
            ck.broken_ties.append("e2e: pyscn analyze %s produced no report (rc=%s): %s" % (extra, rc, err[-300:]))
            continue
        runs[sel] = data["summary"]
    full = runs.get(None)
    n = 0
    for sel, s in runs.items():
        if sel is None or full is None:
            continue
        n += 1
        if s["health_score"] < full["health_score"]:
            ck.violation("skipping analyses lowered the health score: --select %s gives %d, full run gives %d on %d generated files"
                         % (sel, s["health_score"], full["health_score"], n_files),
                         {"kind": "e2e-skip", "select": sel, "n_files": n_files, "summary_sel": s, "summary_full": full,
                          "file_template": PY_FILE}, independent=True)
    for a, b in (("deadcode", "complexity,deadcode"), ("complexity", "complexity,deadcode"), ("deadcode", "deadcode,cbo"), ("deadcode", "clones,deadcode")):
        if a in runs and b in runs:
            n += 1
            if runs[a]["health_score"] < runs[b]["health_score"]:
                ck.violation("skipping analyses lowered the health score: --select %s gives %d, --select %s gives %d (%d files)"
                             % (a, runs[a]["health_score"], b, runs[b]["health_score"], n_files),
                             {"kind": "e2e-skip", "select": a, "superset": b, "n_files": n_files, "summary_sel": runs[a],
                              "summary_super": runs[b], "file_template": PY_FILE}, independent=True)
    # ----- the same question through the configuration file: a category switched off in [system_analysis] (or by --skip-*) must cost
    # nothing: the score of the run with the category off is never below the score of the full run
    import shutil
    pd = lib.fresh_dir("c15_e2e_cfg")
    os.makedirs(os.path.join(pd, "pkg"))
    open(os.path.join(pd, "requirements.txt"), "w").close()
    open(os.path.join(pd, "pkg", "__init__.py"), "w").close()
    for i in range(min(n_files, 14)):
        with open(os.path.join(pd, "pkg", "mod%d.py" % i), "w") as f:
            f.write(("from pkg import mod%d\n\n\n" % (i - 1) if i else "") + PY_FILE % {"i": i})
    variants = {"full": ("", []), "arch_off": ("[system_analysis]\nenable_architecture = false\n", []),
                "deps_off": ("[system_analysis]\nenable_dependencies = false\n", []),
                "both_off": ("[system_analysis]\nenable_dependencies = false\nenable_architecture = false\n", []),
                "skip_deps_flag": ("", ["--skip-deps"]), "select_no_deps": ("", ["--select", "complexity,deadcode,clones,cbo,lcom"])}
    cres = {}
    for name, (toml, extra) in variants.items():
        cfgp = os.path.join(pd, ".pyscn.toml")
        if toml:
            with open(cfgp, "w") as f:
                f.write(toml)
        elif os.path.exists(cfgp):
            os.remove(cfgp)
        rc, data, err = lib.analyze_json(pd, extra)
        if data is None:
            ck.notes.append("e2e config variant %s produced no report (rc=%s): %s" % (name, rc, err[-200:]))
            continue
        cres[name] = data
    if os.path.exists(os.path.join(pd, ".pyscn.toml")):
        os.remove(os.path.join(pd, ".pyscn.toml"))
    fullr = cres.get("full")
    for name, data in cres.items():
        sm, sysr = data["summary"], data.get("system") or {}
        n += 1
        if fullr is not None and name != "full" and sm["health_score"] < fullr["summary"]["health_score"]:
            ck.violation("switching analyses off lowered the health score: variant %s gives %d, the full run gives %d"
                         % (name, sm["health_score"], fullr["summary"]["health_score"]),
                         {"kind": "e2e-config", "variant": name, "config": variants[name][0], "flags": variants[name][1], "summary": sm,
                          "summary_full": fullr["summary"]}, independent=True)
    return n


def main(tier):
    ck = lib.Check("C15", tier)
    ck.prepare("C15.v")
    rng = ck.rng
    thorough = tier == "thorough"
    n_rand = 6000 if thorough else 700
    n_pairs = 4000 if thorough else 500
    n_asm = 3000 if thorough else 400

    # ---------------- part A: CalculateHealthScore vs model on summaries -----------------
    sums = boundary_summaries(rng)
    sums += [rand_summary(rng, valid=rng.random() < 0.9) for _ in range(n_rand)]
    pairs = []
    for _ in range(n_pairs):
        s = rand_summary(rng)
        pairs.append((s, worsen(rng, s)))
    all_s = sums + [x for p in pairs for x in p]
    reqs = [{"op": "score", "summary": s} for s in all_s]
    impl = lib.driver(reqs) if ck.go_ok else []
    ties = mism = 0
    kinds = {"boundary": len(boundary_summaries(rng)), "random": n_rand, "monotone_pairs": n_pairs}
    model = None
    NEEDED = ("Score/ScoreQ.v", "Score/ScoreRun.v", "Score/ScoreBase.v", "Gen/DomainConst.v")
    if impl and (ck.make_ok or not any(f in NEEDED for f in ck.failed_files)):
        try:
            model = []
            shard = 250
            jobs = []
            for off in range(0, len(all_s), shard):
                chunk = all_s[off:off + shard]
                items = []
                for s in chunk:
                    l = Fraction(log10v(s["total_files"]))
                    items.append("[run_score %s %s; run_score %s %s; run_score %s %s]" % (
                        cQ(l), coq_summary(s), cQ(l * (1 - EPS)), coq_summary(s, 1 - EPS), cQ(l * (1 + EPS)), coq_summary(s, 1 + EPS)))
                jobs.append(("C15_cases_%d" % off, REQ, "Definition cases := %s.\nEval vm_compute in cases.\n" % clist(items)))
            for out in lib.coq_eval_many(jobs, workers=12):
                model += lib.parse_coq_values(out)[0]
        except Exception as e:
            ck.broken_ties.append("model evaluation failed: %s" % str(e)[-800:])
            model = None
    inval = 0
    seen = set()
    for idx, s in enumerate(all_s):
        if not impl:
            break
        r = impl[idx]
        if "error" in r:
            ck.violation("CalculateHealthScore crashed: %s" % r["error"], {"summary": s, "impl": r}, independent=True)
            continue
        iv = impl_vec(r)
        seen.add(tuple(iv[:2]))
        inval += 1 - iv[9]
        # --- spec checks on the implementation's own output (independent of the model)
        if iv[9] == 1:
            bad = None
            if not (0 <= iv[0] <= 100):
                bad = "health score %d outside [0,100]" % iv[0]
            cats = iv[2:9]
            if any(not (0 <= c <= 100) for c in cats) and 0 <= s["arch_compliance"] <= 1:
                bad = "category score outside [0,100]: %s" % cats
            g = 0 if iv[0] >= 90 else 1 if iv[0] >= 75 else 2 if iv[0] >= 60 else 3 if iv[0] >= 45 else 4
            if iv[1] != g:
                bad = "grade %s does not match score %d" % (r["grade"], iv[0])
            if bad:
                ck.violation(bad, {"kind": "score", "summary": s, "impl": r})
                continue
        # --- implementation vs model
        if model is not None:
            mv = model[idx]
            if iv != mv[0]:
                if iv == mv[1] or iv == mv[2]:
                    ties += 1
                else:
                    mism += 1
                    if mism <= 3:
                        ck.violation("CalculateHealthScore differs from the model (documented scoring): impl %s, model %s "
                                     "[health, grade, complexity, deadcode, duplication, coupling, cohesion, dependency, architecture, valid, fallback]"
                                     % (iv, mv[0]), {"kind": "score", "summary": s, "impl": r, "model": mv[0]})
    # monotonicity on the implementation
    base = len(sums)
    mono_bad = 0
    for k, (s, t) in enumerate(pairs):
        if not impl:
            break
        a, b = impl[base + 2 * k], impl[base + 2 * k + 1]
        if "error" in a or "error" in b or a["invalid"] or b["invalid"]:
            continue
        if b["health"] > a["health"]:
            mono_bad += 1
            if mono_bad <= 3:
                ck.violation("making measured quantities worse raised the score: %d -> %d" % (a["health"], b["health"]),
                             {"kind": "monotone", "summary": s, "worse_summary": t, "impl": a, "impl_worse": b}, independent=True)

    # ---------------- part B: calculateSummary (assembly) vs model; skip never lowers ----
    asm = []
    for _ in range(n_asm):
        a = rand_analyses(rng)
        sel2 = {k: rng.random() < 0.7 for k in SELK}
        sel1 = {k: (v and rng.random() < 0.6) for k, v in sel2.items()}
        asm.append((a, sel1, sel2))
    reqs = []
    for a, s1, s2 in asm:
        reqs.append({"op": "assemble", "Sel": s1, "A": a})
        reqs.append({"op": "assemble", "Sel": s2, "A": a})
    aimpl = lib.driver(reqs) if ck.go_ok else []
    amodel = None
    if aimpl and (ck.make_ok or not any(f in NEEDED for f in ck.failed_files)):
        try:
            amodel = []
            shard = 100
            jobs = []
            for off in range(0, len(asm), shard):
                items = []
                for a, s1, s2 in asm[off:off + shard]:
                    for sel in (s1, s2):
                        files = a["CxFiles"] if sel["Cx"] else a["DeadFiles"] if sel["Dead"] else 0
                        l = Fraction(log10v(files))
                        items.append("[run_assemble %s %s %s; run_assemble %s %s %s; run_assemble %s %s %s]" % (
                            cQ(l), coq_sel(sel), coq_analyses(a), cQ(l * (1 - EPS)), coq_sel(sel), coq_analyses(a, 1 - EPS),
                            cQ(l * (1 + EPS)), coq_sel(sel), coq_analyses(a, 1 + EPS)))
                jobs.append(("C15_asm_%d" % off, REQ, "Definition cases := %s.\nEval vm_compute in cases.\n" % clist(items)))
            for out in lib.coq_eval_many(jobs, workers=12):
                amodel += lib.parse_coq_values(out)[0]
        except Exception as e:
            ck.broken_ties.append("assembly model evaluation failed: %s" % str(e)[-800:])
            amodel = None
    amism = skipbad = 0
    for k, (a, s1, s2) in enumerate(asm):
        if not aimpl:
            break
        r1, r2 = aimpl[2 * k], aimpl[2 * k + 1]
        if "error" in r1 or "error" in r2:
            ck.violation("calculateSummary crashed: %s %s" % (r1.get("error"), r2.get("error")), {"analyses": a, "sel": s1, "sel_super": s2}, independent=True)
            continue
        if r1["health"] < r2["health"] and r1["grade"] != "N/A":
            skipbad += 1
            if skipbad <= 3:
                ck.violation("skipping analyses lowered the score: %d with %s, %d with superset %s" % (
                    r1["health"], [k for k in SELK if s1[k]], r2["health"], [k for k in SELK if s2[k]]),
                    {"kind": "skip", "analyses": a, "sel": s1, "sel_super": s2, "impl": r1, "impl_super": r2}, independent=True)
        if amodel is not None:
            for r, mv, sel in ((r1, amodel[2 * k], s1), (r2, amodel[2 * k + 1], s2)):
                iv = [r["health"], GRADE.get(r["grade"], 9)] + list(r["scores"])
                cands = [m[:9] for m in mv]
                tf_ok = r["total_files"] == mv[0][10]
                # invalid summaries: category scores of the Go struct are reset to 0 as in the model
                if iv != cands[0] or not tf_ok:
                    if tf_ok and iv in cands[1:]:
                        ties += 1
                    else:
                        amism += 1
                        if amism <= 3:
                            ck.violation("calculateSummary differs from the model: impl %s files=%s, model %s files=%s"
                                         % (iv, r["total_files"], cands[0], mv[0][10]),
                                         {"kind": "assemble", "analyses": a, "sel": sel, "impl": r, "model": mv[0]})

    # ---------------- part C: command line ------------------------------------------------
    n_e2e = 0
    if ck.go_ok:
        n_e2e += e2e_skip(ck, 24)
        if thorough:
            n_e2e += e2e_skip(ck, 12)
            n_e2e += e2e_skip(ck, 120)

    ck.samples = [{"summary": sums[0]}, {"summary": sums[len(sums) // 2], "impl": impl[len(sums) // 2] if impl else None},
                  {"assemble": asm[0][0], "sel": asm[0][1]}]
    ck.cov.update({
        "evaluations": len(all_s) + 2 * len(asm) + n_e2e,
        "distinct_nontrivial": len({tuple(sorted((k, str(v)) for k, v in s.items())) for s in all_s}),
        "rule": "summaries: boundary lattice (each field next to every rounding boundary), random valid/invalid, "
                "(s, worse s) pairs; assembly: random analysis vectors x nested selections; e2e: generated project x --select subsets. "
                "distinct = distinct summaries",
        "input_distribution": dict(kinds, invalid_summaries=inval, assembly_pairs=len(asm), e2e_comparisons=n_e2e,
                                   distinct_score_grade_pairs=len(seen)),
        "rounding_ties_accepted": ties,
        "model_mismatches": mism + amism,
        "disagreements_checked": mism + amism + mono_bad + skipbad,
    })
    ck.trusted += ["Coq 8.16.1 kernel, vm_compute for model evaluation", "translator /verif/translator (constants of package domain)",
                   "float64 vs Q: results compared exactly except within 2^-36 relative of a rounding boundary (either neighbour accepted)",
                   "math.Log10 modelled as an oracle with log10 x >= 0 for x >= 1; its value supplied by Python math.log10",
                   "hand-written model Score/ScoreQ.v of domain/analyze.go and app/analyze_usecase.go:calculateSummary"]
    ck.finish(assumptions=["inputs are finite float64 values; counts fit in int"])
