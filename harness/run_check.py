#!/usr/bin/env python3
"""usage: run_check.py <Cxx> <quick|thorough>"""
import importlib
import os
import sys

sys.path.insert(0, os.path.dirname(os.path.abspath(__file__)))


def main():
    if len(sys.argv) < 3:
        print(__doc__)
        sys.exit(2)
    prop, tier = sys.argv[1].upper(), sys.argv[2]
    os.environ.setdefault("VERIF_TIER", tier)
    mod = importlib.import_module(prop.lower())
    mod.main(tier)


if __name__ == "__main__":
    main()
