#!/bin/bash
# usage: seed6.sh <Cxx> : confirm a round-7 seed (/tmp/seed7/<Cxx>/{wt,out}): demo with/without, build, tests of the touched packages and their users
id=$1; d=/tmp/seed7/$id
export GOFLAGS=-mod=mod GOPROXY=off
bash /verif/harness/confirm_seed.sh $id $d/wt $d/out
cd $d/wt
pk=$(git diff --name-only | grep '\.go$' | xargs -n1 dirname | sort -u | sed 's|^|./|' | tr '\n' ' ')
go build ./... || { echo "$id BUILD-FAILED"; exit 1; }
go vet $pk >/dev/null 2>&1 || echo "$id vet complains (informational)"
timeout 1500 go test -count=1 $pk ./app/ ./cmd/... ./domain/... ./mcp/... ./integration/... 2>&1 | grep -v "no test files" | tail -12
echo "$id tests-done"
