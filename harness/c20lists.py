"""C20, LIST-VALUED configuration keys: a list read from one project's configuration file must stay with that load.

A list is the one kind of configuration value that can be shared instead of copied: when the loader merges the list of a file into the
defaults IN PLACE (`append(defaults.X[:0], file.X...)`, `copy(defaults.X, file.X)`, sorting / de-duplicating the default slice) and the
default is a package-level slice, one project's list silently becomes the default of the PROCESS.  Nothing of that shows in one command
line run (every load writes the same values); it shows
  * as state carried between the calls of one process: a later analysis of ANOTHER project without that key gets other findings than the
    command line and than a fresh process (sections "lists" of the MCP histories and of the in-process hook below), and
  * as a data race between the concurrently running analyses, each of which loads the configuration (race stage below).

Inputs.  The list-valued keys are ENUMERATED from the TOML structs of the repository (internal/config/*.go: every field of a section
struct whose type is a slice, and the slice fields of array-of-table elements); a key of the repository without a pool of values below is
a broken tie, not a silent gap.  Projects (the same sources everywhere):
  L1, L2, L3   .pyscn.toml in which EVERY list-valued key is a list of 1 / 2 / 3 entries, each entry different from the built-in default
               at the same position (so an in-place overwrite of a default of any length changes it)
  Lp           pyproject.toml [tool.pyscn.*] with the same keys (1, 2 or 3 entries, drawn from the seed)
  B            no configuration file anywhere above it; it contains what each key would affect: clone pairs of every type the default
               enables (measured: stats clone_types_in_B), files the default include pattern selects in sub-directories, files the default
               exclude patterns drop (test_*.py, *_test.py: with findings for every tool, so that losing the default shows), files the
               lists of L* name (helpers*.py, dead*.py, ...), dead code the ignore patterns name, modules the layers / rules name
Histories on ONE real pyscn-mcp process each (calls strictly one after the other):
  * fresh:  every tool on B as the FIRST call of a fresh server
  * L,B:    for every tool Ta and every L in L1, L2, L3, Lp: Ta(L), then EVERY tool on B
  * B,L,B:  for every tool Ta (thorough: and every L; quick: L rotates): every tool on B, Ta(L), every tool on B again
and the same sequences through repeated calls of the MCP handlers inside one pyscn-verif process (op mcp), for every L.
Decision, per answer (nothing is compared with a fixed value): every answer equals the command line run for that call's path and options
alone (judge / compare of c20hist / c20mcp), and every answer for B equals the answer the same call gets as the first call of a fresh
server.  A failing history is shrunk and replayed through a `{ printf ..; sleep ..; printf ..; } | pyscn-mcp` line like in c20hist.

Race stage (race_stage): the -race build of the command line on L1, L2, L3, Lp with all analyses selected under GOMAXPROCS 1/2/4/16
(thorough: repeated): no "DATA RACE" in stderr, exit status not 66.
"""
import glob
import json
import os
import random
import re
import shutil
import subprocess
import time
from concurrent.futures import ThreadPoolExecutor

import lib
import c20mcp as M
import c20hist as H

# ----------------------------------------------------------------------------------------------------------------------------------
# the list-valued keys: (built-in default — internal/config/pyscn_config.go, config.go, domain/clone.go —, pool of entries)
# entry i of a pool differs from entry i of the default; a configuration "of length k" takes the first k entries of every pool
# ----------------------------------------------------------------------------------------------------------------------------------
POOLS = {
    "analysis.include_patterns": (["**/*.py"], ["[a-s]*.py", "pkg/**/*.py", "ta*.py"]),
    "analysis.exclude_patterns": (["test_*.py", "*_test.py"], ["helpers*.py", "dead*.py", "loose*.py"]),
    "dead_code.ignore_patterns": ([], ["print\\(", "raise ", "x -= 1"]),
    "clones.enabled_clone_types": (["type1", "type2", "type4"], ["type3", "type1", "type2"]),
    "clones.paths": (["."], ["pkg", "hub.py", "."]),
    "clones.include_patterns": (["**/*.py"], ["[a-o]*.py", "pkg/*.py", "t*.py"]),
    "clones.exclude_patterns": (["test_*.py", "*_test.py"], ["tables*.py", "hub*.py", "orders*.py"]),
    "architecture.custom_patterns": ([], ["pkg.*", "hub", "dead*"]),
    "architecture.allowed_patterns": ([], ["pkg.ui", "pkg.core", "hub"]),
    "architecture.forbidden_patterns": ([], ["pkg.data", "dead", "helpers"]),
    "architecture.layers": ([], [{"name": "ui", "packages": ["pkg.ui"]}, {"name": "core", "packages": ["pkg.core", "hub"]},
                                 {"name": "data", "packages": ["pkg.data", "dead", "helpers"]}]),
    "architecture.rules": ([], [{"from": "ui", "allow": ["ui"], "deny": ["core", "data"]}, {"from": "core", "allow": ["core", "ui"], "deny": ["data"]},
                                {"from": "data", "allow": ["data", "core", "ui"], "deny": ["unknown"]}]),
    "mock_data.keywords": (None, ["lorem", "sample", "placeholder"]),
    "mock_data.domains": (None, ["verif.invalid", "nowhere.test", "x.example"]),
    "mock_data.ignore_patterns": ([], ["fixtures/", "conftest", "seed_"]),
}
# list fields of the elements of an array of tables: covered by the element pools above
INNER = {"architecture.layers": ["packages"], "architecture.rules": ["allow", "deny"]}


def repo_list_keys():
    """{"section.key": [inner list fields]} of every list-valued key the TOML loader of the repository knows (parsed from the structs)."""
    src = ""
    for fn in sorted(glob.glob(os.path.join(lib.REPO, "internal", "config", "*.go"))):
        if not fn.endswith("_test.go"):
            src += open(fn, errors="replace").read() + "\n"
    structs = {}
    for m in re.finditer(r"^type (\w+) struct \{\n(.*?)^\}", src, re.S | re.M):
        fields = []
        for line in m.group(2).splitlines():
            g = re.match(r"\s*\w+\s+(\S+)\s+`[^`]*toml:\"([^\",]+)", line)
            if g:
                fields.append((g.group(1), g.group(2)))
        structs[m.group(1)] = fields
    out = {}
    for ty, sec in structs.get("PyscnTomlConfig", []):
        for fty, key in structs.get(ty.lstrip("*"), []):
            if fty.startswith("[]"):
                inner = [k for t, k in structs.get(fty[2:].lstrip("*"), []) if t.startswith("[]")]
                out["%s.%s" % (sec, key)] = inner
    return out


def config_of(k):
    cfg = {}
    for name, (default, pool) in POOLS.items():
        sec, key = name.split(".")
        cfg.setdefault(sec, {})[key] = pool[:k]
    return cfg


def toml_value(v):
    return "true" if v is True else "false" if v is False else json.dumps(v)


def toml_doc(cfg, prefix=""):
    out, tables = ["# generated by harness/c20lists.py"], []
    for sec in sorted(cfg):
        out.append("[%s%s]" % (prefix, sec))
        for k, v in sorted(cfg[sec].items()):
            if isinstance(v, list) and v and isinstance(v[0], dict):
                for el in v:
                    tables.append("[[%s%s.%s]]" % (prefix, sec, k))
                    tables += ["%s = %s" % (k2, toml_value(v2)) for k2, v2 in sorted(el.items())]
                    tables.append("")
            else:
                out.append("%s = %s" % (k, toml_value(v)))
        out.append("")
    return "\n".join(out + tables) + "\n"


# ----------------------------------------------------------------------------------------------------------------------------------
# sources
# ----------------------------------------------------------------------------------------------------------------------------------
def first_fn(src):
    return src.split("\n\n\ndef ")[0].rstrip("\n") + "\n"


SPLIT = ("class Base%s:\n    pass\n\n\nclass %s(Base%s):\n    def __init__(self):\n        self.a = 0\n        self.b = 0\n\n    def one(self):\n        return self.a\n\n"
         "    def two(self):\n        return self.b\n")


def sources():
    dead2 = M.DEAD.replace("far_dead", "far_helper").replace("near_dead", "near_helper").replace("both", "any_helper")
    dead3 = M.DEAD.replace("far_dead", "far_test").replace("near_dead", "near_test").replace("both", "any_test")
    mod = "from pkg import %s\n\n\ndef %s_entry(x):\n    if x:\n        return %s.%s_entry(x - 1)\n    return 0\n"
    return {
        # near copies of one function: clone pairs of several types (which ones: measured, stats clone_types_in_B)
        "orders.py": first_fn(M.DUP_A), "loose.py": first_fn(M.DUP_E), "tables.py": first_fn(M.DUP_C),
        "helpers.py": H.ladder("helper", [2, 6]) + dead2,
        "dead.py": M.DEAD,
        "hub.py": M.HUB,
        # dropped by the DEFAULT exclude patterns; each has findings for every tool (a clone of orders.py, complex functions, dead code, classes)
        "test_invoices.py": first_fn(M.DUP_B) + "\n\n" + SPLIT % (("TestSplit",) * 3) + "\n\n" + dead3,
        "steps_test.py": H.ladder("step", [4, 11]) + SPLIT % (("StepSplit",) * 3),
        # selected by the default include pattern in a sub-directory; an import cycle through the three layers the L configurations name
        "pkg/__init__.py": "",
        "pkg/ui.py": mod % ("core", "ui", "core", "core"),
        "pkg/core.py": mod % ("data", "core", "data", "data"),
        "pkg/data.py": mod % ("ui", "data", "ui", "ui"),
    }


def answer_print(tool, answer, proj):
    """The findings an answer carries (the projection of c20mcp), as one comparable string."""
    if "dead" in answer or "rpc_error" in answer or "error" in answer:
        return "no result: %s" % str(answer)[:200]
    if answer.get("is_error"):
        return "error: %s" % answer.get("text", "")[:200]
    try:
        m = json.loads(answer["text"])
    except Exception:
        return "not JSON: %s" % answer.get("text", "")[:200]
    if tool in M.SINGLE:
        return json.dumps(M.rows_of(tool, m, proj))
    if tool == "get_health_score":
        return json.dumps(M.health_of_tool(m), sort_keys=True)
    return json.dumps([M.all_rows(m, proj), M.health_of_summary(m.get("summary"))], sort_keys=True)


def print_diff(a, b):
    if a == b:
        return None
    try:
        ja, jb = json.loads(a), json.loads(b)
    except Exception:
        return "%s vs %s" % (a[:200], b[:200])
    if isinstance(ja, list) and isinstance(jb, list) and all(isinstance(x, list) for x in ja + jb):
        ta, tb = [json.dumps(x) for x in ja], [json.dumps(x) for x in jb]
        return "only here: %s | only in the fresh process: %s" % ([x for x in ta if x not in tb][:3], [x for x in tb if x not in ta][:3])
    return first_json_diff(ja, jb, "")


def first_json_diff(a, b, path):
    if isinstance(a, dict) and isinstance(b, dict):
        for k in sorted(set(a) | set(b)):
            if a.get(k) != b.get(k):
                return first_json_diff(a.get(k), b.get(k), path + "." + k)
    if isinstance(a, list) and isinstance(b, list):
        if len(a) != len(b):
            sa, sb = [json.dumps(x) for x in a], [json.dumps(x) for x in b]
            return "%s: %d vs %d items (only here %s, only in the fresh process %s)" % (path, len(a), len(b), [x for x in sa if x not in sb][:2], [x for x in sb if x not in sa][:2])
        for i, (x, y) in enumerate(zip(a, b)):
            if x != y:
                return first_json_diff(x, y, "%s[%d]" % (path, i))
    return "%s: %s vs %s" % (path, str(a)[:120], str(b)[:120])


# ----------------------------------------------------------------------------------------------------------------------------------
# the section (started from c20mcp.run; shares its cache of command line runs)
# ----------------------------------------------------------------------------------------------------------------------------------
class Section:
    fails = H.Section.fails
    shrink = H.Section.shrink

    def __init__(self, ck, base, R, stats, violation, thorough):
        self.ck, self.R, self.stats, self.violation, self.thorough = ck, R, stats, violation, thorough
        self.t0 = time.time()
        self.root = os.path.join(base, "lists")
        self.logdir = os.path.join(self.root, "logs")
        os.makedirs(self.logdir)
        self.s = stats["mcp_list_keys"] = {"servers": 0, "calls": 0, "agree_with_cli": 0, "agree_with_fresh": 0, "histories": {}, "failing_histories": 0,
                                           "inprocess_sequences": 0, "inprocess_calls": 0}
        self.usable = True
        # coverage of the key enumeration
        keys = repo_list_keys()
        self.s["list_keys_of_repo"] = sorted(keys)
        if not keys:
            ck.broken_ties.append("list-valued keys: no slice field found in the TOML structs of internal/config (struct PyscnTomlConfig renamed?)")
        for k, inner in sorted(keys.items()):
            if k not in POOLS:
                ck.broken_ties.append("list-valued keys: the repository reads the list-valued key %s, harness/c20lists.py has no values for it" % k)
            elif sorted(inner) != sorted(INNER.get(k, [])):
                ck.broken_ties.append("list-valued keys: the elements of %s have the list fields %s, harness/c20lists.py sets %s" % (k, inner, INNER.get(k, [])))
        for k, (default, pool) in POOLS.items():
            if default and any(a == b for a, b in zip(default, pool)):
                ck.broken_ties.append("list-valued keys: the pool of %s repeats the default at one position" % k)
        rng = random.Random(ck.seed * 6151 + 620)
        files = sources()
        self.neutral = H.write_tree(os.path.join(self.root, "neutral"), {}, {}, "pyscn")
        self.cfgs = {"L1": config_of(1), "L2": config_of(2), "L3": config_of(3)}
        kp = rng.randint(1, 3)
        self.cfgs["Lp"] = config_of(kp)
        self.s["pyproject_list_length"] = kp
        self.texts = {}
        projs = {}
        for nm, cfg in self.cfgs.items():
            d = H.write_tree(os.path.join(self.root, nm), files, {}, "none")
            if nm == "Lp":
                self.texts[nm] = '[project]\nname = "d"\nversion = "0"\n\n' + toml_doc(cfg, "tool.pyscn.")
                fn = "pyproject.toml"
            else:
                self.texts[nm] = toml_doc(cfg)
                fn = ".pyscn.toml"
            with open(os.path.join(d, fn), "w") as f:
                f.write(self.texts[nm])
            projs[nm] = d
        pb = H.write_tree(os.path.join(self.root, "nocfg", "B"), files, {}, "none")
        above = H.config_above(pb)
        if above:
            ck.broken_ties.append("list-valued keys: a configuration file (%s) is discovered from the scratch project without configuration" % above)
            self.usable = False
            return
        N = self.neutral
        # the effective quick filters of every project here are the built-in ones (no configuration sets them): Scenario(cfg={})
        S = lambda nm, p: M.Scenario("lists %s" % nm, p, N, {})
        self.L = [H.Tgt(nm, S(nm, projs[nm]), "", nm) for nm in ("L1", "L2", "L3", "Lp")]
        self.B = H.Tgt("B", S("B", pb), "", "default")
        self.hists = self.generate(rng)
        self.mains = {}
        self.cli_pool = ThreadPoolExecutor(max_workers=6)
        for h in self.hists:
            for st in h.steps:
                fl, cfg = M.cli_flags(st.tgt.sc, st.tool, st.args, None)
                self.mains[id(st)] = R.cli(st.tgt.sc, fl, cfg, st.tgt.path, pool=self.cli_pool)
        self.pool = ThreadPoolExecutor(max_workers=10)
        order = sorted(range(len(self.hists)), key=lambda i: -len(self.hists[i].steps))
        futs = {i: self.pool.submit(H.play, self.logdir, self.hists[i].cwd, None, self.hists[i].steps) for i in order}
        self.futs = [futs[i] for i in range(len(self.hists))]
        # the same sequences through the in-process hook (one pyscn-verif process per sequence, a new handler set per call: only
        # process-wide state can travel)
        self.inproc = []
        if ck.go_ok:
            for i, l in enumerate(self.L):
                ta = M.TOOLS[(i + rng.randrange(len(M.TOOLS))) % len(M.TOOLS)]
                for kind in ("L,B", "B,L,B"):
                    steps = ([self.step(self.B, t) for t in M.TOOLS] if kind == "B,L,B" else []) + [self.step(l, ta)] + [self.step(self.B, t) for t in M.TOOLS]
                    for st in steps:
                        fl, cfg = M.cli_flags(st.tgt.sc, st.tool, st.args, None)
                        self.mains[id(st)] = R.cli(st.tgt.sc, fl, cfg, st.tgt.path, pool=self.cli_pool)
                    self.inproc.append((kind, steps, self.pool.submit(self.drive, steps)))

    def step(self, tgt, tool):
        return H.Step(tgt, tool, {}, "full")

    @staticmethod
    def drive(steps):
        try:
            return lib.driver([{"op": "mcp", "tool": st.tool, "args": st.call_args} for st in steps], timeout=600)
        except Exception as e:
            return [{"dead": "pyscn-verif: %s" % str(e)[-600:]}] * len(steps)

    def generate(self, rng):
        out = []

        def add(kind, name, steps):
            out.append(H.History(name, kind, self.neutral, None, steps))
            self.s["histories"][kind] = self.s["histories"].get(kind, 0) + 1
        self.fresh_index = {}
        for t in M.TOOLS:
            self.fresh_index[t] = len(out)
            add("fresh", "%s(B) on a fresh server" % t, [self.step(self.B, t)])
        for li, l in enumerate(self.L):
            for ti, ta in enumerate(M.TOOLS):
                rot = (li + ti) % len(M.TOOLS)
                tools = M.TOOLS[rot:] + M.TOOLS[:rot]
                add("L,B", "%s(%s), every tool on B" % (ta, l.name), [self.step(l, ta)] + [self.step(self.B, t) for t in tools])
        off = rng.randrange(len(self.L))
        for ti, ta in enumerate(M.TOOLS):
            for li, l in enumerate(self.L):
                if self.thorough or li == (ti + off) % len(self.L):
                    add("B,L,B", "every tool on B, %s(%s), every tool on B" % (ta, l.name),
                        [self.step(self.B, t) for t in M.TOOLS] + [self.step(l, ta)] + [self.step(self.B, t) for t in reversed(M.TOOLS)])
        return out

    # -- decision ------------------------------------------------------------------------------------------------------------------
    def verdict(self, st, answer):
        d = H.judge(st, answer, self.mains[id(st)].result())
        if d is None and st.tgt is self.B and st.tool in self.fresh:
            d2 = print_diff(answer_print(st.tool, answer, st.tgt.sc.proj), self.fresh[st.tool])
            if d2:
                d = "differs from the answer the same call gets as the first call of a fresh server: " + d2
        return d

    def decide(self):
        if not self.usable:
            return
        s = self.s
        results = [f.result() for f in self.futs]
        self.fresh = {}
        for t, i in self.fresh_index.items():
            self.fresh[t] = answer_print(t, results[i][0][0], self.B.sc.proj)
        # what B contains / what the lists change (measured, not assumed)
        types, eff = set(), {}
        for h in self.hists:
            for st in h.steps:
                rep = self.mains[id(st)].result()[1]
                if not rep:
                    continue
                if st.tool == "detect_clones" and st.tgt is self.B:
                    types |= {r[3] for r in M.rows_clones(rep.get("clone"), st.tgt.sc.proj)}
                eff.setdefault(st.tool, {})[st.tgt.name] = self.cli_print(st, rep)
        s["clone_types_in_B"] = sorted(types)
        s["configurations_with_other_findings_than_B"] = {t: sorted(n for n, v in d.items() if n != "B" and v != d.get("B")) for t, d in sorted(eff.items())}
        if len(types) < 2:
            self.ck.notes.append("list-valued keys: the project without configuration has clone pairs of the types %s only" % sorted(types))
        failing, slowest = [], 0.0
        for h, (answers, secs) in zip(self.hists, results):
            s["servers"] += 1
            slowest = max([slowest] + secs)
            first = None
            for k, (st, a) in enumerate(zip(h.steps, answers)):
                s["calls"] += 1
                d = H.judge(st, a, self.mains[id(st)].result())
                if d is None:
                    s["agree_with_cli"] += 1
                    if st.tgt is self.B:
                        d2 = print_diff(answer_print(st.tool, a, st.tgt.sc.proj), self.fresh[st.tool])
                        if d2 is None:
                            s["agree_with_fresh"] += 1
                        else:
                            d = "differs from the answer the same call gets as the first call of a fresh server: " + d2
                if d is not None and first is None:
                    first = (k, d)
            if first:
                failing.append((h, first[0], first[1]))
        s["failing_histories"] = len(failing)
        s["slowest_call_seconds"] = round(slowest, 2)
        failing.sort(key=lambda x: (x[1], len(x[0].steps)))
        seen = set()
        for h, k, d in failing:
            st = h.steps[k]
            if st.tool in seen or len(seen) >= 3:
                continue
            seen.add(st.tool)
            steps, d2 = self.shrink(h, k)
            note = None
            if not steps:
                steps, d2, note = h.steps[:k + 1], d, "NOT reproduced by a second run of the same prefix on a fresh server"
            self.report(h, steps, d2, note, max(2, int(slowest * 3) + 1))
        # in-process sequences
        bad = 0
        for kind, steps, fut in self.inproc:
            answers = fut.result()
            s["inprocess_sequences"] += 1
            for k, (st, a) in enumerate(zip(steps, answers)):
                s["inprocess_calls"] += 1
                d = self.verdict(st, a)
                if d is None:
                    continue
                bad += 1
                if bad <= 2:
                    last_l = [x for x in steps[:k] if x.tgt is not self.B][-1:]
                    self.violation("the MCP handler %s called inside one process (pyscn-verif, op mcp) returns other findings for the project without configuration "
                                   "after %s: %s" % (st.tool, ", ".join("%s on %s" % (x.tool, x.tgt.name) for x in last_l) or "earlier calls on the same project", d),
                                   {"kind": "mcp-inprocess-sequence", "tool": st.tool, "sequence": kind, "difference": d, "wrong_answer_index": k,
                                    "driver_requests": [{"op": "mcp", "tool": x.tool, "args": x.call_args} for x in steps[:k + 1]],
                                    "configuration_files": {x.tgt.name: self.texts[x.tgt.name] for x in last_l},
                                    "cli": " ".join(self.mains[id(st)].result()[3])})
                break
        self.pool.shutdown()
        self.cli_pool.shutdown()
        s["seconds_after_start"] = round(time.time() - self.t0, 1)

    def cli_print(self, st, report):
        sc = st.tgt.sc
        if st.tool in M.SINGLE:
            return json.dumps(M.rows_of(st.tool, report.get(M.SECTION[st.tool]), sc.proj))
        if st.tool == "get_health_score":
            return json.dumps(M.health_of_summary(report.get("summary")), sort_keys=True)
        return json.dumps(M.all_rows(report, sc.proj), sort_keys=True)

    def report(self, h, steps, diff, note, pause):
        last = steps[-1]
        main = self.mains[id(last)].result()
        line = H.shell_line(h.cwd, None, steps, pause)
        confirmed = None
        if len(steps) <= 8:
            a = H.run_shell_line(line, len(steps))
            confirmed = a is not None and self.verdict(last, a) is not None
        if len(steps) == 1:
            what = ("MCP %s returns different findings than the command line for the same path and options [a single call on a fresh server; target %s; "
                    "CLI: %s]: %s" % (last.tool, last.tgt.name, " ".join(main[3][1:]), diff))
        else:
            what = ("MCP %s returns different findings for a project WITHOUT configuration file when the same server process answered a call for a project "
                    "whose configuration sets list-valued keys before: after %s the call %s [CLI: %s] differs: %s — the same call as the first call of a "
                    "fresh server agrees with the command line, so a list of one project's configuration stays in the process (state carried from one "
                    "call to the next)" % (last.tool, ", ".join("%s [configuration %s]" % (x.short(), x.tgt.conf) for x in steps[:-1]), last.short(),
                                           " ".join(main[3][1:]), diff))
        if note:
            what += " (" + note + ")"
        self.violation(what, {
            "kind": "mcp-history-list-keys", "tool": last.tool, "history": h.name, "history_kind": h.kind,
            "calls": [{"id": i + 1, "tool": x.tool, "arguments": x.call_args, "target": x.tgt.name, "configuration": x.tgt.conf} for i, x in enumerate(steps)],
            "wrong_answer_id": len(steps), "difference": diff, "server_working_directory": h.cwd,
            "configuration_files": {x.tgt.name: self.texts[x.tgt.name] for x in steps if x.tgt.name in self.texts},
            "mcp": line + "   # the answer with \"id\":%d is the wrong one; the sleeps keep the calls sequential; binary: go build -o %s ./cmd/pyscn-mcp"
                          % (len(steps), M.MCP_BIN),
            "mcp_line_reproduces": confirmed, "cli": " ".join(main[3]), "original_history": [x.short() for x in h.steps]})


# ----------------------------------------------------------------------------------------------------------------------------------
# race stage (called from c20.main with the -race build of cmd/pyscn)
# ----------------------------------------------------------------------------------------------------------------------------------
def race_stage(ck, root, race_bin, thorough):
    st = {"runs": 0, "projects": 0, "gomaxprocs": [1, 2, 4, 16], "race_reports": 0}
    base = os.path.join(root, "lists-race")
    files = sources()
    rng = random.Random(ck.seed * 7177 + 3)
    plans = []
    for nm, k, how in (("L1", 1, "pyscn"), ("L2", 2, "pyscn"), ("L3", 3, "pyscn"), ("Lp", rng.randint(1, 3), "pyproject")):
        text = toml_doc(config_of(k)) if how == "pyscn" else '[project]\nname = "d"\nversion = "0"\n\n' + toml_doc(config_of(k), "tool.pyscn.")
        for procs in st["gomaxprocs"]:
            for rep in range(3 if thorough else 1):
                d = H.write_tree(os.path.join(base, "%s-%d-%d" % (nm, procs, rep)), files, {}, "none")      # own copy: the run writes .pyscn/ there
                with open(os.path.join(d, ".pyscn.toml" if how == "pyscn" else "pyproject.toml"), "w") as f:
                    f.write(text)
                plans.append((nm, procs, d, text))
        st["projects"] += 1

    def one(plan):
        nm, procs, d, text = plan
        p = subprocess.run([race_bin, "analyze", "--json", "--no-open", "."], cwd=d, stdout=subprocess.PIPE, stderr=subprocess.PIPE, text=True, errors="replace",
                           timeout=600, env=dict(os.environ, GOMAXPROCS=str(procs), GORACE="atexit_sleep_ms=20"))
        return p.returncode, p.stderr
    with ThreadPoolExecutor(max_workers=4) as ex:
        results = list(ex.map(one, plans))
    reported = set()
    for (nm, procs, d, text), (rc, err) in zip(plans, results):
        st["runs"] += 1
        if "DATA RACE" in err or rc == 66:
            st["race_reports"] += 1
            if nm in reported or len(reported) >= 2:
                continue
            reported.add(nm)
            i = err.find("DATA RACE")
            ck.violation("the race detector reports a data race between the concurrent analyses of a project whose configuration file sets list-valued keys "
                         "(configuration %s, GOMAXPROCS=%d, exit status %d): cd %s && GOMAXPROCS=%d %s analyze --json --no-open ." % (nm, procs, rc, d, procs, race_bin),
                         {"kind": "race-list-keys", "configuration": nm, "configuration_file": text, "gomaxprocs": procs, "exit_status": rc, "project": d,
                          "command": "cd %s && GOMAXPROCS=%d %s analyze --json --no-open .   # go build -race -o %s ./cmd/pyscn" % (d, procs, race_bin, race_bin),
                          "report": err[max(0, i - 100):i + 3000]})
        elif rc != 0 and not st.get("failed_run_noted"):
            st["failed_run_noted"] = True
            ck.notes.append("list-valued keys, race stage: exit status %d for configuration %s: %s" % (rc, nm, err[-300:]))
    return st
