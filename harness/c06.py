"""C06 — no input crashes or hangs the analyser, and a bad file never hides the others."""
import json
import os
import random
import re
import shutil
import subprocess
import time
from concurrent.futures import ThreadPoolExecutor

import lib
import pygen
import c06proj
import cfgcommon as cc

CLASS_FILE = '''class Account:
    def __init__(self, owner):
        self.owner = owner
        self.balance = 0

    def deposit(self, amount):
        if amount <= 0:
            raise ValueError(amount)
        self.balance += amount
        return self.balance

    def report(self):
        return "%s: %d" % (self.owner, self.balance)


def helper(items):
    total = 0
    for it in items:
        if it:
            total += 1
        else:
            continue
    return total
    print("never")
'''

# A project with a root marker, a package with re-exports and a sub-package, and several importers: the bad content is placed
# in each *role* (package __init__, imported module, sub-package __init__, importer), because the import/re-export resolution of the
# system analyses reads those files again, outside the per-file service loops.
PKG_PROJECT = {
    "requirements.txt": "",
    "pkg/__init__.py": "from .core import Engine, helper_fn\nfrom .util import clamp\nfrom .sub import leaf_fn\n\n__all__ = [\"Engine\", \"helper_fn\", \"clamp\", \"leaf_fn\"]\n",
    "pkg/core.py": "from .util import clamp\n\n\nclass Engine:\n    def __init__(self, size):\n        self.size = size\n\n    def run(self, n):\n        total = 0\n"
                   "        for i in range(n):\n            if i % 2 == 0:\n                total += i * self.size\n            else:\n                total -= 1\n        return clamp(total, 0, 99)\n\n\n"
                   "def helper_fn(x):\n    if x > 10:\n        return x * 2\n    return x\n",
    "pkg/util.py": "def clamp(value, low, high):\n    if value < low:\n        return low\n    if value > high:\n        return high\n    return value\n",
    "pkg/sub/__init__.py": "from .leaf import leaf_fn\n",
    "pkg/sub/leaf.py": "from ..util import clamp\n\n\ndef leaf_fn(v):\n    while v > 3:\n        v -= 1\n    return clamp(v, 0, 3)\n",
    "app_main.py": "from pkg import Engine, helper_fn\nfrom pkg.sub import leaf_fn\n\n\nclass Runner:\n    def __init__(self):\n        self.engine = Engine(3)\n\n    def go(self, n):\n"
                   "        if n > 5:\n            return helper_fn(self.engine.run(n))\n        return leaf_fn(self.engine.run(1))\n",
    "cli_main.py": "from pkg import clamp, leaf_fn\nimport pkg.core\n\n\ndef parse(argv):\n    if len(argv) > 1:\n        return clamp(int(argv[1]), 0, 100)\n    return leaf_fn(0)\n    print(pkg.core)\n",
    "tools_main.py": "from pkg.core import Engine\nfrom pkg import util, clamp\nfrom pkg.sub.leaf import leaf_fn\n\n\ndef tool(n):\n    for i in range(n):\n        if clamp(i, 0, 2):\n            continue\n    return Engine(n), util, leaf_fn\n",
}
ROLES = ["pkg/__init__.py", "pkg/core.py", "pkg/sub/__init__.py", "pkg/sub/leaf.py", "app_main.py", "pkg/util.py"]

REQ = ("From Coq Require Import List Arith NArith.\nImport ListNotations.\nFrom PV Require Import Service.Isolation Deps.DepthCost.")


def bad_contents(rng, good_src):
    """(label, bytes) for the malformed stream."""
    b = good_src.encode()
    out = [("empty", b""), ("only_newlines", b"\n\n\n"), ("only_comment", b"# nothing here\n"),
           ("nul_bytes", b"def f():\n    return 1\n\x00\x00\x00\n"), ("random_bytes", bytes(rng.getrandbits(8) for _ in range(400))),
           ("bom_valid", b"\xef\xbb\xbf" + b), ("utf16", good_src.encode("utf-16")), ("latin1_high", "x = 'caf\xe9'\n".encode("latin-1")),
           ("invalid_utf8", b"s = '\xff\xfe\xfd'\n"), ("unclosed_paren", b"def f(:\n    pass\n"), ("unclosed_string", b"s = 'abc\nprint(s)\n"),
           ("unclosed_triple", b'"""doc\ndef f():\n    pass\n'), ("bad_indent", b"def f():\nreturn 1\n"), ("tabs_spaces", b"def f():\n\tif 1:\n        return 1\n"),
           ("lone_else", b"else:\n    pass\n"), ("elif_without_test", b"if x:\n    pass\nelif :\n    pass\n"), ("elif_without_body", b"if x:\n    pass\nelif y:\n"),
           ("crlf", b.replace(b"\n", b"\r\n")), ("cr_only", b.replace(b"\n", b"\r")), ("form_feed", b"\x0cdef f():\n    return 1\n"),
           ("python2_print", b"print 'hello'\nexec code in d\n"), ("keyword_soup", b"def class if else try: except finally\n"),
           ("unicode_ident", "def \u00e9t\u00e9(\u03b1):\n    return \u03b1\n".encode()), ("long_line", b"x = [" + b"1," * 20000 + b"]\n"),
           ("match_soft_kw", b"match = 1\ncase = 2\nmatch match:\n    case case:\n        pass\n"),
           ("walrus_lambda", b"f = lambda: (y := 1)\nprint(f())\n"), ("decorator_only", b"@dec\n"), ("backslash_eof", b"x = 1 + \\"),
           ("deep_parens", b"x = " + b"(" * 3000 + b"1" + b")" * 3000 + b"\n")]
    for i in range(6):
        cut = rng.randrange(1, len(b))
        out.append(("truncated_%d" % cut, b[:cut]))
    for i in range(4):
        mb = bytearray(b)
        for _ in range(rng.randint(1, 8)):
            mb[rng.randrange(len(mb))] = rng.getrandbits(8)
        out.append(("bitflip_%d" % i, bytes(mb)))
    return out


def surface_mutants(src, rng, n_random):
    """Semantics-preserving surface rewrites of a valid source (checked: same ast.dump under CPython): a backslash continuation
    after each keyword / operator kind outside brackets, a newline or a comment inside brackets, trailing comments.
    Returns [(label, text)]."""
    import ast
    import io
    import keyword
    import tokenize
    try:
        want = ast.dump(ast.parse(src))
        toks = list(tokenize.generate_tokens(io.StringIO(src).readline))
    except Exception:
        return []
    lines = src.split("\n")
    depth = 0
    points = []          # (row, col_after_token, kind, in_brackets)
    for i, t in enumerate(toks):
        if t.type == tokenize.OP and t.string in "([{":
            depth += 1
        elif t.type == tokenize.OP and t.string in ")]}":
            depth -= 1
        nxt = toks[i + 1] if i + 1 < len(toks) else None
        if nxt is None or nxt.type in (tokenize.NEWLINE, tokenize.NL, tokenize.COMMENT, tokenize.ENDMARKER, tokenize.INDENT, tokenize.DEDENT):
            continue
        if nxt.start[0] != t.end[0] or (t.type == tokenize.OP and t.string in ".@"):
            continue
        if t.type == tokenize.NAME and keyword.iskeyword(t.string):
            points.append((t.end[0], t.end[1], "kw_" + t.string, depth > 0))
        elif t.type == tokenize.OP and t.string in ("=", "+", "-", "*", ",", "==", "->", ":=", "+=", "%", "<", ">", "|", "("):
            points.append((t.end[0], t.end[1], "op_" + t.string, depth > 0))

    def apply(pts, style):
        ls = list(lines)
        for (r, c, kind, inb) in sorted(pts, reverse=True):
            line = ls[r - 1]
            ind = line[:len(line) - len(line.lstrip())] + "        "
            if inb:
                ins = {0: "\n" + ind, 1: "  # note\n" + ind, 2: " \\\n" + ind}[style % 3]
            else:
                ins = " \\\n" + ind
            ls[r - 1] = line[:c] + ins + line[c:].lstrip(" ")
        return "\n".join(ls)
    out = []
    seen = set()
    for pt in points:                      # one mutant per kind (first occurrence, outside and inside brackets)
        key = (pt[2], pt[3])
        if key in seen:
            continue
        seen.add(key)
        out.append(("cont_%s%s" % (pt[2], "_br" if pt[3] else ""), apply([pt], len(out))))
    for i in range(n_random):
        pts = rng.sample(points, min(len(points), rng.randint(2, 6)))
        pts = list({(p[0]): p for p in pts}.values())          # one insertion per source line
        out.append(("cont_random_%d" % i, apply(pts, i)))
    good = []
    for label, text in out:
        try:
            if ast.dump(ast.parse(text)) == want:
                good.append((label, text))
        except Exception:
            pass
    return good


def nested_source(depth, kind):
    lines = ["def deep():"]
    for i in range(depth):
        ind = "    " * (i + 1)
        if kind == "if":
            lines.append(ind + "if x%d:" % i)
        elif kind == "for":
            lines.append(ind + "for a%d in b:" % i)
        else:
            lines.append(ind + "try:")
    lines.append("    " * (depth + 1) + "pass")
    if kind == "try":
        for i in reversed(range(depth)):
            lines.append("    " * (i + 1) + "finally:")
            lines.append("    " * (i + 2) + "pass")
    return "\n".join(lines) + "\n"


def wide_source(kind, k):
    """One function made of k SEQUENTIAL compound statements (breadth instead of depth): path-based analyses that are not memoised
    need 2^k steps on reconverging branches.  Every shape is valid Python."""
    L = ["def wide(x, xs):", "    t = 0"]
    pre_loop = ["    for a in xs:", "        t += a"]
    if kind == "loop_then_ifelse_return":          # a loop, then k if/else whose paths all end in return
        L += pre_loop
        for i in range(k):
            L += ["    if x == %d:" % i, "        t += 1", "    else:", "        t -= 1"]
        L += ["    if t:", "        return t", "    else:", "        return 0"]
    elif kind == "ifs_loop_ifelse":                 # plain ifs, a loop, then if/else
        for i in range(k):
            L += ["    if x == %d:" % i, "        t += 1"]
        L += pre_loop
        for i in range(k):
            L += ["    if x > %d:" % i, "        t += 1", "    else:", "        t -= 1"]
        L += ["    return t"]
    elif kind == "ifelse_in_loop":
        L += ["    while x:"]
        for i in range(k):
            L += ["        if x == %d:" % i, "            t += 1", "        else:", "            continue" if i % 7 == 3 else "            t -= 1"]
        L += ["        x -= 1", "    return t"]
    elif kind == "try_except_seq":
        L += pre_loop
        for i in range(k):
            L += ["    try:", "        t += int(x)", "    except ValueError:", "        t -= 1", "    except TypeError:", "        return %d" % i]
        L += ["    return t"]
    elif kind == "elif_chain":
        L += pre_loop + ["    if x == -1:", "        return -1"]
        for i in range(k):
            L += ["    elif x == %d:" % i, "        t += %d" % i if i % 2 else "        return %d" % i]
        L += ["    else:", "        return t", "    return t"]
    elif kind == "match_cases":
        L += pre_loop + ["    match x:"]
        for i in range(k):
            L += ["        case %d:" % i, "            t += 1" if i % 2 else "            return t"]
        L += ["    return t"]
    elif kind == "loops_with_else_seq":
        for i in range(k):
            L += ["    for a in xs:", "        if a == %d:" % i, "            break", "    else:", "        t += 1"]
        L += ["    return t"]
    elif kind == "with_return_seq":
        L += pre_loop
        for i in range(k):
            L += ["    with open(x) as f%d:" % i, "        if f%d:" % i, "            t += 1", "        else:", "            t -= 1"]
        L += ["    return t"]
    else:
        raise ValueError(kind)
    return "\n".join(L) + "\n"


WIDE_KINDS = ["loop_then_ifelse_return", "ifs_loop_ifelse", "ifelse_in_loop", "try_except_seq", "elif_chain", "match_cases", "loops_with_else_seq",
              "with_return_seq"]


def sections_for(data, keep):
    """Projection of a report onto the files in `keep` (base names)."""
    def base(p):
        return os.path.basename(p or "")
    out = {}
    if not data:
        return out
    cx = data.get("complexity") or {}
    out["complexity"] = sorted((base(f["FilePath"]), f["Name"], f["StartLine"], f["EndLine"], f["Metrics"]["Complexity"], f["RiskLevel"])
                               for f in cx.get("Functions") or [] if base(f["FilePath"]) in keep)
    dc = data.get("dead_code") or {}
    out["dead_code"] = sorted((base(f["file_path"]), fn["name"], x["location"]["start_line"], x["location"]["end_line"], x["severity"])
                              for f in dc.get("files") or [] if base(f["file_path"]) in keep for fn in f.get("functions") or [] for x in fn.get("findings") or [])
    for sec, key in (("cbo", "CouplingCount"), ("lcom", "LCOM4")):
        s = data.get(sec) or {}
        out[sec] = sorted((base(c["FilePath"]), c["Name"], c["StartLine"], c["EndLine"], c["Metrics"].get(key)) for c in s.get("Classes") or []
                          if base(c["FilePath"]) in keep)
    cl = data.get("clone") or {}
    pairs = []
    for p in cl.get("clone_pairs") or []:
        a, b = p.get("clone1") or p.get("Clone1") or {}, p.get("clone2") or p.get("Clone2") or {}
        la, lb = a.get("location") or {}, b.get("location") or {}
        fa, fb = base(la.get("file_path")), base(lb.get("file_path"))
        if fa in keep and fb in keep:
            pairs.append(tuple(sorted([(fa, la.get("start_line")), (fb, lb.get("start_line"))])) + (round(p.get("similarity", 0), 6),))
    out["clone"] = sorted(pairs)
    return out


def run_cli(args, cwd, timeout=120):
    t0 = time.time()
    try:
        p = subprocess.run([os.path.join(lib.BIN, "pyscn")] + args, cwd=cwd, stdout=subprocess.PIPE, stderr=subprocess.PIPE, timeout=timeout)
        return p.returncode, p.stdout.decode("utf-8", "replace"), p.stderr.decode("utf-8", "replace"), time.time() - t0
    except subprocess.TimeoutExpired:
        return -9, "", "TIMEOUT", time.time() - t0


def latest_json(d):
    rep = os.path.join(d, ".pyscn", "reports")
    if not os.path.isdir(rep):
        return None
    fs = sorted(f for f in os.listdir(rep) if f.endswith(".json"))
    if not fs:
        return None
    try:
        return json.load(open(os.path.join(rep, fs[-1])))
    except Exception:
        return None


def main(tier):
    ck = lib.Check("C06", tier)
    ck.prepare("C06.v")
    rng = ck.rng
    thorough = tier == "thorough"
    root = lib.fresh_dir("c06")
    # ----- base project of good files
    good = {}
    mods = cc.gen_modules(rng, 3, dict(max_depth=3, max_len=4, n_funcs=3))
    for i, m in enumerate(mods):
        good["good%d.py" % i] = "\n".join(m["lines"]).replace("from rt import *", "import os") + "\n"
    good["classes.py"] = CLASS_FILE
    good["copy_of_classes.py"] = CLASS_FILE.replace("Account", "Ledger")
    keep = set(good)

    def make_project(name, extra=None):
        d = os.path.join(root, name)
        os.makedirs(d)
        for fn, src in good.items():
            with open(os.path.join(d, fn), "w") as f:
                f.write(src)
        for fn, content in (extra or {}).items():
            with open(os.path.join(d, fn), "wb") as f:
                f.write(content)
        return d

    stats = dict(bad_inputs=0, mixed_runs=0, alone_runs=0, format_runs=0, nesting_runs=0, exit_codes={}, isolation_sections_compared=0,
                 depth_graphs=0, labels=[])
    base_dir = make_project("base")
    rc, out, err, dt = run_cli(["analyze", "--json", "--no-open", "--min-complexity", "1", "--min-severity", "info", "."], base_dir)
    base = sections_for(latest_json(base_dir), keep)
    if not base.get("complexity"):
        ck.broken_ties.append("baseline project produced no complexity rows (rc=%s): %s" % (rc, err[-300:]))
        ck.finish()

    def check_run(label, rc, out, err, dt, size, replay):
        stats["exit_codes"][str(rc)] = stats["exit_codes"].get(str(rc), 0) + 1
        bad = None
        if rc not in (0, 1):
            bad = "exit status %s (expected 0 or 1)" % rc
        elif "panic:" in err or "goroutine " in err or "panic:" in out or "fatal error:" in err:
            bad = "crash output on stderr: " + (err[-300:])
        elif dt > 20 + size / 2000.0:
            # wall time on a loaded machine says little: the run is repeated, with a reference run of the same command on the
            # baseline project next to it; it is slow only if the repetition passes the bound as well AND is far slower than the reference
            again = replay.get("rerun")
            slow = True
            if again:
                ref = run_cli(again[0], base_dir)
                rep2 = run_cli(again[0], again[1])
                slow = rep2[3] > 20 + size / 2000.0 and rep2[3] > 20 * ref[3] + 5
                stats["slow_reruns"] = stats.get("slow_reruns", 0) + 1
                dt = rep2[3]
            if slow:
                bad = "took %.1fs for %d bytes" % (dt, size)
        if bad:
            ck.violation("input '%s': %s" % (label, bad), dict(replay, stderr=err[-1500:], exit=rc, seconds=dt), independent=True)
        return bad is None

    bads = bad_contents(rng, good["good0.py"])
    if not thorough:
        bads = bads[:29] + bads[29:][:6]
    stats["labels"] = [l for l, _ in bads]
    # ----- each bad file mixed into the project, and alone
    def one(item):
        idx, (label, content) = item
        d = make_project("mix_%03d" % idx, {"zz_bad.py": content})
        r1 = run_cli(["analyze", "--json", "--no-open", "--min-complexity", "1", "--min-severity", "info", "."], d)
        data = latest_json(d)
        a = os.path.join(root, "alone_%03d" % idx)
        os.makedirs(a)
        with open(os.path.join(a, "bad.py"), "wb") as f:
            f.write(content)
        r2 = run_cli(["analyze", "--json", "--no-open", "."], a)
        shutil.rmtree(os.path.join(d, ".pyscn"), ignore_errors=True)
        return idx, label, content, r1, data, r2

    with ThreadPoolExecutor(max_workers=8) as ex:
        results = list(ex.map(one, enumerate(bads)))
    for idx, label, content, r1, data, r2 in results:
        stats["bad_inputs"] += 1
        stats["mixed_runs"] += 1
        stats["alone_runs"] += 1
        rep = {"kind": "malformed", "label": label, "content_hex": content[:600].hex(), "content_len": len(content)}
        ok = check_run(label + " (mixed)", r1[0], r1[1], r1[2], r1[3], len(content) + 4000,
                       dict(rep, rerun=(["analyze", "--json", "--no-open", "--min-complexity", "1", "--min-severity", "info", "."],
                                        os.path.join(root, "mix_%03d" % idx))))
        check_run(label + " (alone)", r2[0], r2[1], r2[2], r2[3], len(content),
                  dict(rep, rerun=(["analyze", "--json", "--no-open", "."], os.path.join(root, "alone_%03d" % idx))))
        if ok:
            got = sections_for(data, keep)
            for sec in base:
                stats["isolation_sections_compared"] += 1
                if got.get(sec) != base[sec]:
                    ck.violation("file '%s' changed the %s results of the other files: %s"
                                 % (label, sec, [x for x in base[sec] if x not in (got.get(sec) or [])][:3] + [x for x in (got.get(sec) or []) if x not in base[sec]][:3]),
                                 dict(rep, section=sec, expected=base[sec][:20], got=(got.get(sec) or [])[:20]), independent=True)
                    break
    # ----- bad content in every role of a package project (package __init__, imported module, sub-package, importer)
    stats["role_runs"] = 0
    role_bads = [(l, c) for l, c in bads if l in ("unclosed_paren", "empty", "random_bytes", "bad_indent", "lone_else", "unclosed_triple", "nul_bytes", "elif_without_body",
                                                  "invalid_utf8", "keyword_soup")]
    role_bads += [("unclosed_reexport", b"from .core import Engine, helper_fn\nfrom .util import (clamp\n\n__all__ = [\"Engine\", \"helper_fn\"\n"),
                  ("reexport_then_garbage", b"from .core import Engine\nfrom .util import clamp\ndef (:\n")]
    if not thorough:
        role_bads = [rb for i, rb in enumerate(role_bads) if i % 2 == rng.randrange(2) or rb[0].startswith(("unclosed_", "reexport"))]
    all_args = ["analyze", "--json", "--no-open", "--min-complexity", "1", "--min-severity", "info", "."]

    def write_pkg(name, replace=None, drop=None):
        d = os.path.join(root, name)
        for fn, src in PKG_PROJECT.items():
            if fn == drop:
                continue
            os.makedirs(os.path.dirname(os.path.join(d, fn)), exist_ok=True)
            with open(os.path.join(d, fn), "wb") as f:
                f.write(replace[1] if replace and replace[0] == fn else src.encode())
        return d

    def role_one(item):
        ri, role, label, content = item
        d = write_pkg("role_%02d_%s" % (ri, label), replace=(role, content))
        r = run_cli(all_args, d)
        return role, label, content, r, latest_json(d)

    role_keep = {}
    role_base = {}
    for role in ROLES:
        # "what they would be without it": the same project with the role file removed
        role_keep[role] = set(os.path.basename(f) for f in PKG_PROJECT if f.endswith(".py") and f != role and os.path.basename(f) != "__init__.py")
        bd = write_pkg("rolebase_" + role.replace("/", "_"), drop=role)
        rb = run_cli(all_args, bd)
        role_base[role] = sections_for(latest_json(bd), role_keep[role])
        check_run("package project without %s" % role, rb[0], rb[1], rb[2], rb[3], 4000, {"kind": "role-baseline", "role": role})
    items = [(i, role, l, c) for i, (role, (l, c)) in enumerate((role, b) for role in ROLES for b in role_bads)]
    with ThreadPoolExecutor(max_workers=8) as ex:
        role_results = list(ex.map(role_one, items))
    for role, label, content, r, data in role_results:
        stats["role_runs"] += 1
        rep = {"kind": "role", "role": role, "label": label, "content_hex": content[:600].hex(), "project": PKG_PROJECT}
        if check_run("%s as %s" % (label, role), r[0], r[1], r[2], r[3], len(content) + 4000, rep):
            got = sections_for(data, role_keep[role])
            for sec in role_base[role]:
                stats["isolation_sections_compared"] += 1
                if got.get(sec) != role_base[role][sec]:
                    ck.violation("'%s' as %s changed the %s results of the other files: %s"
                                 % (label, role, sec, [x for x in role_base[role][sec] if x not in (got.get(sec) or [])][:3]
                                    + [x for x in (got.get(sec) or []) if x not in role_base[role][sec]][:3]),
                                 dict(rep, section=sec, expected=role_base[role][sec][:20], got=(got.get(sec) or [])[:20]), independent=True)
                    break
    # ----- project-level isolation: the figures of the SUMMARY that describe the valid files (health score, grade, every category
    # score, the complexity / dead code / clone / CBO / LCOM counters, analyzed_files, total_files) and the verdict of `pyscn check`
    # are those of the project without the broken files.  Project sizes (valid + broken) on and around the project-size normalisation
    # of the health score (> 10 files) and at 20 / 101 files; 1, 2 and many broken files (syntax errors, binary, wrong encodings,
    # truncated, a dangling symbolic link); dead code, a complex function, a clone family, coupled and scattered classes in the valid
    # files dosed below every penalty cap (a figure on its cap hides a dilution).  Run against run: no model involved.
    t_proj = time.time()
    stats.update(project_runs=0, project_fields_compared=0, project_check_runs=0, project_sizes=[], project_scores_off_cap={})
    full_args = ["analyze", "--json", "--no-open", "."]
    fast_sel = "complexity,deadcode"
    fast_args = ["analyze", "--json", "--no-open", "--select", fast_sel, "."]
    check_args = ["check", "."]
    sizes = (9, 10, 11, 12, 20, 101)
    pool = []
    for pi_, (label, content) in enumerate(c06proj.broken_pool(rng)):
        # "broken" = the analyser itself cannot analyse it: alone in a directory it yields no analysed file (the tolerant parser accepts
        # some texts CPython rejects: those are valid files for this clause)
        pd = os.path.join(root, "probe_%02d" % pi_)
        os.makedirs(pd)
        with open(os.path.join(pd, "probe.py"), "wb") as f:
            f.write(content)
        r = run_cli(fast_args, pd)
        ps_ = (latest_json(pd) or {}).get("summary") or {}
        check_run("broken content %s alone" % label, r[0], r[1], r[2], r[3], len(content), {"kind": "project-probe", "label": label, "content_hex": content[:300].hex()})
        if ps_.get("analyzed_files", 0) == 0 and ps_.get("total_functions", 0) == 0:
            pool.append((label, content))
        else:
            stats.setdefault("project_contents_accepted_by_parser", []).append(label)
    stats["project_broken_kinds"] = [l for l, _ in pool]
    if len(pool) < 4:
        ck.broken_ties.append("project-level isolation: only %d of the broken contents are rejected by the analyser" % len(pool))
        pool = pool or [("unclosed_paren", b"def f(:\n")]
    plan = []                                   # (total, n_broken, dose, args, with_check)
    for total in sizes:
        for nb_label, nb in (("1", 1), ("2", 2), ("many", max(3, total // 2))):
            doses = sorted(set([4, 10, 18, 20] + ([rng.randint(1, 19)] if not thorough else list(range(1, 40, 3)))))
            full_dose = rng.choice([d for d in doses if d < 20])
            plan.append((total, nb, full_dose, full_args, True))
            for d in doses:
                if d != full_dose or thorough:
                    plan.append((total, nb, d, fast_args, False))

    def strip_lines(text, names):
        """Messages of `pyscn check` without the lines that name a broken file and without durations."""
        out = []
        for line in text.splitlines():
            if any(n in line for n in names):
                continue
            out.append(re.sub(r"\d+(\.\d+)?\s*(ms|µs|us|s)\b", "<t>", line.rstrip()))
        return out

    def project_one(item):
        pi, (total, nb, dose, args, with_check) = item
        prng = random.Random(rng_seed * 1000 + pi)
        n_valid = total - nb
        valid = c06proj.valid_files(n_valid, dose, prng)
        n_link = 1 if nb >= 2 else 0
        offs = prng.randrange(len(pool))
        broken = {}
        for i in range(nb - n_link):
            label, content = pool[(offs + i) % len(pool)]
            # names that sort before, between and after the valid files
            broken["%s_bad_%02d_%s.py" % (("aa", "v00m", "zz")[i % 3], i, label)] = content
        dw = c06proj.write_project(os.path.join(root, "proj_%03d_with" % pi), valid, broken, n_link)
        do = c06proj.write_project(os.path.join(root, "proj_%03d_without" % pi), valid, {})
        rw = run_cli(args, dw)
        jw = latest_json(dw)
        ro = run_cli(args, do)
        jo = latest_json(do)
        cw = co = None
        if with_check:
            cw = run_cli(check_args, dw, timeout=60)
            co = run_cli(check_args, do, timeout=60)
        for d in (dw, do):
            shutil.rmtree(d, ignore_errors=True)
        return (total, nb, dose, args, sorted(broken) + ["zz_unreadable_%d.py" % i for i in range(n_link)], valid, broken, rw, jw, ro, jo, cw, co)

    rng_seed = rng.randrange(1 << 30)
    with ThreadPoolExecutor(max_workers=8) as ex:
        proj_results = list(ex.map(project_one, enumerate(plan)))
    for (total, nb, dose, args, bnames, valid, broken, rw, jw, ro, jo, cw, co) in proj_results:
        stats["project_runs"] += 2
        if (total, nb) not in stats["project_sizes"]:
            stats["project_sizes"].append((total, nb))
        full = "--select" not in args
        rep = {"kind": "project-summary", "total_files": total, "broken_files": nb, "valid_files": total - nb, "dead_code_functions": dose,
               "args": args, "broken": {n: broken[n][:200].hex() for n in sorted(broken)}, "dangling_symlinks": [n for n in bnames if n not in broken],
               "generator": "c06proj.valid_files(%d, %d, rng)" % (total - nb, dose), "valid_head": {n: valid[n][:300] for n in sorted(valid)[:2]}}
        ok_w = check_run("project of %d files, %d of them broken" % (total, nb), rw[0], rw[1], rw[2], rw[3], 200000, rep)
        ok_o = check_run("project of %d valid files" % (total - nb), ro[0], ro[1], ro[2], ro[3], 200000, rep)
        if not (ok_w and ok_o):
            continue
        sw, so = (jw or {}).get("summary"), (jo or {}).get("summary")
        if not sw or not so:
            ck.violation("no summary in the report of a project of %d files, %d of them broken (with: %s, without: %s)" % (total, nb, bool(sw), bool(so)),
                         dict(rep, stderr=rw[2][-800:]), independent=True)
            continue
        fields = c06proj.SUMMARY_FIELDS + c06proj.SIZE_FIELDS + (c06proj.DEPS_FIELDS if full else [])
        diff = []
        for f_ in fields:
            stats["project_fields_compared"] += 1
            if f_ not in so or f_ not in sw:
                ck.broken_ties.append("summary field %s is missing from the report" % f_)
                continue
            a, b = sw[f_], so[f_]
            if (abs(a - b) > 1e-9) if isinstance(a, float) or isinstance(b, float) else a != b:
                diff.append((f_, b, a))
        for f_ in ("complexity_score", "dead_code_score", "duplication_score", "coupling_score", "cohesion_score"):
            if 0 < so.get(f_, 0) < 100 and (full or f_ in ("complexity_score", "dead_code_score")):
                stats["project_scores_off_cap"][f_] = stats["project_scores_off_cap"].get(f_, 0) + 1
        if so.get("analyzed_files") != total - nb:
            ck.broken_ties.append("generator: %d valid files written, analyzed_files %s" % (total - nb, so.get("analyzed_files")))
        if diff:
            ck.violation("%d broken file(s) in a project of %d files change the summary of the %d valid files (%d functions with dead code; %s): %s"
                         % (nb, total, total - nb, dose, " ".join(args[:-1]), ", ".join("%s %s -> %s" % d for d in diff[:8])),
                         dict(rep, differences=[{"field": f_, "without_broken": b, "with_broken": a} for f_, b, a in diff],
                              summary_with=sw, summary_without=so), independent=True)
        if cw is not None:
            stats["project_check_runs"] += 2
            okc = check_run("`pyscn check` on a project of %d files, %d of them broken" % (total, nb), cw[0], cw[1], cw[2], cw[3], 200000, rep)
            okc = check_run("`pyscn check` on a project of %d valid files" % (total - nb), co[0], co[1], co[2], co[3], 200000, rep) and okc
            if okc:
                lw, lo = strip_lines(cw[1] + "\n" + cw[2], bnames), strip_lines(co[1] + "\n" + co[2], bnames)
                if cw[0] != co[0] or sorted(lw) != sorted(lo):
                    ck.violation("`pyscn check` on a project of %d files, %d of them broken: exit %s (without the broken files: %s), messages about the valid files differ: %s"
                                 % (total, nb, cw[0], co[0], ([x for x in lo if x not in lw][:3], [x for x in lw if x not in lo][:3])),
                                 dict(rep, exit_with=cw[0], exit_without=co[0], messages_with=lw[:40], messages_without=lo[:40]), independent=True)
                if not any(n in cw[1] + cw[2] for n in broken):
                    ck.violation("`pyscn check` does not report any of the %d unparsable files of the project" % nb, dict(rep, stderr=cw[2][-800:]), independent=True)
    # ----- the same for the module graph: two valid modules that import each other and a third one; k broken files next to them.
    # The broken files are counted as modules of the project (deps_total_modules, not compared: it describes them), which dilutes
    # the share of modules in cycles and moves the main sequence deviation of the valid modules: finding F83
    stats["project_deps_runs"] = 0
    cyc = {"alpha.py": "import beta\n\n\ndef fa():\n    return beta.fb()\n", "beta.py": "import alpha\n\n\ndef fb():\n    return alpha.fa()\n",
           "gamma.py": "def fc():\n    return 1\n"}
    deps_args = ["analyze", "--json", "--no-open", "--select", "deps", "."]
    d0 = c06proj.write_project(os.path.join(root, "projdeps_without"), cyc, {})
    r0 = run_cli(deps_args, d0)
    s0 = (latest_json(d0) or {}).get("summary") or {}
    check_run("module graph project, valid files only", r0[0], r0[1], r0[2], r0[3], 2000, {"kind": "project-deps", "files": cyc})
    for k in (1, 2, 7):
        broken = {"zz_bad_%d.py" % i: pool[i % len(pool)][1] for i in range(k)}
        dk = c06proj.write_project(os.path.join(root, "projdeps_with_%d" % k), cyc, broken)
        rk = run_cli(deps_args, dk)
        sk = (latest_json(dk) or {}).get("summary") or {}
        stats["project_deps_runs"] += 1
        rep = {"kind": "project-deps", "files": cyc, "broken": {n: c[:200].hex() for n, c in broken.items()}, "args": deps_args}
        if not check_run("module graph project with %d broken files" % k, rk[0], rk[1], rk[2], rk[3], 4000, rep) or not s0 or not sk:
            continue
        diff = [(f_, s0.get(f_), sk.get(f_)) for f_ in ("deps_modules_in_cycles", "deps_max_depth", "deps_main_sequence_deviation", "dependency_score",
                                                        "architecture_score", "health_score", "grade", "total_files", "analyzed_files") if s0.get(f_) != sk.get(f_)]
        if not diff:
            continue
        diluted = all(f_ in ("deps_main_sequence_deviation", "dependency_score", "health_score", "grade") for f_, _, _ in diff) \
            and sk.get("deps_total_modules") == s0.get("deps_total_modules", 0) + k
        kf = ck.match_known({"class": "broken-file-counted-as-module"}) if diluted else None
        if kf is not None:
            ck.known_finding(kf)
            stats.setdefault("project_deps_dilution", {})[str(k)] = ["%s %s -> %s" % d for d in diff]
        else:
            ck.violation("%d broken file(s) next to 3 valid modules (two of them import each other) change the dependency figures of the valid modules: %s"
                         % (k, ", ".join("%s %s -> %s" % d for d in diff)), dict(rep, summary_with=sk, summary_without=s0), independent=True)
    stats["project_stage_seconds"] = round(time.time() - t_proj, 1)
    # ----- valid Python in unusual surface form: continuations after every keyword/operator kind, newlines and comments inside
    # brackets (same AST under CPython): no crash, and the per-function results are those of the plain file
    stats["surface_runs"] = 0
    here = os.path.dirname(os.path.abspath(__file__))
    surf_base = {"corpus.py": open(os.path.join(here, "corpus", "c01_syntax.py")).read(), "gen.py": good["good0.py"], "classes.py": CLASS_FILE}
    surf_args = ["analyze", "--json", "--no-open", "--min-complexity", "1", "--min-severity", "info", "--select", "complexity,deadcode,cbo,lcom", "."]

    def fn_rows(data):
        cx = (data or {}).get("complexity") or {}
        return sorted((f["Name"], f["Metrics"]["Complexity"]) for f in cx.get("Functions") or [])
    for bname, bsrc in surf_base.items():
        muts = surface_mutants(bsrc, rng, 12 if thorough else 4)
        bd = os.path.join(root, "surf_%s_base" % bname[:-3])
        os.makedirs(bd)
        with open(os.path.join(bd, "m.py"), "w") as f:
            f.write(bsrc)
        rb = run_cli(surf_args, bd)
        base_rows = fn_rows(latest_json(bd))
        check_run("plain %s" % bname, rb[0], rb[1], rb[2], rb[3], len(bsrc), {"kind": "surface-base", "file": bname})

        def surf_one(item):
            i, (label, text) = item
            d = os.path.join(root, "surf_%s_%03d" % (bname[:-3], i))
            os.makedirs(d)
            with open(os.path.join(d, "m.py"), "w") as f:
                f.write(text)
            r = run_cli(surf_args, d)
            return label, text, r, latest_json(d)
        with ThreadPoolExecutor(max_workers=8) as ex:
            sres = list(ex.map(surf_one, enumerate(muts)))
        stats.setdefault("surface_kinds", []).extend(sorted({l for l, _ in muts if not l.startswith("cont_random")})[:80])
        for label, text, r, data in sres:
            stats["surface_runs"] += 1
            rep = {"kind": "surface", "base": bname, "label": label, "source": text[:6000]}
            if check_run("%s of %s" % (label, bname), r[0], r[1], r[2], r[3], len(text), rep):
                rows = fn_rows(data)
                if rows != base_rows:
                    diff = [x for x in base_rows if x not in rows][:3] + [x for x in rows if x not in base_rows][:3]
                    ck.violation("valid file %s rewritten with %s (same AST under CPython) gets different per-function results: %s" % (bname, label, diff),
                                 dict(rep, expected=base_rows[:40], got=rows[:40]), independent=True)
    # ----- the opt-in analyses and the other sub-command on valid files: `check` (incl. --select mockdata, whose heuristics scan every
    # identifier and string for keywords) on a file that spells every mock keyword at the start, inside and at the end of longer names,
    # repeated, overlapping, in strings, addresses and URLs
    stats["mock_runs"] = 0
    kws = re.findall(r'"([a-z]+)"', re.search(r"func DefaultMockDataKeywords\(\) \[\]string \{(.*?)\n\}", open(os.path.join(lib.REPO, "domain", "defaults.go")).read(), re.S).group(1)) or \
        ["mock", "test", "temp", "foo", "bar"]
    doms = ["example.com", "test.org", "localhost", "foo.com", "invalid", "real-shop.io"]
    zoo = ["import os", ""]
    n_id = 0
    for k in kws:
        forms = [k, k + "_x", "x_" + k, "x" + k, k + "x", "x" + k + "y", k + "_" + k, "la" + k + "_" + k + "s", "x" + k + "s_" + k + "_y", k + k, k + "x" + k,
                 k.upper(), k.capitalize() + "Case", "la" + k + "_" + k + "_" + k + "ing", "_" + k, k + "_", k + "1" + k + "2"]
        for f_ in forms:
            n_id += 1
            ident = "v%d_%s" % (n_id, f_) if not (f_[0].isalpha() or f_[0] == "_") else f_ + "_%d" % n_id
            zoo.append("%s = \"%s and la%ss_%s_runs\"" % (ident, f_, k, k))
        zoo.append("def fn_%s_%s(%s_arg, la%s_%ss=None):\n    %s_local = \"user@%s\"\n    return %s_arg, la%s_%ss, %s_local" % (k, k, k, k, k, k, doms[len(zoo) % len(doms)], k, k, k, k))
    for dname in doms:
        zoo.append("URL_%d = \"https://api.%s/v1/%s?x=%s\"\nMAIL_%d = \"john.doe@%s\"" % (len(zoo), dname, kws[0], kws[1], len(zoo), dname))
    zoo += ["PHONE = \"123-456-7890\"", "CARD = \"4111 1111 1111 1111\"", "UUID = \"00000000-0000-0000-0000-000000000000\"", "ZEROS = 1111111111", ""]
    md = os.path.join(root, "mockzoo")
    os.makedirs(md)
    with open(os.path.join(md, "names.py"), "w") as f:
        f.write("\n".join(zoo) + "\n")
    with open(os.path.join(md, "plain.py"), "w") as f:
        f.write(good["good1.py"])
    for args in (["check", "--select", "mockdata", "."], ["check", "."], ["check", "--select", "complexity,deadcode,clones,deps,mockdata", "."],
                 ["check", "--select", "mockdata", "--quiet", "."], ["analyze", "--json", "--no-open", "--select", "complexity,deadcode", "."]):
        r = run_cli(args, md, timeout=60)
        stats["mock_runs"] += 1
        check_run("`pyscn %s` on the identifier/string zoo" % " ".join(args), r[0], r[1], r[2], r[3], sum(len(x) for x in zoo), {"kind": "mockzoo", "args": args, "names_head": zoo[:40]})
    # ----- every format is written for a project with a bad file
    fd = make_project("formats", {"zz_bad.py": b"def f(:\n"})
    for fmt in ("--json", "--yaml", "--csv", "--html"):
        stats["format_runs"] += 1
        r = run_cli(["analyze", fmt, "--no-open", "."], fd)
        check_run("format " + fmt, r[0], r[1], r[2], r[3], 5000, {"kind": "format", "format": fmt})
        rep = os.path.join(fd, ".pyscn", "reports")
        ext = fmt[2:]
        if not (os.path.isdir(rep) and any(f.endswith("." + ext) for f in os.listdir(rep))):
            ck.violation("no %s report was written for a project containing an unparsable file" % ext, {"kind": "format", "format": fmt, "stderr": r[2][-500:]}, independent=True)
    # ----- deep nesting: terminates, time roughly proportional to size
    for kind in ("if", "for", "try"):
        times = []
        depths = (40, 80, 160, 320) if thorough else (40, 80, 160)
        for depth in depths:
            nd = os.path.join(root, "nest_%s_%d" % (kind, depth))
            os.makedirs(nd)
            src = nested_source(depth, kind)
            with open(os.path.join(nd, "deep.py"), "w") as f:
                f.write(src)
            r = run_cli(["analyze", "--json", "--no-open", "--select", "complexity,deadcode,clones", "."], nd, timeout=180)
            stats["nesting_runs"] += 1
            check_run("nesting %s depth %d" % (kind, depth), r[0], r[1], r[2], r[3], len(src), {"kind": "nesting", "construct": kind, "depth": depth})
            times.append(r[3])
    # ----- breadth: k sequential compound statements in one function (several copies per file: the order in which blocks are
    # queried is a Go map order), time proportional to size
    stats["wide_runs"] = 0

    def wide_one(item):
        kind, k = item
        wd = os.path.join(root, "wide_%s_%d" % (kind, k))
        os.makedirs(wd)
        one = wide_source(kind, k)
        src = "\n\n".join(one.replace("def wide(", "def wide%d(" % j) for j in range(4))
        with open(os.path.join(wd, "wide.py"), "w") as f:
            f.write(src)
        # clone detection is measured separately below (finding F71): here every analysis whose cost should be linear in the function
        return kind, k, src, run_cli(["analyze", "--json", "--no-open", "--min-complexity", "1", "--select", "complexity,deadcode,cbo,lcom,deps", "."], wd, timeout=60)
    wide_items = [(kind, k) for kind in WIDE_KINDS for k in ((30, 60, 120) if thorough else (30, 60))]
    with ThreadPoolExecutor(max_workers=8) as ex:
        for kind, k, src, r in ex.map(wide_one, wide_items):
            stats["wide_runs"] += 1
            check_run("breadth %s x %d" % (kind, k), r[0], r[1], r[2], r[3], len(src), {"kind": "breadth", "shape": kind, "k": k, "source_head": src[:1500]})
    # ----- clone detection on one long elif chain: every nested `if` of the chain is a fragment and each pair is compared by APTED,
    # the time grows roughly with the cube of the number of clauses (finding F71); measured at 10 and 20 clauses
    ct = {}
    for k in (10, 20):
        cd = os.path.join(root, "wide_clones_%d" % k)
        os.makedirs(cd)
        one = wide_source("elif_chain", k)
        with open(os.path.join(cd, "wide.py"), "w") as f:
            f.write("\n\n".join(one.replace("def wide(", "def wide%d(" % j) for j in range(4)))
        r = run_cli(["analyze", "--json", "--no-open", "--select", "clones", "."], cd, timeout=120)
        check_run("clone detection on an elif chain of %d clauses" % k, r[0], r[1], r[2], min(r[3], 1.0), 1000, {"kind": "breadth-clones", "k": k})
        ct[k] = r[3]
    stats["clone_elif_chain_seconds"] = {str(k): round(v, 2) for k, v in ct.items()}
    if ct[20] > 5 * max(ct[10], 0.05) and ct[20] > 2.0:
        kf = ck.match_known({"class": "clone-detection-elif-chain"})
        if kf is not None:
            ck.known_finding(kf)
        else:
            ck.violation("clone detection time is not proportional to the input size: an elif chain of 10 clauses takes %.1fs, of 20 clauses %.1fs"
                         % (ct[10], ct[20]), {"kind": "breadth-clones", "seconds": stats["clone_elif_chain_seconds"]}, independent=True)
    # ----- longest import chain (calculateMaxDepth): (1) value tie with Deps/DepthCost.v on small graphs, import cycles included, modules
    # listed in a shuffled order; (2) time proportional to modules + imports on DAGs of every density.  Finding F21 (the search
    # enumerated simple paths: 2^n on a dense DAG) is repaired: a recurrence is a VIOLATION.
    if ck.go_ok:
        graphs = []
        for _ in range(60 if thorough else 25):          # random digraphs, most of them with import cycles
            n = rng.randint(2, 7)
            graphs.append(("random", n, [(i, j) for i in range(n) for j in range(n) if i != j and rng.random() < 0.3]))
        for _ in range(30 if thorough else 12):          # random DAGs, dense ones included (every module gets a height)
            n = rng.randint(2, 9)
            p = rng.choice((0.2, 0.5, 0.9))
            graphs.append(("dag", n, [(i, j) for i in range(n) for j in range(i + 1, n) if rng.random() < p]))
        for _ in range(30 if thorough else 12):          # an import cycle above / beside / below a dense DAG: both code paths in one search
            n = rng.randint(5, 9)
            k = rng.randint(2, 3)
            e = set((i, (i + 1) % k) for i in range(k))
            e |= set((i, j) for i in range(k, n) for j in range(i + 1, n) if rng.random() < 0.7)
            e |= set((i, j) for i in range(k) for j in range(k, n) if rng.random() < 0.4)
            if rng.random() < 0.5:
                e |= set((i, j) for i in range(k, n) for j in range(k) if rng.random() < 0.15)
            graphs.append(("cycle+dag", n, sorted(e)))
        reqs = [{"op": "maxdepth", "modules": ["m%02d" % i for i in range(n)], "edges": [["m%02d" % a, "m%02d" % b] for a, b in e]} for _, n, e in graphs]
        impl = lib.driver(reqs)
        try:
            items = []
            for _, n, e in graphs:
                succ = "(fun i => nth i %s [])" % lib.clist([lib.clist(["%d" % b for (a, b) in e if a == i]) for i in range(n)])
                order = list(range(n))
                rng.shuffle(order)                      # graph.Nodes is a Go map: any order of the modules
                nodes = lib.clist(["%d" % x for x in order])
                items.append("(max_depth_new %s %s, max_depth %s %s, N.of_nat (max_depth_steps %s %s))" % (succ, nodes, succ, nodes, succ, nodes))
            out = lib.coq_eval("C06_depth", REQ, "Eval vm_compute in %s.\n" % lib.clist(items))
            model = lib.parse_coq_values(out)[0]
            for (kind, n, e), r, (mv, enum_v, steps) in zip(graphs, impl, model):
                stats["depth_graphs"] += 1
                stats.setdefault("depth_graph_kinds", {}).setdefault(kind, 0)
                stats["depth_graph_kinds"][kind] += 1
                if kind == "dag" and steps > 2 * n + len(e):
                    ck.broken_ties.append("DepthCost.v: %d steps on an acyclic graph with %d modules and %d imports (theorem: at most 2n+e)" % (steps, n, len(e)))
                if mv != enum_v:
                    ck.broken_ties.append("DepthCost.v: max_depth_new %s differs from max_depth %s on %d modules, edges %s" % (mv, enum_v, n, e))
                if r.get("depth") != mv:
                    ck.broken_ties.append("calculateMaxDepth on %d modules, edges %s (%s): implementation %s, model (DepthCost.v max_depth_new) %s"
                                          % (n, e, kind, r.get("depth"), mv))
        except Exception as ex_:
            ck.broken_ties.append("depth model evaluation failed: " + str(ex_)[-600:])

        # time on DAGs: generous linear bound in modules + imports (observed after the repair: ~0.05 us per import)
        def mk(ms, edges):
            return {"op": "maxdepth", "modules": ms, "edges": [[ms[a], ms[b]] for a, b in edges]}

        def complete(n):
            return "complete DAG of %d modules" % n, n, [(i, j) for i in range(n) for j in range(i + 1, n)]

        def layered(layers, width):                      # every module imports every module of the next layer: width^layers chains
            n = layers * width
            return ("layered DAG, %d layers of %d modules" % (layers, width), n,
                    [(l * width + a, (l + 1) * width + b) for l in range(layers - 1) for a in range(width) for b in range(width)])

        def random_dag(n, p):
            return "random DAG of %d modules, density %.2f" % (n, p), n, [(i, j) for i in range(n) for j in range(i + 1, n) if rng.random() < p]

        def diamonds(k):                                 # k diamonds in a row: 2^k chains, 3k+1 modules
            e = []
            for d in range(k):
                a = 3 * d
                e += [(a, a + 1), (a, a + 2), (a + 1, a + 3), (a + 2, a + 3)]
            return "%d diamonds in a row" % k, 3 * k + 1, e
        # the sizes grow stage by stage and a stage is only run when the one before kept the bound: code that enumerates paths would
        # not come back from the later stages
        stages = [[complete(12), complete(16), complete(20), layered(6, 3), diamonds(12)],
                  [complete(40), layered(10, 4), diamonds(40), random_dag(60, 0.5)],
                  [complete(80), complete(120), complete(200), layered(40, 5), layered(10, 20), diamonds(200), random_dag(300, 0.1)]]
        if thorough:
            stages.append([complete(400), layered(100, 8), random_dag(1000, 0.05)])
        stats["depth_time_micros"] = {}
        stop = False
        for stage in stages:
            reqs = []
            for label, n, e in stage:
                reqs += [mk(["m%04d" % i for i in range(n)], e)] * 3          # the best of three runs counts
            try:
                t = lib.driver(reqs, timeout=120)
            except subprocess.TimeoutExpired:
                ck.violation("calculateMaxDepth did not finish within 120 s on DAGs of at most %d modules (%s)"
                             % (max(n for _, n, _ in stage), "; ".join(l for l, _, _ in stage)),
                             {"kind": "depth-time", "graphs": [l for l, _, _ in stage], "micros_before": stats["depth_time_micros"]}, independent=True)
                break
            for k, (label, n, e) in enumerate(stage):
                micros = min(max(1, x.get("micros", 1)) for x in t[3 * k:3 * k + 3])
                stats["depth_time_micros"][label] = micros
                stats["depth_graphs"] += 1
                longest = None
                if label.startswith("complete"):
                    longest = n - 1
                elif label.startswith("layered"):
                    longest = int(label.split()[2]) - 1
                elif label.endswith("diamonds in a row"):
                    longest = 2 * ((n - 1) // 3)
                if longest is not None and t[3 * k].get("depth") != longest:
                    ck.violation("calculateMaxDepth on a %s: %s, the longest import chain has %d imports" % (label, t[3 * k].get("depth"), longest),
                                 {"kind": "depth-value", "graph": label, "modules": n, "edges": e[:400]}, independent=True)
                bound = 20000 + 20 * (n + len(e))
                if micros > bound and not stop:
                    stop = True
                    ck.violation("calculateMaxDepth time is not proportional to the size of the import graph: %s (%d imports) takes %d us (bound %d us = 20 ms + 20 us per module and import)"
                                 % (label, len(e), micros, bound), {"kind": "depth-time", "graph": label, "modules": n, "imports": len(e), "micros": stats["depth_time_micros"]}, independent=True)
            if stop:
                break
    # ----- what is left of F21: inside strongly connected parts the search still enumerates simple paths (theorem
    # C06_depth_cyclic_enumeration_observation): measured on complete digraphs (every module imports every other) - finding F72
    if ck.go_ok:
        try:
            def clique(n):
                ms = ["q%02d" % i for i in range(n)]
                return {"op": "maxdepth", "modules": ms, "edges": [[a, b] for a in ms for b in ms if a != b]}
            tq = lib.driver([clique(6), clique(8), clique(9)], timeout=120)
            mq = [max(1, x.get("micros", 1)) for x in tq]
            stats["clique_micros"] = {"6": mq[0], "8": mq[1], "9": mq[2]}
            if mq[2] > 20 * mq[0] and mq[2] > 50000:
                kf = ck.match_known({"class": "cyclic-import-graph-depth"})
                if kf is not None:
                    ck.known_finding(kf)
                else:
                    ck.violation("calculateMaxDepth time explodes on a complete import digraph: 6 modules %d us, 8 modules %d us, 9 modules %d us" % tuple(mq),
                                 {"kind": "depth-time-cyclic", "micros": stats["clique_micros"]}, independent=True)
        except Exception as ex_:
            ck.notes.append("clique timing not measured: " + str(ex_)[-200:])
    ck.samples = [{"label": l, "content_head": c[:60].decode("latin-1")} for l, c in bads[:6]]
    ck.cov.update({
        "evaluations": stats["mixed_runs"] + stats["alone_runs"] + stats["role_runs"] + stats["surface_runs"] + stats["wide_runs"] + stats["mock_runs"] + stats["format_runs"] + stats["nesting_runs"] + stats["depth_graphs"],
        "distinct_nontrivial": stats["bad_inputs"],
        "rule": "malformed stream (syntax errors, truncations, bit flips, binary, encodings, BOM, CR/CRLF, very long line, deep parentheses) each "
                "analysed alone and mixed into a project of 5 good files (all analyses), report sections of the good files compared with the "
                "baseline; malformed content in every role of a package project (package __init__ with re-exports, imported module, sub-package "
                "__init__, leaf, importer) compared with the project without that file; PROJECT LEVEL (run against run): projects of 9, 10, 11, 12, 20 and 101 files "
                "(valid + broken: on and around the > 10 files project-size normalisation of the dead code penalty) with 1, 2 and many broken files (syntax errors, binary, "
                "UTF-16, invalid UTF-8, truncated, NUL garbage, a dangling symbolic link; only contents the analyser itself cannot analyse alone), valid files with "
                "4/10/18/20/random functions with dead code, a complex function, a clone family in >= 4400 lines, coupled and scattered classes so that no category score sits on its cap: "
                "every summary field describing the valid files (health_score, grade, the five category scores, dependency/architecture score, counters of all analyses, "
                "analyzed_files, total_files) and the exit status and messages of `pyscn check` (lines naming a broken file removed) equal those of the project without the broken files; "
                "3 valid modules with an import cycle plus 1/2/7 broken files, dependency figures (finding F83); valid sources rewritten with a continuation after every keyword/operator kind and "
                "newlines/comments inside brackets (same AST under CPython) must not crash and must give the per-function results of the plain file; 4 output formats; nesting depth 40..320 of if/for/try; breadth: 30..120 sequential compound statements of eight shapes (loop then if/else "
                "returns, if/else in a loop, try/except, elif chain, match cases, loops with else, with blocks); calculateMaxDepth vs its Coq model (value) on random digraphs, random DAGs and import cycles combined with dense DAGs, "
                "modules in shuffled order; calculateMaxDepth time on complete DAGs of 12..200 modules, layered DAGs, rows of diamonds and random DAGs against "
                "20 ms + 20 us per module and import. "
                "This stream is evidence for the un-modelled part (tree-sitter, Go runtime, OS); it is a test, not a proof.",
        "input_distribution": stats, "disagreements_checked": len(ck.violations),
    })
    ck.trusted += ["Coq 8.16.1 kernel", "tree-sitter C parser, Go runtime (stack growth, memory), wall clock and OS are NOT modelled: decided by the malformed-input runs",
                   "model Service/Isolation.v of the per-file service loops; Deps/DepthCost.v of calculateMaxDepth"]
    ck.finish(assumptions=["time bound used by the runs: 20 s + 0.5 ms/byte per pyscn invocation on this machine"])
