#!/usr/bin/env python3
"""Rewrite commit hashes in known_findings*.json so that they name the commits on /repo's main branch
(cherry-picks and history rewrites change hashes): match by commit subject."""
import glob
import json
import re
import subprocess

def git(*a):
    return subprocess.run(["git", "-C", "/repo"] + list(a), capture_output=True, text=True).stdout

main = {}
for l in git("log", "--format=%h %s", "main").splitlines():
    h, s = l.split(" ", 1)
    main.setdefault(s, h)
files = ["/verif/known_findings.json"] + sorted(glob.glob("/verif/known_findings.d/*.json"))
for f in files:
    t = open(f).read()
    t2 = t
    for h in set(re.findall(r"\b[0-9a-f]{7}\b", t)):
        subj = git("log", "-1", "--format=%s", h).strip()
        if subj and subj in main and main[subj] != h:
            t2 = t2.replace(h, main[subj])
    if t2 != t:
        open(f, "w").write(t2)
        print("updated", f)
    for e in json.loads(t2).get("findings", []):
        if e.get("status") == "fixed":
            c = e.get("commit", "")
            ok = bool(c) and c in main.values()
            if not ok:
                print("WARNING: %s %s: commit %r is not on main" % (f, e.get("id"), c))
