"""Shared data gathering for C01-C04: generated modules -> pyscn report, Coq model/spec, CPython traces."""
import json
import os
import subprocess
import sys

import lib
import pygen

HERE = os.path.dirname(os.path.abspath(__file__))
REQ = ("From Coq Require Import NArith List Bool.\nImport ListNotations.\n"
       "From PV Require Import Py.PyAST Py.PySem Cfg.Flow Cfg.FlowSpec Cfg.Builder Cfg.FlowRun.\nOpen Scope N_scope.")


def gen_modules(rng, n, profile):
    """profile: dict of Gen options + n_funcs."""
    mods = []
    for i in range(n):
        opts = dict(profile)
        n_funcs = opts.pop("n_funcs", 4)
        with_class = opts.pop("with_class", True)
        g = pygen.Gen(rng, **opts)
        m = g.module(n_funcs, with_class=with_class)
        ast, lines = pygen.layout(m)
        mods.append({"ast": ast, "lines": lines})
    return mods


def write_modules(mods, d, prefix="m"):
    for i, m in enumerate(mods):
        m["path"] = os.path.join(d, "%s%04d.py" % (prefix, i))
        with open(m["path"], "w") as f:
            f.write("\n".join(m["lines"]) + "\n")


def run_pyscn(d, extra=None, select="complexity,deadcode"):
    args = ["--select", select, "--min-severity", "info", "--min-complexity", "1"] + (extra or [])
    rc, data, err = lib.analyze_json(d, args, timeout=600)
    return rc, data, err


def index_report(data, mods):
    """Attach impl results to each module record."""
    by_path = {os.path.basename(m["path"]): m for m in mods}
    for m in mods:
        m["impl_funcs"] = []      # list of dicts (every row of complexity.Functions for this file)
        m["impl_dead"] = {}       # name -> list of (start, end, severity, reason); duplicates of a name are merged, count kept
        m["impl_dead_rows"] = []
    if not data:
        return
    cx = data.get("complexity") or {}
    for fn in cx.get("Functions") or []:
        m = by_path.get(os.path.basename(fn["FilePath"]))
        if m is not None:
            m["impl_funcs"].append({"name": fn["Name"], "start": fn["StartLine"], "end": fn["EndLine"],
                                    "complexity": fn["Metrics"]["Complexity"], "risk": fn["RiskLevel"]})
    dc = data.get("dead_code") or {}
    for f in dc.get("files") or []:
        m = by_path.get(os.path.basename(f["file_path"]))
        if m is None:
            continue
        for fn in f.get("functions") or []:
            m["impl_dead_rows"].append(fn["name"])
            lst = m["impl_dead"].setdefault(fn["name"], [])
            for x in fn.get("findings") or []:
                lst.append((x["location"]["start_line"], x["location"]["end_line"], x["severity"], x["reason"]))


def coq_analyse(mods, tag):
    """Model + specs for every def of every module (sharded)."""
    jobs = []
    shard = 12
    for off in range(0, len(mods), shard):
        items = [pygen.coq_block(m["ast"]) for m in mods[off:off + shard]]
        jobs.append(("%s_an_%d" % (tag, off), REQ,
                     "Definition mods : list block := %s.\nEval vm_compute in (map analyse_module mods).\n" % lib.clist(items)))
    res = []
    for out in lib.coq_eval_many(jobs, workers=12):
        res += lib.parse_coq_values(out)[0]
    for m, r in zip(mods, res):
        m["model"] = [{"qn": list(x[0]), "k": x[1], "dead": set(x[2]), "cx": x[3], "must_dead": set(x[4]),
                       "mccabe": x[5], "c03": x[6]} for x in r]
    return len(res) == len(mods)


def coq_build(mods, tag):
    """Graph-level model (Cfg/Builder.v) for every def of every module."""
    jobs = []
    shard = 8
    for off in range(0, len(mods), shard):
        items = [pygen.coq_block(m["ast"]) for m in mods[off:off + shard]]
        jobs.append(("%s_bd_%d" % (tag, off), REQ,
                     "Definition mods : list block := %s.\nEval vm_compute in (map build_module mods).\n" % lib.clist(items)))
    res = []
    for out in lib.coq_eval_many(jobs, workers=12):
        res += lib.parse_coq_values(out)[0]
    for m, r in zip(mods, res):
        m["builder"] = {x[0]: {"ranges": sorted((a, b) for (a, b) in x[1]), "cx": x[2], "dead_lines": set(x[3])} for x in r}
    return len(res) == len(mods)


def coq_traces(mods, oracles, tag):
    jobs = []
    shard = 6
    orc = lib.clist([lib.clist(["%d" % c for c in o]) for o in oracles])
    for off in range(0, len(mods), shard):
        items = [pygen.coq_block(m["ast"]) for m in mods[off:off + shard]]
        size = max(len(m["lines"]) for m in mods[off:off + shard])
        fuel = 3 * (size + 5) * (max(len(o) for o in oracles) + 3)
        jobs.append(("%s_tr_%d" % (tag, off), REQ,
                     "Definition mods : list block := %s.\nDefinition orc : list (list N) := %s.\n"
                     "Eval vm_compute in (map (run_module %d orc) mods).\n" % (lib.clist(items), orc, fuel)))
    res = []
    for out in lib.coq_eval_many(jobs, workers=12):
        res += lib.parse_coq_values(out)[0]
    for m, r in zip(mods, res):
        m["coq_traces"] = {k: [(oc, list(t)) for (oc, t) in runs] for (k, runs) in r}
    return len(res) == len(mods)


def cpython_traces(mods, oracles):
    req = {"files": [m["path"] for m in mods], "oracles": oracles}
    p = subprocess.run([sys.executable, os.path.join(HERE, "pyrun.py")], input=json.dumps(req), stdout=subprocess.PIPE,
                       stderr=subprocess.PIPE, text=True, timeout=900)
    if p.returncode != 0:
        raise RuntimeError("pyrun failed: " + p.stderr[-2000:])
    res = json.loads(p.stdout)
    for m in mods:
        m["py_traces"] = {int(k): v for k, v in res[m["path"]].items()}


def gen_oracles(rng, n, length=24):
    """Choices 0..3: 3 = raise at a marker that may raise, 1/2 = true / item / match / swallow, 0 = false / stop."""
    out = [[0] * 4, [1] * length, [3]]
    while len(out) < n:
        style = rng.random()
        if style < 0.35:
            o = [rng.choice([0, 1, 2]) for _ in range(length)]                 # nothing raises
        elif style < 0.8:
            o = [rng.choice([0, 0, 1, 1, 2, 2, 1, 3]) for _ in range(length)]  # an occasional exception
        else:
            o = [rng.choice([0, 1, 2, 3]) for _ in range(rng.randint(3, length))]
        out.append(o)
    return out


def def_table(m):
    """qualified name string -> (def stmt, path) for every def of a module (pygen naming)."""
    out = {}
    for path, s in pygen.all_defs(m["ast"]):
        out.setdefault(pygen.qualname(path, m["ast"]), []).append((s, path))
    return out


def unobservable_ids(body):
    """Ids with no CPython marker (pass/break/continue) and ids with no source span in pyscn (elif tests)."""
    nomark, elif_ids = set(), set()
    for s in pygen.own_statements(body):
        if s[0] in ('pass', 'break', 'continue'):
            nomark.add(s[1])
        if s[0] == 'if':
            for (k, _) in s[3]:
                elif_ids.add(k)
    return nomark, elif_ids


def covered(k, ranges):
    return any(a <= k <= b for (a, b, *_rest) in ranges)
