"""C20, section (c'): combined runs in which SEVERAL analyses FAIL at once, under the -race build of the real binary.

The analyses of one `pyscn analyze` run are executed concurrently; what each of them returns (a result or a failure) must
be collected without a data race and the failure report must not depend on which of them finishes first. The successful
runs of section (c) never reach the failure path, so here every way the command line has of making an individual analysis
fail is combined:

  complexity : --min-complexity below 0; a target whose files all fail to parse ("no functions found")
  clones     : --clone-threshold below 0.0 / above 1.0
  cbo        : --min-cbo below 0
  lcom       : [lcom] thresholds in .pyscn.toml that the analysis rejects (low <= 0, medium <= low)
  (dead code and the dependency analysis have no failure reachable from the command line; they run alongside)

all subsets of these modes, at and next to each boundary (the accepted neighbour value is exercised as well), on four kinds
of target (normal project; project with unparsable files that several analyses hit; only unparsable files; files in which
several analyses find nothing), with all analyses or with a --select of the failing ones, plus failures that happen before
the concurrent stage (configuration rejected at load time, unreadable target).

Oracle, per scenario (nothing is compared with a fixed text):
  * apart  : every enabled analysis is run ALONE (--select X) with the same options, configuration and target; the combined
             run must report exactly as many failures as there are analyses that fail alone ("N error(s)"), the failure it
             names must be literally one of the failures reported alone, and every analysis that succeeds alone must put the
             same section into the combined report (a failing neighbour does not disturb it);
  * repeat : the combined command is repeated under GOMAXPROCS 1/2/4/16: no race report (no "DATA RACE", status not 66),
             exit status 1 whenever an analysis failed, and the `Error:` output identical in every repetition.
"""
import itertools
import json
import os
import re
import shutil
import subprocess
import time
from concurrent.futures import ThreadPoolExecutor

from c06 import CLASS_FILE, latest_json

ANALYSES = [("complexity", "complexity"), ("deadcode", "dead_code"), ("clones", "clone"), ("cbo", "cbo"), ("lcom", "lcom"), ("deps", "system")]
ERR_RE = re.compile(r"^Error: analysis completed with (\d+) error\(s\): (.*)$")

# failure mode -> list of (rejected?, options, [lcom] configuration text); the first entries are the rejected values at and
# beyond the boundary, the last one is the accepted neighbour
MODES = {
    "complexity": [(True, ["--min-complexity", "-1"], ""), (True, ["--min-complexity", "-7"], ""), (False, ["--min-complexity", "0"], "")],
    "clones": [(True, ["--clone-threshold", "-0.01"], ""), (True, ["--clone-threshold", "1.01"], ""), (True, ["--clone-threshold", "7"], ""),
               (False, ["--clone-threshold", "1.0"], "")],
    "cbo": [(True, ["--min-cbo", "-1"], ""), (True, ["--min-cbo", "-40"], ""), (False, ["--min-cbo", "0"], "")],
    "lcom": [(True, [], "[lcom]\nlow_threshold = 5\nmedium_threshold = 5\n"), (True, [], "[lcom]\nlow_threshold = 0\n"),
             (True, [], "[lcom]\nlow_threshold = 9\nmedium_threshold = 4\n"), (True, [], "[lcom]\nlow_threshold = -2\nmedium_threshold = 3\n"),
             (False, [], "[lcom]\nlow_threshold = 4\nmedium_threshold = 5\n")],
}
MODE_NAMES = sorted(MODES)

GOOD = {
    "classes.py": CLASS_FILE,
    "ledger.py": CLASS_FILE.replace("Account", "Ledger"),
    "flow.py": "import classes\n\n\ndef walk(n):\n    t = 0\n    for i in range(n):\n        if i % 2:\n            continue\n        t += i\n    return t\n    t = 1\n\n\n"
               "def pick(a, b):\n    if a and b:\n        return a\n    elif a:\n        return b\n    return None\n",
    "user.py": "import flow\nimport ledger\n\n\nclass User:\n    def __init__(self):\n        self.l = ledger.Ledger()\n        self.n = 0\n\n    def run(self):\n"
               "        return flow.walk(self.n)\n\n    def other(self):\n        return 1\n",
}
BROKEN = {"broken_a.py": "def f(:\n    return\n", "broken_b.py": "class K(\n  def g(self) return 1\n", "broken_c.py": "\xff\xfe\x00def\n"}
NOTHING = {"consts.py": "X = 1\nY = [X, 2]\n", "empty.py": "", "doc.py": '"""only a docstring"""\n'}
TARGETS = {"project": GOOD, "project+unparsable": dict(GOOD, **BROKEN), "unparsable": BROKEN, "nothing": NOTHING}


def write_target(d, kind, cfg):
    os.makedirs(d)
    for fn, src in TARGETS[kind].items():
        with open(os.path.join(d, fn), "w", encoding="latin-1") as f:
            f.write(src)
    with open(os.path.join(d, ".pyscn.toml"), "w") as f:
        f.write("[cbo]\nshow_zeros = true\n" + cfg)


def run_one(binary, d, args, procs):
    shutil.rmtree(os.path.join(d, ".pyscn"), ignore_errors=True)
    p = subprocess.run([binary, "analyze", "--json", "--no-open"] + args, cwd=d, stdout=subprocess.PIPE, stderr=subprocess.PIPE, text=True,
                       errors="replace", timeout=300, env=dict(os.environ, GOMAXPROCS=str(procs), GORACE="atexit_sleep_ms=20"))   # default: 1 s of sleep at every successful exit
    errs = [l for l in p.stderr.splitlines() if l.startswith("Error:")]
    return p.returncode, errs, p.stderr


def build_scenarios(rng, thorough):
    """(name, target kind, {mode: variant index}, select-mode, extra-args, pre-stage?)"""
    sc = []
    subsets = [s for k in range(1, len(MODE_NAMES) + 1) for s in itertools.combinations(MODE_NAMES, k)]

    def variants(s, accepted=None):
        return {m: (len(MODES[m]) - 1 if m == accepted else rng.randrange(len(MODES[m]) - 1)) for m in s}
    for s in subsets:                                   # every subset of the failure modes on the normal project
        sc.append(("project", variants(s), "all"))
    for s in subsets:                                   # files that do not parse: complexity fails by itself, the others join
        if "complexity" not in s:
            sc.append(("unparsable", variants(s), "all"))
    sc.append(("unparsable", {}, "all"))
    multi = [s for s in subsets if len(s) >= 2]
    for kind in ("project+unparsable", "nothing"):
        for s in rng.sample(multi, 5 if thorough else 3):
            sc.append((kind, variants(s), "all"))
    for s in rng.sample(multi, 6 if thorough else 3):   # only the failing analyses (and one bystander) are selected
        sc.append(("project", variants(s), "select"))
    for s in rng.sample(multi, 6 if thorough else 3):   # one mode at its accepted neighbour value: that analysis must NOT fail
        sc.append(("project", variants(s, accepted=rng.choice(s)), "all"))
    if thorough:
        for s in multi:
            for kind in ("project", "project+unparsable"):
                sc.append((kind, variants(s), rng.choice(["all", "select"])))
    return sc


def scenario_args(rng, mv, select):
    args, cfg = [], ""
    for m in sorted(mv):
        _, a, c = MODES[m][mv[m]]
        args += a
        cfg += c
    enabled = [a for a, _ in ANALYSES]
    if select == "select":
        rest = [a for a in enabled if a not in mv]
        enabled = sorted(set(mv) | set(rng.sample(rest, 1) if rest else []), key=[a for a, _ in ANALYSES].index)
        order = enabled[:]
        rng.shuffle(order)                              # the order in which --select names them is immaterial
        args += ["--select", ",".join(order)]
    return args, cfg, enabled


PRE_STAGE = [
    ("config rejected at load time", "[complexity]\nlow_threshold = 10\nmedium_threshold = 5\n", ["--min-cbo", "-1", "."], None),
    ("unreadable target among readable ones", "", ["--min-complexity", "-1", "--min-cbo", "-1", "flow.py", "loop.py", "classes.py"], "loop.py"),
    ("missing target", "", ["--min-complexity", "-1", "--clone-threshold", "2", ".", "no_such_dir"], None),
]


def run(ck, root, race_bin, canon, first_diff, thorough):
    rng = ck.rng
    t0 = time.time()
    procs_list = [1, 2, 4, 16]
    reps = 3 if thorough else 2
    stats = dict(scenarios=0, combined_runs=0, apart_runs=0, section_comparisons=0, pre_stage_scenarios=0,
                 failing_analyses_per_scenario={}, failing_by_analysis={}, by_target={}, intended_but_accepted=0)
    base = os.path.join(root, "fail")
    os.makedirs(base)
    jobs = []
    for i, (kind, mv, select) in enumerate(build_scenarios(rng, thorough)):
        args, cfg, enabled = scenario_args(rng, mv, select)
        jobs.append(dict(i=i, kind=kind, modes={m: MODES[m][v][0] for m, v in mv.items()}, args=args, cfg=cfg, enabled=enabled, pre=None))
    for j, (name, cfg, args, link) in enumerate(PRE_STAGE):
        jobs.append(dict(i=len(jobs), kind="project", modes={}, args=args, cfg=cfg, enabled=[a for a, _ in ANALYSES], pre=name, link=link))

    def work(job):
        d = os.path.join(base, "s%03d" % job["i"])
        write_target(d, job["kind"], job["cfg"])
        if job.get("link"):
            os.symlink(job["link"], os.path.join(d, job["link"]))        # a link to itself: cannot be opened
        tgt = [] if job["pre"] else ["."]
        res = dict(job=job, dir=d, apart={}, runs=[])
        for procs in procs_list:
            for r in range(reps):
                rc, errs, stderr = run_one(race_bin, d, job["args"] + tgt, procs)
                res["runs"].append((procs, rc, errs, stderr if "DATA RACE" in stderr or rc not in (0, 1) else ""))
                if not res.get("report_taken"):
                    res["report"], res["report_taken"] = latest_json(d), True
        sel_free = [a for a in job["args"]]
        if "--select" in sel_free:
            k = sel_free.index("--select")
            del sel_free[k:k + 2]
        for a in job["enabled"]:
            rc, errs, stderr = run_one(race_bin, d, sel_free + ["--select", a] + tgt, 4)
            res["apart"][a] = (rc, errs, latest_json(d), "DATA RACE" in stderr)
        shutil.rmtree(d, ignore_errors=True)
        return res

    with ThreadPoolExecutor(max_workers=8) as ex:
        results = list(ex.map(work, jobs))

    seen = {}

    def violation(kind, what, replay):
        seen[kind] = seen.get(kind, 0) + 1
        if seen[kind] <= 3:                              # the same defect shows in most scenarios: three reproductions are enough
            ck.violation(what, replay)
    for res in results:
        job = res["job"]
        stats["scenarios"] += 1
        stats["combined_runs"] += len(res["runs"])
        stats["apart_runs"] += len(res["apart"])
        cmd = "cd <%s target%s> && GOMAXPROCS=%%s pyscn analyze --json --no-open %s" % (
            job["kind"], (" with .pyscn.toml " + json.dumps(job["cfg"])) if job["cfg"] else "", " ".join(job["args"] + ([] if job["pre"] else ["."])))
        replay = {"kind": "failing-analyses", "target": job["kind"], "target_files": sorted(TARGETS[job["kind"]]), "pyscn_toml": "[cbo]\nshow_zeros = true\n" + job["cfg"],
                  "args": ["analyze", "--json", "--no-open"] + job["args"] + ([] if job["pre"] else ["."]), "binary": "go build -race ./cmd/pyscn"}
        alone_fail = {a: x for a, x in res["apart"].items() if x[0] != 0}
        n = len(alone_fail)
        if not job["pre"]:
            stats["failing_analyses_per_scenario"][n] = stats["failing_analyses_per_scenario"].get(n, 0) + 1
            stats["by_target"][job["kind"]] = stats["by_target"].get(job["kind"], 0) + 1
            for a in alone_fail:
                stats["failing_by_analysis"][a] = stats["failing_by_analysis"].get(a, 0) + 1
        # ---- repeat: race freedom, status, identical failure report
        raced = [(p, rc, st) for p, rc, errs, st in res["runs"] if st and ("DATA RACE" in st or rc == 66)]
        if raced or any(x[3] for x in res["apart"].values()):
            p, rc, st = raced[0] if raced else (4, None, "(race reported in a --select run)")
            i = st.find("DATA RACE")
            violation("race", "the race detector reports a data race when several analyses fail in one run: %s (status %s)" % (cmd % p, rc),
                         dict(replay, GOMAXPROCS=p, report=st[max(0, i - 100):i + 3000]))
            continue
        reports = sorted(set((rc, tuple(errs)) for _, rc, errs, _ in res["runs"]))
        if len(reports) > 1:
            violation("unstable", "the failure report of one and the same command differs between repetitions (%d runs, GOMAXPROCS 1/2/4/16): %s gives %s"
                         % (len(res["runs"]), cmd % "N", " | ".join("status %s %s" % (rc, list(e)) for rc, e in reports)[:900]),
                         dict(replay, reports=[{"status": rc, "errors": list(e)} for rc, e in reports]))
            continue
        rc, errs = reports[0]
        if job["pre"]:
            stats["pre_stage_scenarios"] += 1
            if rc != 1 or len(errs) != 1 or ERR_RE.match(errs[0]):
                ck.broken_ties.append("pre-stage failure scenario '%s' did not fail before the analyses: status %s %s" % (job["pre"], rc, errs))
            elif any(x[0] != 1 or x[1] != list(errs) for x in res["apart"].values()):
                violation("pre", "a failure that precedes the analyses (%s) is reported differently depending on the selected analyses: %s vs %s"
                             % (job["pre"], list(errs), {a: x[1] for a, x in res["apart"].items() if x[1] != list(errs)}), replay)
            continue
        # ---- apart: count and identity of the failures
        for m, rejected in job["modes"].items():
            if rejected != (m in alone_fail) and not (m == "complexity" and job["kind"] == "unparsable"):
                stats["intended_but_accepted"] += 1
                ck.notes.append("failure mode %s (%s) %s by --select %s alone" % (m, job["args"], "accepted" if rejected else "rejected", m))
        bad = [a for a, x in alone_fail.items() if x[0] != 1 or len(x[1]) != 1 or not ERR_RE.match(x[1][0]) or ERR_RE.match(x[1][0]).group(1) != "1"]
        if bad:
            violation("alone-form", "--select %s alone does not end with status 1 and one 'analysis completed with 1 error(s)' line: status %s %s (%s)"
                         % (bad[0], alone_fail[bad[0]][0], alone_fail[bad[0]][1], cmd % 4), dict(replay, select=bad[0]))
            continue
        if n == 0:
            if rc != 0 or errs:
                violation("spurious", "every analysis succeeds alone but the combined run fails: %s -> status %s %s" % (cmd % "N", rc, list(errs)), replay)
        else:
            alone_msgs = {ERR_RE.match(x[1][0]).group(2): a for a, x in alone_fail.items()}
            m = ERR_RE.match(errs[0]) if len(errs) == 1 else None
            if rc != 1 or not m:
                violation("status", "%d analyses (%s) fail alone, the combined run ends with status %s and %s: %s" % (n, sorted(alone_fail), rc, list(errs), cmd % "N"), replay)
            elif int(m.group(1)) != n:
                violation("count", "the combined run reports %s error(s) but %d analyses fail when run alone with the same options (%s): %s -> %s"
                             % (m.group(1), n, sorted(alone_fail), cmd % "N", errs[0]), dict(replay, failing_alone=sorted(alone_fail)))
            elif m.group(2) not in alone_msgs:
                violation("identity", "the failure named by the combined run is none of the failures reported by the analyses alone: %s -> %s; alone: %s"
                             % (cmd % "N", errs[0], sorted(alone_msgs)), dict(replay, failing_alone=sorted(alone_fail)))
        # ---- apart: the section of every analysis (failing or not) is the one it produces alone
        full = res.get("report")
        for a, sec in ANALYSES:
            if a not in res["apart"]:
                continue
            part = res["apart"][a][2]
            if part is None or full is None:
                if (part is None) != (full is None) and a not in alone_fail:
                    violation("report-missing", "report file missing in %s run although %s succeeds: %s" % ("the combined" if full is None else "the --select", a, cmd % "N"), replay)
                continue
            stats["section_comparisons"] += 1
            x, y = canon(full.get(sec), True), canon(part.get(sec), True)
            if x != y:
                diff = first_diff(x, y, sec)
                violation("section", "section %s of a combined run in which %s fail differs from the section of --select %s alone: %s (%s)"
                             % (sec, sorted(alone_fail), a, diff, cmd % "N"), dict(replay, section=sec, difference=diff))
    stats["multi_failure_scenarios"] = sum(v for k, v in stats["failing_analyses_per_scenario"].items() if k >= 2)
    if stats["multi_failure_scenarios"] < 10:
        ck.broken_ties.append("failing-analyses stage: only %d scenarios made two or more analyses fail (generator lost its inputs)" % stats["multi_failure_scenarios"])
    stats["failing_analyses_per_scenario"] = {str(k): v for k, v in sorted(stats["failing_analyses_per_scenario"].items())}
    stats["seconds"] = round(time.time() - t0, 1)
    return stats
