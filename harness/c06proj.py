"""C06 project-level isolation: projects whose size (valid + broken files) sits on and around the project-size normalisation boundary
of the health score, with dead code / complexity / clones / coupled and non-cohesive classes in the VALID files dosed below the
penalty caps; the summary of the run WITH the broken files is compared with the run WITHOUT them (run vs run, no model)."""
import os

# every summary field that describes the valid files only (the broken file contributes no function, class, finding or fragment)
SUMMARY_FIELDS = ["analyzed_files", "total_functions", "average_complexity", "high_complexity_count",
                  "dead_code_count", "critical_dead_code", "warning_dead_code", "info_dead_code",
                  "total_clones", "clone_pairs", "clone_groups", "code_duplication_percentage",
                  "cbo_classes", "high_coupling_classes", "medium_coupling_classes", "average_coupling",
                  "lcom_classes", "high_lcom_classes", "medium_lcom_classes", "average_lcom",
                  "complexity_score", "dead_code_score", "duplication_score", "coupling_score", "cohesion_score",
                  "health_score", "grade",
                  "complexity_enabled", "dead_code_enabled", "clone_enabled", "cbo_enabled", "lcom_enabled", "deps_enabled", "arch_enabled"]
# total_files: the unchanged code defines it as the number of files the analyses could analyse (= analyzed_files), it feeds the
# project-size normalisation of the dead code penalty: a broken file must not move it
SIZE_FIELDS = ["total_files"]
# deps_* / dependency_score / architecture_score are compared only when the module graph is requested: a broken file IS a module
DEPS_FIELDS = ["dependency_score", "architecture_score", "deps_modules_in_cycles", "deps_max_depth"]


def dead_fn(name, k):
    """A function with k unreachable statements blocks?  One finding per function: code after return."""
    return "def %s(a):\n    b = a + %d\n    return b\n    print(b)\n" % (name, k)


def complex_fn(name, branches):
    L = ["def %s(x):" % name, "    t = 0"]
    for i in range(branches):
        L += ["    if x == %d:" % i, "        t += %d" % (i + 1)]
    L += ["    return t"]
    return "\n".join(L) + "\n"


def clone_fn(name, salt):
    """Near copies of one another (same shape, other names/constants), well above the minimum fragment size of the clone detector."""
    L = ["def %s(items, limit):" % name, "    found = []", "    seen = {}"]
    for r in range(3):
        L += ["    for it in items:", "        if it > limit + %d:" % r, "            found.append(it * %d)" % (salt + 2), "        elif it < %d:" % r,
              "            found.append(-it)", "        else:", "            seen[it] = seen.get(it, %d) + 1" % r]
    L += ["    total = sum(found)", "    for key in seen:", "        if seen[key] > %d:" % (salt + 1), "            total += key",
          "    while total > limit * 3:", "        total = total - limit", "    if total > %d:" % (salt + 10), "        total = total - 1", "    return total, found, seen"]
    return "\n".join(L) + "\n"


def coupled_class(name, n_deps):
    """A class coupled to n_deps classes defined next to it (classes nobody depends on and that depend on nothing are not counted)."""
    L = []
    for i in range(n_deps):
        L += ["class %sDep%d:" % (name, i), "    def f(self):", "        return %d" % i, "", ""]
    L += ["class %s:" % name, "    def __init__(self):"] + ["        self.d%d = %sDep%d()" % (i, name, i) for i in range(n_deps)]
    L += ["", "    def run(self):", "        return [%s]" % ", ".join("self.d%d" % i for i in range(n_deps))]
    return "\n".join(L) + "\n"


def scattered_class(name, groups):
    """LCOM4 = groups: each method touches its own attribute."""
    L = ["class %s:" % name]
    for g in range(groups):
        L += ["    def m%d(self):" % g, "        self.a%d = %d" % (g, g), "        return self.a%d" % g, ""]
    return "\n".join(L) + "\n"


def plain_fn(name):
    return "def %s(v):\n    return v + 1\n" % name


def valid_files(n_valid, dead, rng, total_lines=4400):
    """n_valid valid files; `dead` functions with unreachable code spread over them; a complex function, clone family, coupled and
    scattered classes in a few of them (each kind in a minority of the files, so that no penalty reaches its cap)."""
    files = {}
    for i in range(n_valid):
        parts = [plain_fn("plain_%d" % i)]
        files["v%03d.py" % i] = parts
    names = sorted(files)
    for j in range(dead):
        files[names[j % n_valid]].append(dead_fn("dead_%d" % j, j))
    # one complex function (complexity 9..14) per 12 files, at least one
    for j in range(max(1, n_valid // 12)):
        files[names[(3 + 5 * j) % n_valid]].append(complex_fn("branchy_%d" % j, rng.randint(8, 13)))
    # one clone family of three near copies in three files (if there are that many)
    for j in range(3):
        files[names[(1 + j) % n_valid]].append(clone_fn("scan_%d" % j, j))
    # classes: 8 plain ones, one medium-coupled, one scattered
    for j in range(8):
        files[names[(2 + j) % n_valid]].append(coupled_class("Plain%d" % j, 1))
    files[names[0]].append(coupled_class("Hub", rng.randint(4, 6)))
    files[names[(n_valid - 1)]].append(scattered_class("Bag", rng.randint(3, 5)))
    # comment lines up to `total_lines` in the project: the duplication figure is clone groups per 1000 lines, one group in a
    # project of less than 2000 lines is already on the cap
    pad = "".join("# line %d\n" % i for i in range(max(0, total_lines // n_valid - 30)))
    return {fn: "\n\n".join(parts) + "\n" + pad for fn, parts in files.items()}


def broken_pool(rng):
    """(label, bytes) of contents that cannot be analysed: syntax errors, binary, wrong encodings, truncated."""
    return [("unclosed_paren", b"def f(:\n    pass\n"), ("binary", bytes([0x7f, 0x45, 0x4c, 0x46, 0, 1, 2, 3]) + bytes(rng.getrandbits(8) for _ in range(300))),
            ("utf16", "def f():\n    return 1\n".encode("utf-16")), ("invalid_utf8", b"def g(:\n    s = '\xff\xfe\xfd'\n"),
            ("unclosed_bracket", b"x = [1, 2\ndef f():\n    return x\n"), ("stray_paren", b"def f():\n    return 1)\n"), ("keyword_soup", b"def class if else try: except finally\n"),
            ("unclosed_triple_dead", b'def h(a):\n    return a\n    print(a)\n"""doc\n'), ("truncated_def", b"def broken(a, b\n    return a\n    print(b)\n"),
            ("nul_garbage", b"\x00\x01\x02 def (\x00\n")]


def write_project(d, valid, broken, unreadable=0):
    os.makedirs(d)
    for fn, src in valid.items():
        with open(os.path.join(d, fn), "w") as f:
            f.write(src)
    for fn, content in broken.items():
        with open(os.path.join(d, fn), "wb") as f:
            f.write(content)
    for i in range(unreadable):                      # a name that cannot be read: dangling symbolic link
        os.symlink(os.path.join(d, "no_such_target_%d" % i), os.path.join(d, "zz_unreadable_%d.py" % i))
    return d
